"""C10 — nowrap=True counters never decrease while their device stays present.

Model: lean/PsutilModel/Model/C10.lean (+C10Gen), Spec: Spec/C10.lean, theorems: Props/C10.lean.
Correspondence: histories of front-end calls `psutil.disk_io_counters / net_io_counters`
(perdisk/pernic or total, nowrap True/False) and `cache_clear()`s with the platform layer
replaced by scripted raw snapshots, compared step by step with the Lean model (and with the
history-defined specification the driver prints alongside).
"""
import ast
import itertools
import threading

from harness.common import extract
from harness.common.extract import NotRecognised
from harness.common.shrink import ddmin

PROP = "C10"
DRIVER_MODULES = ["PsutilModel.Model.C10Gen", "PsutilModel.Spec.C10"]
NEEDS_EXT = True
TRUSTED = [
    "C10 model: reminders/reminder_keys of _WrapNumbers are modelled as one total function (0 = absent); the platform layers' raw snapshots are inputs (C09 covers how they are parsed)",
    "C10 concurrency: the theorem is about the sequence of run()/cache_clear() executions in lock order; the raw sample is taken outside the lock (stated limit)",
]
MANIFEST = {
    "level_text": "Machine-checked Lean 4 proof that the model of the front ends + _WrapNumbers.run/cache_clear refines a history-defined specification for EVERY history (C10_refines: any number of wraps, devices appearing/vanishing/reappearing, empty snapshots, cache_clear anywhere, alternating nowrap, the two functions interleaved), with corollaries C10_monotone, C10_value_formula, C10_reappear_fresh, C10_cache_clear_forgets, C10_nowrap_false_raw, C10_names_independent; plus a proved counterexample for the pre-fix front end (C10_reappear_needs_empty_feed). The model is tied to the code by translator facts (empty-snapshot handling, cache names, wrap comparison) that feed the proof obligation cfg_good, and by a differential run of the real front-end functions against the model on generated and exhaustively enumerated short histories, including two real threads checked against the serial execution in lock order. Partial only w.r.t. concurrency: the theorem speaks about lock order; the raw sample is taken outside the lock.",
    "level_note": "Trusted: Lean kernel + {propext, Classical.choice, Quot.sound}; the translator; the correspondence harness; reminders/reminder_keys modelled as a total function; uniform tuple width and unique device names per snapshot are hypotheses (true of every platform layer's output).",
    "technique": "Lean 4 refinement proof by induction over histories (invariant of _WrapNumbers) + translator-fed proof obligation + differential correspondence with exhaustive short histories",
    "design_ref": "DESIGN.md §5 C10",
}
ASSUMPTIONS = [
    "all counter tuples of one function have the same width (9 for disks on Linux, 8 for NICs); device names are unique within a snapshot (a dict)",
]

# ------------------------------------------------------------------------------ translator


def _name_arg(fn, node):
    """The `name` argument of a _wrap_numbers call → (name of the per-device form, name of the system-wide
    form). Recognised: a string literal, or a variable assigned once in the function by
    `<var> = 'A' if perdisk else 'B'`."""
    if isinstance(node, ast.Constant) and isinstance(node.value, str):
        return node.value, node.value
    if isinstance(node, ast.Name):
        assigns = [st for st in ast.walk(fn) if isinstance(st, ast.Assign) and len(st.targets) == 1
                   and extract.dotted(st.targets[0]) == node.id]
        if len(assigns) == 1 and isinstance(assigns[0].value, ast.IfExp):
            ie = assigns[0].value
            t = extract.dotted(ie.test)
            if t in ("perdisk", "pernic"):
                return extract.const(ie.body), extract.const(ie.orelse)
            if isinstance(ie.test, ast.UnaryOp) and isinstance(ie.test.op, ast.Not) \
                    and extract.dotted(ie.test.operand) in ("perdisk", "pernic"):
                return extract.const(ie.orelse), extract.const(ie.body)
    raise NotRecognised("name argument of _wrap_numbers not recognised: %s" % extract.unparse(node))


def _front_end_facts(tree, fname):
    """→ (name of the system-wide form, empty snapshot fed to wrap_numbers?, name of the per-device form)"""
    fn = extract.find_def(tree, fname)
    wrap_name = None
    empty_feeds = None
    body = fn.body
    idx_empty = idx_wrap = None
    for i, st in enumerate(body):
        if isinstance(st, ast.If) and isinstance(st.test, ast.UnaryOp) and isinstance(st.test.op, ast.Not) \
                and extract.dotted(st.test.operand) == "rawdict" \
                and any(isinstance(x, ast.Return) for x in ast.walk(st)):
            if idx_empty is None:
                idx_empty = i
                inner = extract.calls_in(st, "_wrap_numbers")
                if inner:
                    # must be guarded by `nowrap` only
                    empty_feeds = True
        calls = extract.calls_in(st, "_wrap_numbers")
        if calls and idx_wrap is None and not (idx_empty == i):
            idx_wrap = i
        for c in calls:
            if len(c.args) >= 2:
                nm = _name_arg(fn, c.args[1])
                if wrap_name is None:
                    wrap_name = nm
                elif wrap_name != nm:
                    raise NotRecognised("%s passes two different names to _wrap_numbers" % fname)
    if idx_empty is None or idx_wrap is None or wrap_name is None:
        raise NotRecognised("shape of %s not recognised" % fname)
    if empty_feeds is None:
        empty_feeds = idx_wrap < idx_empty
    return wrap_name[1], empty_feeds, wrap_name[0]


def _clear_names(tree, fname):
    """Names cleared by `<fname>.cache_clear`: `functools.partial(_wrap_numbers.cache_clear, 'N')`, or a
    module-level function whose body is a sequence of `_wrap_numbers.cache_clear('N')` calls."""
    for st in tree.body:
        if isinstance(st, ast.Assign) and len(st.targets) == 1 \
                and extract.dotted(st.targets[0]) == fname + ".cache_clear":
            c = st.value
            if isinstance(c, ast.Call) and extract.dotted(c.func).endswith("partial") and len(c.args) == 2 \
                    and extract.dotted(c.args[0]).endswith("cache_clear"):
                return [extract.const(c.args[1])]
            if isinstance(c, ast.Name):
                fn = extract.find_def(tree, c.id)
                names = []
                for b in fn.body:
                    if isinstance(b, ast.Expr) and isinstance(b.value, ast.Constant):
                        continue  # docstring
                    if isinstance(b, ast.Expr) and isinstance(b.value, ast.Call) and len(b.value.args) == 1 \
                            and not b.value.keywords \
                            and extract.dotted(b.value.func) in ("_wrap_numbers.cache_clear",
                                                                 "_common.wrap_numbers.cache_clear"):
                        names.append(extract.const(b.value.args[0]))
                    else:
                        raise NotRecognised("statement in %s not recognised: %s" % (c.id, extract.unparse(b)))
                if names:
                    return names
    raise NotRecognised("%s.cache_clear assignment not recognised" % fname)


def _clear_name(tree, fname, own):
    names = _clear_names(tree, fname)
    return own if own in names else names[0]


def _linux_filter(init, pslinux):
    """Does the front end forward `perdisk` on Linux and does the Linux layer then skip every device that
    is not a whole disk?"""
    fn = extract.find_def(init, "disk_io_counters")
    forwards = False
    for st in fn.body:
        if isinstance(st, ast.Assign) and extract.dotted(st.targets[0]) == "kwargs" and isinstance(st.value, ast.IfExp) \
                and extract.dotted(st.value.test) == "LINUX" and isinstance(st.value.body, ast.Call) \
                and any(k.arg == "perdisk" and extract.dotted(k.value) == "perdisk" for k in st.value.body.keywords):
            forwards = True
    calls = extract.calls_in(fn, "disk_io_counters")
    plat = [c for c in calls if extract.dotted(c.func) == "_psplatform.disk_io_counters"]
    if len(plat) != 1:
        raise NotRecognised("call of _psplatform.disk_io_counters not found exactly once")
    passes = any(k.arg is None and extract.dotted(k.value) == "kwargs" for k in plat[0].keywords) and forwards
    explicit = [k for k in plat[0].keywords if k.arg == "perdisk"]
    if explicit:
        raise NotRecognised("perdisk passed in an unrecognised way")
    lfn = extract.find_def(pslinux, "disk_io_counters")
    skips = False
    for n in ast.walk(lfn):
        if isinstance(n, ast.If) and isinstance(n.test, ast.BoolOp) and isinstance(n.test.op, ast.And) \
                and len(n.test.values) == 2 and all(isinstance(v, ast.UnaryOp) and isinstance(v.op, ast.Not) for v in n.test.values):
            a, b = [extract.dotted(v.operand) for v in n.test.values]
            if {a, b} == {"perdisk", "is_storage_device()"} and any(isinstance(x, ast.Continue) for x in n.body):
                skips = True
    if "perdisk" not in [a.arg for a in lfn.args.args]:
        if passes:
            raise NotRecognised("front end passes perdisk but the Linux layer does not take it")
        return False
    return passes and skips


def _single_with_lock(fn, lock):
    """Is the body of `fn` (after the docstring) exactly one `with <lock>:` statement?"""
    body = [b for b in fn.body if not (isinstance(b, ast.Expr) and isinstance(b.value, ast.Constant))]
    return len(body) == 1 and isinstance(body[0], ast.With) and len(body[0].items) == 1 \
        and extract.dotted(body[0].items[0].context_expr) == lock


def _lock_facts(common):
    """(run only ever executes under _wn.lock, cache_clear/cache_info bodies are inside `with self.lock`)"""
    cls = extract.find_class(common, "_WrapNumbers")
    init = extract.find_def(common, "__init__", cls="_WrapNumbers")
    locks = [st for st in ast.walk(cls) if isinstance(st, ast.Assign)
             and any(extract.dotted(t) == "self.lock" for t in st.targets)]
    if len(locks) != 1 or locks[0] not in init.body or extract.dotted(locks[0].value) != "threading.Lock()":
        raise NotRecognised("self.lock is not a threading.Lock() created once in __init__")
    inst = [st for st in common.body if isinstance(st, ast.Assign) and extract.dotted(st.value) == "_WrapNumbers()"]
    if len(inst) != 1 or extract.dotted(inst[0].targets[0]) != "_wn":
        raise NotRecognised("the single instance _wn = _WrapNumbers() not found")
    wfn = extract.find_def(common, "wrap_numbers")
    run_calls = [c for c in ast.walk(common) if isinstance(c, ast.Call) and extract.dotted(c.func).endswith(".run")
                 and extract.dotted(c.func).split(".")[0] in ("_wn", "self", "wrap_numbers")]
    in_with = []
    if _single_with_lock(wfn, "_wn.lock"):
        w = [b for b in wfn.body if isinstance(b, ast.With)][0]
        in_with = [c for c in ast.walk(w) if isinstance(c, ast.Call) and extract.dotted(c.func) == "_wn.run"]
    locked_run = len(run_calls) == 1 and len(in_with) == 1 and run_calls[0] is in_with[0]
    # run() itself and its helpers must not be reachable from elsewhere in the class without the lock
    for helper in ("_add_dict", "_remove_dead_reminders"):
        users = [c for c in ast.walk(common) if isinstance(c, ast.Call) and extract.dotted(c.func).endswith("." + helper)]
        run_fn = extract.find_def(common, "run", cls="_WrapNumbers")
        inside = [c for c in ast.walk(run_fn) if isinstance(c, ast.Call) and extract.dotted(c.func).endswith("." + helper)]
        if len(users) != len(inside):
            locked_run = False
    locked_clear = all(_single_with_lock(extract.find_def(common, m, cls="_WrapNumbers"), "self.lock")
                       for m in ("cache_clear", "cache_info"))
    return locked_run, locked_clear


def _strict_less(tree):
    fn = extract.find_def(tree, "run", cls="_WrapNumbers")
    found = []
    for n in ast.walk(fn):
        if isinstance(n, ast.If) and isinstance(n.test, ast.Compare) and len(n.test.ops) == 1:
            l, r = extract.dotted(n.test.left), extract.dotted(n.test.comparators[0])
            if {l, r} == {"input_value", "old_value"}:
                op = n.test.ops[0]
                if isinstance(op, ast.Lt) and l == "input_value":
                    found.append(True)
                elif isinstance(op, ast.Gt) and l == "old_value":
                    found.append(True)
                elif isinstance(op, ast.LtE) and l == "input_value":
                    found.append(False)
                elif isinstance(op, ast.GtE) and l == "old_value":
                    found.append(False)
                else:
                    raise NotRecognised("wrap comparison is %s" % extract.unparse(n.test))
    if len(found) != 1:
        raise NotRecognised("wrap comparison not found exactly once")
    return found[0]


def facts(snap, F):
    init = extract.parse_module(snap, "__init__.py")
    common = extract.parse_module(snap, "_common.py")
    d = {}

    def fe(fname):
        if fname not in d:
            d[fname] = _front_end_facts(init, fname)
        return d[fname]

    def net_name():
        tot, _, per = fe("net_io_counters")
        if tot != per:
            raise NotRecognised("net_io_counters uses two names (the model has one slot for it)")
        return tot

    def locks():
        if "locks" not in d:
            d["locks"] = _lock_facts(common)
        return d["locks"]

    F.try_add("emptyFeedsWrap", "Bool",
              lambda: extract.lean_bool(fe("disk_io_counters")[1] and fe("net_io_counters")[1]),
              "does the front end hand an empty raw dict to wrap_numbers (true) or return before it (false)?")
    F.try_add("diskName", "String", lambda: extract.lean_str(fe("disk_io_counters")[0]),
              "the `name` literal disk_io_counters passes to wrap_numbers (system-wide form, perdisk=False)")
    F.try_add("netName", "String", lambda: extract.lean_str(net_name()),
              "the `name` literal net_io_counters passes to wrap_numbers")
    F.try_add("diskClearName", "String",
              lambda: extract.lean_str(_clear_name(init, "disk_io_counters", fe("disk_io_counters")[0])),
              "the `name` disk_io_counters.cache_clear clears")
    F.try_add("netClearName", "String", lambda: extract.lean_str(_clear_name(init, "net_io_counters", net_name())),
              "the `name` net_io_counters.cache_clear clears")
    F.try_add("wrapIsStrictLess", "Bool", lambda: extract.lean_bool(_strict_less(common)),
              "the comparison that detects a wrap is `input_value < old_value` (strict)")
    F.try_add("diskPerName", "String", lambda: extract.lean_str(fe("disk_io_counters")[2]),
              "the `name` disk_io_counters passes to wrap_numbers when perdisk=True")
    F.try_add("diskClearNames", "List String",
              lambda: extract.lean_list(_clear_names(init, "disk_io_counters"), extract.lean_str),
              "every `name` disk_io_counters.cache_clear clears")
    F.try_add("netClearNames", "List String",
              lambda: extract.lean_list(_clear_names(init, "net_io_counters"), extract.lean_str),
              "every `name` net_io_counters.cache_clear clears")
    F.try_add("linuxSkipsPartitions", "Bool",
              lambda: extract.lean_bool(_linux_filter(init, extract.parse_module(snap, "_pslinux.py"))),
              "disk_io_counters forwards perdisk on LINUX and _pslinux.disk_io_counters(perdisk=False) skips every device that is not is_storage_device()")
    F.try_add("runUnderLock", "Bool", lambda: extract.lean_bool(locks()[0]),
              "the only call of _WrapNumbers.run is `_wn.run(...)` inside `with _wn.lock:` in wrap_numbers (one instance, one threading.Lock)")
    F.try_add("clearUnderLock", "Bool", lambda: extract.lean_bool(locks()[1]),
              "the bodies of _WrapNumbers.cache_clear and cache_info are a single `with self.lock:` block")


# ------------------------------------------------------------------------------ implementation side


class Impl:
    """Drives the real front-end functions over scripted raw snapshots."""

    def __init__(self, ctx):
        self.ps = ctx.psutil
        self.plat = self.ps._psplatform
        self.next_raw = {"disk": {}, "net": {}}
        self.orig = (self.plat.disk_io_counters, self.plat.net_io_counters)
        self.plat.disk_io_counters = lambda **kw: dict(self.next_raw["disk"])
        self.plat.net_io_counters = lambda **kw: dict(self.next_raw["net"])
        self.width = {"disk": len(getattr(self.plat, "sdiskio", self.ps._common.sdiskio)._fields),
                      "net": len(self.ps._common.snetio._fields)}
        self.fn = {"disk": self.ps.disk_io_counters, "net": self.ps.net_io_counters}

    def close(self):
        self.plat.disk_io_counters, self.plat.net_io_counters = self.orig

    def reset(self):
        self.ps._common.wrap_numbers.cache_clear()

    def do(self, op):
        """Execute one op; return canonical outcome dict comparable with the driver's."""
        try:
            if op["op"] == "call":
                self.next_raw[op["name"]] = {k: tuple(v) for k, v in op["raw"]}
                kw = {"nowrap": op["nowrap"]}
                kw["perdisk" if op["name"] == "disk" else "pernic"] = not op.get("total", False)
                r = self.fn[op["name"]](**kw)
                if r is None or r == {}:
                    want_none = op.get("total", False)
                    if (r is None) != want_none:
                        return {"kind": "wrong-empty", "value": repr(r)}
                    return {"kind": "none"}
                if op.get("total", False):
                    return {"kind": "total", "fields": [int(x) for x in r]}
                return {"kind": "dict", "raw": [[k, [int(x) for x in v]] for k, v in r.items()]}
            if op["op"] == "clear":
                self.fn[op["name"]].cache_clear()
                return {"kind": "unit"}
            if op["op"] == "clearall":
                self.ps._common.wrap_numbers.cache_clear()
                return {"kind": "unit"}
            raise ValueError(op)
        except Exception as e:  # every exception is an observable, never a harness crash
            return {"kind": "exc", "exc": type(e).__name__}


def project(op, out):
    """What the model/spec promises for this op, in the shape Impl.do returns."""
    if op["op"] == "call" and op.get("total", False) and out.get("kind") == "dict":
        cols = list(zip(*[v for _, v in out["raw"]]))
        return {"kind": "total", "fields": [sum(c) for c in cols]}
    return out


def strip_op(op):
    return {k: v for k, v in op.items() if k != "total"}


def run_histories(ctx, impl, hists):
    """Return per history the list of (op, impl_out, model_out, spec_out)."""
    lines = []
    for h in hists:
        lines.append({"op": "reset"})
        lines.extend(strip_op(o) for o in h)
    drv = ctx.driver()
    outs = drv.batch(lines)
    res = []
    i = 0
    for h in hists:
        i += 1
        impl.reset()
        rows = []
        for o in h:
            m = outs[i]
            i += 1
            if "bad" in m:
                raise RuntimeError("driver rejected %r: %s" % (o, m))
            rows.append((o, impl.do(o), project(o, m["model"]), project(o, m["spec"])))
        res.append(rows)
    return res, len(lines)


# ------------------------------------------------------------------------------ generators

DEVS = {"disk": ["sda", "sda1", "nvme0n1", "dm-0", "loop7"], "net": ["lo", "eth0", "eth0:1", "wlan0", "docker0"]}


def gen_tuple(rng, width, style):
    if style == "small":
        return [rng.randrange(0, 4) for _ in range(width)]
    if style == "big":
        return [rng.choice([0, 1, 2**31 - 1, 2**32 - 1, 2**32, 2**63, 2**64 - 1, rng.randrange(2**64)]) for _ in range(width)]
    return [rng.randrange(0, 1000) for _ in range(width)]


def gen_history(rng, impl, family):
    n_ops = rng.randrange(2, 14) if family != "long" else rng.randrange(14, 40)
    style = rng.choice(["small", "small", "mid", "big"])
    ndev = rng.randrange(1, 5)
    h = []
    present = {nm: set(DEVS[nm][:ndev]) for nm in DEVS}

    def call(nm, nowrap=True, total=None, raw=None):
        if raw is None:
            devs = [d for d in DEVS[nm] if d in present[nm]]
            raw = [[d, gen_tuple(rng, impl.width[nm], style)] for d in devs]
        if total is None:
            total = rng.random() < 0.15
        h.append({"op": "call", "name": nm, "nowrap": nowrap, "raw": raw, "total": total})

    nm0 = rng.choice(["disk", "net"])
    if family == "two_wraps":
        for _ in range(n_ops):
            call(nm0)
    elif family == "reappear":
        call(nm0)
        for _ in range(n_ops):
            d = rng.choice(DEVS[nm0][:ndev])
            if d in present[nm0] and rng.random() < 0.5:
                present[nm0].discard(d)
            else:
                present[nm0].add(d)
            call(nm0)
    elif family == "all_vanish":
        call(nm0)
        for _ in range(n_ops):
            if rng.random() < 0.35:
                call(nm0, raw=[])
            else:
                call(nm0)
    elif family == "clear_between":
        for _ in range(n_ops):
            r = rng.random()
            if r < 0.2:
                h.append({"op": "clear", "name": rng.choice(["disk", "net"])})
            elif r < 0.23:
                h.append({"op": "clearall"})
            else:
                call(nm0 if rng.random() < 0.8 else rng.choice(["disk", "net"]))
    elif family == "alt_nowrap":
        for _ in range(n_ops):
            call(nm0, nowrap=rng.random() < 0.5)
    elif family == "interleaved":
        for _ in range(n_ops):
            call(rng.choice(["disk", "net"]), nowrap=rng.random() < 0.85)
    elif family == "new_device":
        present[nm0] = set(DEVS[nm0][:1])
        for i in range(n_ops):
            if rng.random() < 0.3:
                present[nm0].add(rng.choice(DEVS[nm0]))
            call(nm0)
    else:  # mixed / long
        for _ in range(n_ops):
            r = rng.random()
            nm = rng.choice(["disk", "net"])
            if r < 0.08:
                h.append({"op": "clear", "name": nm})
            elif r < 0.16:
                call(nm, raw=[])
            else:
                if rng.random() < 0.25:
                    d = rng.choice(DEVS[nm])
                    (present[nm].discard if d in present[nm] else present[nm].add)(d)
                call(nm, nowrap=rng.random() < 0.85)
    return h


FAMILIES = ["two_wraps", "reappear", "all_vanish", "clear_between", "alt_nowrap", "interleaved",
            "new_device", "mixed", "long"]


def history_features(h):
    """Which clauses of the property a history exercises (for the non-triviality rule)."""
    feats = set()
    last = {}
    seen_keys = {}
    for o in h:
        if o["op"] == "call":
            nm = o["name"]
            if not o["nowrap"]:
                feats.add("nowrap_false")
                continue
            cur = {k: v for k, v in o["raw"]}
            prev = last.get(nm)
            if prev is not None:
                for k, v in cur.items():
                    if k in prev and any(a < b for a, b in zip(v, prev[k])):
                        feats.add("wrap")
                    if k not in prev and k in seen_keys.get(nm, set()):
                        feats.add("reappear")
                if set(prev) - set(cur):
                    feats.add("vanish")
                if not cur:
                    feats.add("empty")
            seen_keys.setdefault(nm, set()).update(cur)
            last[nm] = cur
            if o.get("total"):
                feats.add("total")
        elif o["op"] in ("clear", "clearall"):
            feats.add("clear")
            if o["op"] == "clearall":
                last.clear()
                seen_keys.clear()
            else:
                last.pop(o["name"], None)
                seen_keys.pop(o["name"], None)
    if len({o.get("name") for o in h if o["op"] == "call"}) > 1:
        feats.add("two_functions")
    return feats


def exhaustive_histories(impl, maxlen):
    w = impl.width["disk"]

    def t(v):
        return [v] + [7] * (w - 1)
    alphabet = [{"op": "call", "name": "disk", "nowrap": True, "raw": [["sda", t(v)]], "total": False} for v in (0, 1, 2)]
    alphabet.append({"op": "call", "name": "disk", "nowrap": True, "raw": [], "total": False})
    alphabet.append({"op": "clear", "name": "disk"})
    alphabet += [{"op": "call", "name": "disk", "nowrap": False, "raw": [["sda", t(v)]], "total": False} for v in (0, 2)]
    for n in range(1, maxlen + 1):
        for combo in itertools.product(alphabet, repeat=n):
            yield list(combo)


# ------------------------------------------------------------------------------ correspondence


def compare(rows, res, source):
    """Record disagreements of one executed history; return True if any."""
    hist = [r[0] for r in rows]
    for i, (o, im, mo, sp) in enumerate(rows):
        if im != sp:
            res.disagree("spec", {"history": hist[:i + 1], "source": source}, im, mo, sp,
                         note="step %d: implementation differs from the history-defined specification" % i)
            return True
        if im != mo:
            res.disagree("model", {"history": hist[:i + 1], "source": source}, im, mo, sp,
                         note="step %d: implementation differs from the Lean model" % i)
            return True
    return False


def correspond(ctx, res):
    impl = Impl(ctx)
    try:
        res.rule = ("histories of front-end calls/cache_clears from 9 clause-directed families "
                    "(PRNG from VERIF_SEED) plus an exhaustive sweep of all short histories over "
                    "one device; non-trivial = the history contains a wrap, a vanish/reappear, an "
                    "empty snapshot or a cache_clear; distinct = distinct op sequences")
        hists, tags = [], []
        # corpus first: the lead L10 witness and a double wrap
        w = impl.width["disk"]
        corpus = [
            [{"op": "call", "name": "disk", "nowrap": True, "raw": [["sda", [100] * w]], "total": False},
             {"op": "call", "name": "disk", "nowrap": True, "raw": [], "total": False},
             {"op": "call", "name": "disk", "nowrap": True, "raw": [["sda", [5] * w]], "total": False}],
            [{"op": "call", "name": "disk", "nowrap": True, "raw": [["sda", [100] * w]], "total": False},
             {"op": "call", "name": "disk", "nowrap": True, "raw": [["sda", [10] * w]], "total": False},
             {"op": "call", "name": "disk", "nowrap": True, "raw": [["sda", [5] * w]], "total": True}],
        ]
        for h in corpus:
            hists.append(h)
            tags.append("corpus")
        n = ctx.n(600, 30000)
        for i in range(n):
            fam = FAMILIES[i % len(FAMILIES)]
            hists.append(gen_history(ctx.rng, impl, fam))
            tags.append(fam)
        maxlen = 3 if ctx.tier == "quick" else 5
        n_rand = len(hists)
        for h in exhaustive_histories(impl, maxlen):
            hists.append(h)
            tags.append("exhaustive")
        total_lines = 0
        CH = 4000
        for a in range(0, len(hists), CH):
            chunk = hists[a:a + CH]
            results, nl = run_histories(ctx, impl, chunk)
            total_lines += nl
            for j, rows in enumerate(results):
                tag = tags[a + j]
                h = chunk[j]
                feats = history_features(h)
                res.count("family:" + tag)
                for f in feats:
                    res.count("feature:" + f)
                res.count("ops", len(h))
                res.case(h, nontrivial=bool(feats & {"wrap", "vanish", "reappear", "empty", "clear"}),
                         sample={"family": tag, "history": h, "impl_last": rows[-1][1]} if (a + j) in (1, 2, 5, 9) else None)
                compare(rows, res, tag)
        res.exhaustive = "all %d histories of length <= %d over the alphabet {call(sda=0|1|2), call({}), clear, call(nowrap=False, 0|2)}; the random families are samples" % (len(hists) - n_rand, maxlen)
        res.extra["driver_lines"] = total_lines
        # two real threads: outputs must equal the model run in lock order
        conc = concurrent(ctx, impl, res, ctx.n(6, 200))
        res.extra["concurrent_runs"] = conc
    finally:
        impl.close()


def concurrent(ctx, impl, res, runs):
    """Two real threads call the front ends at once; `_wn.run` is wrapped to log the lock order.
    The outputs must be those of the model executed serially in that order."""
    wn = impl.ps._common._wn
    orig_run = wn.run
    done = 0
    for r in range(runs):
        impl.reset()
        order = []

        def logged(input_dict, name, _o=orig_run):
            order.append((threading.get_ident(), name, [[k, list(v)] for k, v in input_dict.items()]))
            return _o(input_dict, name)
        wn.run = logged
        outs = {}
        try:
            plans = {}
            for t in range(2):
                nm = "disk"
                plans[t] = [[["sda", gen_tuple(ctx.rng, impl.width[nm], "small")]] for _ in range(ctx.rng.randrange(3, 8))]
            # thread-local raw feeding: each thread passes its own snapshot through a thread-local
            tl = threading.local()
            impl.plat.disk_io_counters = lambda **kw: dict(tl.raw)
            barrier = threading.Barrier(2)

            def work(t):
                res_t = []
                barrier.wait()
                for raw in plans[t]:
                    tl.raw = {k: tuple(v) for k, v in raw}
                    try:
                        rr = impl.ps.disk_io_counters(perdisk=True, nowrap=True)
                        res_t.append([[k, [int(x) for x in v]] for k, v in rr.items()])
                    except Exception as e:
                        res_t.append({"exc": type(e).__name__})
                outs[threading.get_ident()] = res_t
            ths = [threading.Thread(target=work, args=(t,)) for t in range(2)]
            for th in ths:
                th.start()
            for th in ths:
                th.join()
        finally:
            wn.run = orig_run
            impl.plat.disk_io_counters = lambda **kw: dict(impl.next_raw["disk"])
        # model in lock order
        lines = [{"op": "reset"}] + [{"op": "call", "name": "disk", "nowrap": True, "raw": raw} for _, _, raw in order]
        mouts = ctx.driver().batch(lines)[1:]
        per_thread = {}
        for (tid, _, raw), m in zip(order, mouts):
            per_thread.setdefault(tid, []).append(m["spec"].get("raw"))
        hist = [{"thread": tid, "raw": raw} for tid, _, raw in order]
        for tid, got in outs.items():
            if got != per_thread.get(tid, []):
                res.disagree("spec", {"concurrent_lock_order": hist}, got, None, per_thread.get(tid, []),
                             note="two-thread run is not the serial execution in lock order")
        res.case(("conc", hist), nontrivial=len({t for t, _, _ in order}) > 1)
        res.count("family:concurrent")
        done += 1
    return done


def search(ctx, res, broken):
    correspond(ctx, res)


def _fails(ctx, impl, hist):
    results, _ = run_histories(ctx, impl, [hist])
    return any(im != sp for _, im, _, sp in results[0])


def shrink(ctx, d):
    hist = d["input"].get("history")
    if not hist:
        return d
    impl = Impl(ctx)
    try:
        small = ddmin(hist, lambda h: _fails(ctx, impl, h), max_tests=60)
        results, _ = run_histories(ctx, impl, [small])
        for i, (o, im, mo, sp) in enumerate(results[0]):
            if im != sp:
                return dict(d, input={"history": small[:i + 1], "source": "shrunk"}, impl=im, model=mo, spec=sp)
    finally:
        impl.close()
    return d


def replay(ctx, rp, res):
    hist = rp["input"].get("history")
    if not hist:
        return True
    impl = Impl(ctx)
    try:
        return _fails(ctx, impl, hist)
    finally:
        impl.close()
