"""C02 — seeded round 5: the read of /proc/<pid>/stat may fail TRANSIENTLY (EMFILE / ENFILE / ENOMEM / EIO / … at
open() or at read(): an OSError that is neither "no such file / process" nor "permission denied").

* translator facts (total extractors) about the path such an error takes from the read to the caller of
  is_running(): how `_pslinux.Process._parse_stat_file` obtains the file content, what `_common.cat` / `bcat` do
  without a fallback, which exception classes `wrap_exceptions` translates, and the `except` clauses of
  `Process.is_running` and of `Process._init` around `_get_ident()` — consumed by `Psutil.C02.statFault`
  (Model/C02Gen.lean, the configuration the driver runs) and by the obligation `cfg_stat_fault_propagates`;
* the generator families of the fault dimension: `x:fault` (structured scenarios + random walks), the corpus witness
  and the exhaustive sweep of short words — run by `c02_extra.Impl2`, which injects the errors into `open` as
  psutil._common sees it, against Model/C02Fault.lean (driver op `fault`).
"""
import ast

from harness.common import extract
from harness.props import c01, c02_extra

# ------------------------------------------------------------------------------ translator (total extractors)


def _flat(node):
    return " ".join(ast.unparse(node).split())


_SOURCES = ("bcat", "cat", "open_binary", "open_text", "open", "read")


def _dissects(st, names):
    """does this statement start PARSING a value held in one of `names` (the content read from the file): a method call
    on it (`data.rfind(…)`, `.find`, `.partition`, `.split` …), a subscript / slice of it, or handing it to a function
    (`_split_stat(data)`, `re.match(…, data)`)?  A truth test (`if not data:`), a comparison or a re-binding is not."""
    for n in ast.walk(st):
        if isinstance(n, ast.Call):
            if isinstance(n.func, ast.Attribute) and isinstance(n.func.value, ast.Name) and n.func.value.id in names:
                return True
            if any(isinstance(a, ast.Name) and a.id in names for a in list(n.args) + [k.value for k in n.keywords]) \
                    and extract.dotted(n.func).split(".")[-1] not in ("len", "bool", "isinstance"):
                return True
        if isinstance(n, ast.Subscript) and isinstance(n.value, ast.Name) and n.value.id in names:
            return True
    return False


def _fn_shape(fn, until=None):
    """'def(args) @decorators' + the statements of `fn` (docstring dropped), each on one line; with `until="parse"`: only
    the statements that OBTAIN the data — everything before the first statement that starts dissecting a value read
    from a file (a name bound from bcat/cat/open/read at top level, try bodies included); written for the data flow,
    not the spelling: which method / helper does the dissecting does not matter"""
    out = ["def(%s)%s" % (ast.unparse(fn.args), "".join(" @" + ast.unparse(d) for d in fn.decorator_list))]
    names = set()
    for st in fn.body:
        if isinstance(st, ast.Expr) and isinstance(st.value, ast.Constant) and isinstance(st.value.value, str):
            continue
        if until == "parse" and names and _dissects(st, names):
            break
        out.append(_flat(st))
        for n in ast.walk(st):
            if isinstance(n, ast.Assign) and any(isinstance(c, ast.Call) and extract.dotted(c.func).split(".")[-1] in _SOURCES
                                                 for c in ast.walk(n.value)):
                for t in n.targets:
                    names.update(x.id for x in ast.walk(t) if isinstance(x, ast.Name))
            if isinstance(n, ast.withitem) and isinstance(n.optional_vars, ast.Name):
                names.add(n.optional_vars.id)
    return out


def _find(tree, name, cls=None):
    body = tree.body
    if cls is not None:
        cl = [n for n in tree.body if isinstance(n, ast.ClassDef) and n.name == cls]
        if len(cl) != 1:
            return None
        body = cl[0].body
    fns = [n for n in body if isinstance(n, (ast.FunctionDef, ast.AsyncFunctionDef)) and n.name == name]
    return fns[0] if len(fns) == 1 else None


def _shape_of(tree, name, cls=None, until=None):
    fn = _find(tree, name, cls)
    if fn is None:
        return ["absent or ambiguous: %s%s" % ((cls + ".") if cls else "", name)]
    return _fn_shape(fn, until)


def _handlers(fn, mentions=None):
    """the `except` clauses of the `try` statements of `fn` (nested functions included) — of those whose body mentions
    `mentions`, if given — as 'Class: statements'; a bare `except:` is written 'BaseException'"""
    if fn is None:
        return ["absent or ambiguous"]
    out = []
    for t in ast.walk(fn):
        if isinstance(t, ast.Try):
            if mentions is not None and not any(mentions in _flat(s) for s in t.body):
                continue
            for h in t.handlers:
                cls = _flat(h.type) if h.type is not None else "BaseException"
                out.append("%s: %s" % (cls, "; ".join(_flat(s) for s in h.body)))
            if t.finalbody:
                out.append("finally: " + "; ".join(_flat(s) for s in t.finalbody))
    return out


def facts(snap, F):
    plat = extract.parse_module(snap, "_pslinux.py")
    init = extract.parse_module(snap, "__init__.py")
    common = extract.parse_module(snap, "_common.py")
    sl = lambda xs: extract.lean_list(xs, extract.lean_str)
    F.try_add("statReadShape", "List String", lambda: sl(_shape_of(plat, "_parse_stat_file", "Process", until="parse")),
              "_pslinux.Process._parse_stat_file: signature, decorators and the statements that obtain the content of /proc/pid/stat (everything before the parse starts)")
    F.try_add("catShape", "List String", lambda: sl(_shape_of(common, "cat") + _shape_of(common, "bcat")),
              "_common.cat and _common.bcat: signature + statements (without `fallback` the open/read is not guarded)")
    F.try_add("wrapHandlers", "List String", lambda: sl(_handlers(_find(plat, "wrap_exceptions"))),
              "_pslinux.wrap_exceptions: the except clauses around the wrapped call (class: statements)")
    F.try_add("isRunningHandlers", "List String", lambda: sl(_handlers(_find(init, "is_running", "Process"))),
              "Process.is_running: the except clauses around `self != Process(self.pid)`")
    F.try_add("initHandlers", "List String", lambda: sl(_handlers(_find(init, "_init", "Process"), mentions="_get_ident")),
              "Process._init: the except clauses around `self._ident = self._get_ident()`")


# ------------------------------------------------------------------------------ generators of the fault dimension

class FaultPlan(c01.Plan):
    """c01.Plan + the set of faulty PIDs; the twin (never an oracle) follows Model/C02Fault.lean for the configuration in
    which the error reaches the caller: a call that opens a faulty stat file stores nothing, a sweep stops at the
    first faulty PID it would open"""

    def __init__(self, rng, btime, clk):
        super().__init__(rng, btime, clk)
        self.F = set()

    def ev(self, **op):
        k = op["op"]
        if k == "fault":
            self.ops.append(op)
            (self.F.add if op["on"] else self.F.discard)(op["pid"])
            return self
        if k in c01.KERNEL_OPS or not self.F:
            return super().ev(**op)
        self.ops.append(op)
        sp = self.sp
        if k == "new":
            if op["pid"] not in self.F:
                sp.apply(self.k, op)
        elif k == "process_iter":
            for pid in [q for q in sp.pmap if q not in self.k.procs]:
                del sp.pmap[pid]
            evicted = set()
            for pid in sp.flagged:
                if pid in sp.pmap:
                    del sp.pmap[pid]
                    evicted.add(pid)
            sp.flagged = set()
            for pid in sorted(self.k.procs):
                if pid not in sp.pmap and pid not in evicted:
                    if pid in self.F:
                        break
                    if sp._new(self.k, pid):
                        sp.pmap[pid] = len(sp.objs) - 1
        elif "i" in op and op["i"] < len(sp.objs) and sp.objs[op["i"]][0] in self.F:
            pass                                     # the guard / is_running() leaves with the OS error
        else:
            sp.apply(self.k, op)
        self.nobj = len(sp.objs)
        self.obj_pid = [o[0] for o in sp.objs]
        return self

    def fault(self, pid, on=True):
        rng = self.rng
        if on:
            return self.ev(op="fault", pid=pid, on=True, e=rng.choice(c02_extra.FAULT_ERRNOS),
                           at=rng.choice(["open", "open", "read"]))
        return self.ev(op="fault", pid=pid, on=False)

    def ask_all(self):
        for i in range(self.nobj):
            self.ev(op="is_running", i=i)

    def some_call(self, i):
        r = self.rng.random()
        if r < 0.45:
            self.ev(op="is_running", i=i)
        elif r < 0.6:
            self.effect_call(i)
        elif r < 0.9:
            self.query(i)
        else:
            self.ev(op="other", i=i, what=self.rng.choice(["children", "name", "as_dict", "as_dict_ct", "wait", "str"]))


def fault_history(rng, clk, n):
    """structured scenarios (n mod 8 = 0..5) and random walks (6, 7) over the fault dimension"""
    P = FaultPlan(rng, c01.rand_btime(rng), clk)
    kind = n % 8
    p = rng.choice(c01.PIDS)
    others = [q for q in c01.PIDS if q != p]
    if kind <= 5:
        if rng.random() < 0.5:
            P.ev(op="spawn", pid=others[0])
        P.ev(op="spawn", pid=p)
        P.tick()
        if rng.random() < 0.75:
            P.ev(op="new", pid=p)
        else:
            P.ev(op="process_iter")
        if rng.random() < 0.3:
            P.ev(op="new", pid=p)
    if kind == 0:
        # the handle of a LIVE process is asked while its stat file cannot be read, then again once it can
        P.fault(p)
        for _ in range(rng.randrange(1, 4)):
            P.some_call(P.any_obj())
        P.fault(p, False)
        P.ask_all()
        P.ev(op="new", pid=p)
        P.ev(op="is_running", i=P.nobj - 1).ev(op="eq", i=0, j=P.nobj - 1)
    elif kind == 1:
        # the PID is recycled while reads fail: the answer may be withheld, never wrong, and is False afterwards
        P.fault(p)
        if rng.random() < 0.5:
            P.ev(op="is_running", i=0)
        P.ev(op="reap", pid=p)
        P.tick()
        if rng.random() < 0.7:
            P.ev(op="spawn", pid=p)
        P.ev(op="is_running", i=0)
        if rng.random() < 0.5:
            P.effect_call(0)
        P.fault(p, False)
        P.ask_all()
        if p in P.k.procs:
            P.ev(op="new", pid=p)
            P.ev(op="eq", i=0, j=P.nobj - 1).ev(op="is_running", i=P.nobj - 1)
        P.ask_all()
    elif kind == 2:
        # reads of ANOTHER pid fail: nothing about this object may change
        q = others[0]
        P.fault(q)
        P.ask_all()
        P.effect_call(0)
        if rng.random() < 0.5:
            P.ev(op="reap", pid=p).ev(op="is_running", i=0)
        P.fault(q, False)
        P.ask_all()
    elif kind == 3:
        # the process is gone and the PID free / reused when the read fails; sticky afterwards
        P.ev(op="reap", pid=p)
        if rng.random() < 0.5:
            P.ev(op="spawn", pid=p)
        P.fault(p)
        P.ev(op="is_running", i=0)
        P.ev(op="new", pid=p)
        P.fault(p, False)
        P.ev(op="is_running", i=0)
        P.fault(p)
        P.ev(op="is_running", i=0)          # a sticky flag answers without reading
        P.fault(p, False)
        P.ask_all()
    elif kind == 4:
        # a sweep is cut short by a failing read; the next one completes; every handle is asked
        for q in others:
            if rng.random() < 0.8:
                P.ev(op="spawn", pid=q)
        if rng.random() < 0.5:
            P.ev(op="process_iter")
        victim = rng.choice(sorted(P.k.procs))
        if rng.random() < 0.5 and victim in P.k.procs:
            P.ev(op="reap", pid=victim).ev(op="spawn", pid=victim)
            if P.nobj and rng.random() < 0.5:
                P.ev(op="is_running", i=P.any_obj())
        P.fault(victim)
        P.ev(op="process_iter")
        if rng.random() < 0.4:
            P.ev(op="process_iter")
        P.ask_all()
        P.fault(victim, False)
        P.ev(op="process_iter")
        P.ask_all()
        if P.nobj >= 2:
            P.ev(op="eq", i=0, j=P.nobj - 1)
    elif kind == 5:
        # faults come and go around a zombie / a clock step / boot_time()
        P.ev(op="exit", pid=p)
        P.fault(p)
        P.ev(op="is_running", i=0)
        if rng.random() < 0.5:
            P.ev(op="setbtime", b=c01.step_btime(rng, P.k.btime))
            P.ev(op="boot_time")
        P.ev(op="new", pid=p)
        P.fault(p, False)
        P.ev(op="new", pid=p)
        P.ask_all()
        P.ev(op="eq", i=0, j=P.nobj - 1)
        P.ev(op="reap", pid=p)
        P.ask_all()
    else:
        # random walk: kernel events, faults on any PID at any time (several at once), every kind of call
        for _ in range(rng.randrange(6, 16)):
            r = rng.random()
            q = rng.choice(c01.PIDS)
            if r < 0.14:
                P.ev(op="spawn", pid=q)
            elif r < 0.2:
                P.ev(op="reap", pid=q)
            elif r < 0.23:
                P.ev(op="exit", pid=q)
            elif r < 0.27:
                P.tick()
            elif r < 0.30:
                P.ev(op="setbtime", b=c01.step_btime(rng, P.k.btime))
            elif r < 0.42:
                P.fault(q, True)
            elif r < 0.52:
                P.fault(q, False)
            elif r < 0.64:
                P.ev(op="new", pid=q)
            elif r < 0.70 and P.k.procs:
                P.ev(op="process_iter")
            elif P.nobj:
                P.some_call(P.any_obj())
        if kind == 7:
            for q in sorted(P.F):
                P.fault(q, False)
        P.ask_all()
    return P.hist("x:fault", hyp=True)


def corpus(clk):
    """the scenario of seeded C02-5 and its neighbours, fixed"""
    w = {"btime": 1000, "family": "x:fault:corpus", "hyp": True, "ops": [
        {"op": "spawn", "pid": 8}, {"op": "new", "pid": 8}, {"op": "new", "pid": 8}, {"op": "is_running", "i": 0},
        {"op": "fault", "pid": 8, "on": True, "e": "EMFILE", "at": "open"}, {"op": "is_running", "i": 0},
        {"op": "new", "pid": 8}, {"op": "signal", "i": 1, "m": "terminate", "sig": 0}, {"op": "status", "i": 0},
        {"op": "process_iter"}, {"op": "fault", "pid": 8, "on": False}, {"op": "is_running", "i": 0},
        {"op": "is_running", "i": 1}, {"op": "new", "pid": 8}, {"op": "eq", "i": 0, "j": 2}, {"op": "is_running", "i": 2},
        {"op": "fault", "pid": 8, "on": True, "e": "EIO", "at": "read"}, {"op": "is_running", "i": 0},
        {"op": "create_time", "i": 0}, {"op": "ppid", "i": 0}, {"op": "hash", "i": 0}, {"op": "eq", "i": 0, "j": 1},
        {"op": "reap", "pid": 8}, {"op": "is_running", "i": 0}, {"op": "fault", "pid": 8, "on": False},
        {"op": "is_running", "i": 0}, {"op": "fault", "pid": 8, "on": True, "e": "ENOMEM", "at": "open"},
        {"op": "is_running", "i": 0}, {"op": "is_running", "i": 1}]}
    sweep = {"btime": 1000, "family": "x:fault:corpus", "hyp": True, "ops": [
        {"op": "spawn", "pid": 5}, {"op": "spawn", "pid": 7}, {"op": "spawn", "pid": 9}, {"op": "new", "pid": 9},
        {"op": "fault", "pid": 7, "on": True, "e": "ENFILE", "at": "open"}, {"op": "process_iter"},
        {"op": "is_running", "i": 1}, {"op": "fault", "pid": 7, "on": False}, {"op": "process_iter"},
        {"op": "is_running", "i": 0}, {"op": "is_running", "i": 1}, {"op": "is_running", "i": 2}, {"op": "is_running", "i": 3},
        {"op": "eq", "i": 0, "j": 3}]}
    return [w, sweep]


def exhaustive_fault(maxlen, btime=1000):
    """all well-indexed words w, 1 <= |w| <= maxlen, containing a `fault on`, after spawn 5 · Process(5)"""
    import itertools
    alphabet = [{"op": "fault", "pid": 5, "on": True, "e": "EMFILE", "at": "open"}, {"op": "fault", "pid": 5, "on": False},
                {"op": "is_running", "i": 0}, {"op": "new", "pid": 5}, {"op": "reap", "pid": 5}, {"op": "spawn", "pid": 5},
                {"op": "process_iter"}, {"op": "is_running", "i": 1}]
    out = []
    for n in range(1, maxlen + 1):
        for w in itertools.product(range(len(alphabet)), repeat=n):
            if 0 not in w:
                continue
            P = FaultPlan(None, btime, 100)
            P.ev(op="spawn", pid=5).ev(op="new", pid=5)
            ok = True
            for x in w:
                op = dict(alphabet[x])
                if op["op"] == "is_running" and op["i"] >= P.nobj:
                    ok = False
                    break
                if op["op"] == "process_iter" and not P.k.procs:
                    ok = False               # an empty process table is never generated (pids() → IndexError)
                    break
                P.ev(**op)
            if ok:
                out.append(P.hist("exhaustive:fault"))
    return out


def features(h, result):
    f = set()
    on = set()
    for (o, im, ie, mo, me, sp, _aux) in result["rows"]:
        k = o["op"]
        if k == "fault":
            (on.add if o["on"] else on.discard)(o["pid"])
            if o["on"]:
                f.add("fault:" + o.get("e", "EMFILE") + "@" + o.get("at", "open"))
            continue
        if k in c01.KERNEL_OPS:
            continue
        osr = im.get("kind") == "exc" and im.get("exc") == "OSError"
        if osr:
            f.add("fault:oserror:" + k)
        if k == "is_running" and "bool" in sp:
            if sp.get("may_raise"):
                f.add("fault:is_running_withheld" if osr else "fault:is_running_answered_by_sticky_flag_while_faulty")
                if osr:
                    f.add("fault:withheld_while_listed" if sp["bool"] else "fault:withheld_after_incarnation_gone")
            elif on:
                f.add("fault:is_running_of_unaffected_pid_while_other_pid_faulty")
            elif any(x[0]["op"] == "fault" for x in result["rows"]):
                f.add("fault:is_running_true_after_fault_cleared" if sp["bool"] else "fault:is_running_false_after_fault_cleared")
        if k == "process_iter" and osr:
            f.add("fault:sweep_cut_short")
    return f


NONTRIVIAL = {"fault:is_running_withheld", "fault:sweep_cut_short", "fault:is_running_true_after_fault_cleared",
              "fault:is_running_false_after_fault_cleared"}


def correspond_fault(ctx, res, driver_file, n_quick, n_thorough):
    impl = c02_extra.Impl2(ctx)
    try:
        hists = corpus(impl.clk)
        for n in range(ctx.n(n_quick, n_thorough)):
            hists.append(fault_history(ctx.rng, impl.clk, n))
        n_rand = len(hists)
        maxlen = 4 if ctx.tier == "quick" else 5
        hists.extend(exhaustive_fault(maxlen))
        CH = 3000
        for a in range(0, len(hists), CH):
            chunk = hists[a:a + CH]
            results, nl = c01.run_histories(ctx, impl, chunk, driver_file)
            res.extra["driver_lines"] = res.extra.get("driver_lines", 0) + nl
            for h, r in zip(chunk, results):
                fam = h["family"]
                res.count("family:" + fam.split(":corpus")[0])
                feats = features(h, r)
                for f in feats:
                    res.count("feature:" + f)
                res.case((h["btime"], h["ops"]), nontrivial=bool(feats & NONTRIVIAL))
                pr = c02_extra.problem(h, r)
                if pr:
                    kind, nstep, im, mo, sp, why = pr
                    ops = h["ops"] if nstep is None else h["ops"][:nstep + 1]
                    inp = {"btime": h["btime"], "ops": ops, "family": fam, "hyp": h.get("hyp", True)}
                    res.disagree(kind, inp, im, mo, sp, note="step %s: %s" % (nstep, why))
        res.extra["exhaustive_fault"] = ("all %d well-indexed words w, 1 <= |w| <= %d, over {reads of /proc/5/stat fail, work again, "
                                         "is_running(0), Process(5), reap, spawn, process_iter(), is_running(1)} containing a failing "
                                         "phase, after spawn 5 · Process(5)" % (len(hists) - n_rand, maxlen))
    finally:
        impl.close()
