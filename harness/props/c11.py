"""C11 — net_connections(): every socket once, right kind, right addresses, right owner.

Model: lean/PsutilModel/Model/C11.lean (+C11Gen), Spec: Spec/C11.lean, theorems: Props/C11.lean.

Correspondence: random socket tables + descriptor tables ("worlds") are rendered to a fake procfs
(net/tcp, tcp6, udp, udp6, unix + /proc/<pid>/fd/<n> symlinks `socket:[inode]` + /proc/<pid>/stat)
by an independent printf-style Python renderer; the Lean driver renders the same world with the
kernel-side renderers of Spec/C11.lean (byte equality of the two renderings is required), runs the
model on it and prints what the specification promises. The real `psutil.net_connections(kind)` /
`psutil.Process(pid).net_connections(kind)` run over the fake procfs; returned text addresses are
canonicalised back to packed bytes with socket.inet_pton. A second stream feeds malformed files
(no specification: implementation vs model only).
"""
import ast
import contextlib
import errno as _errno
import json
import os
import re
import socket
import struct
import subprocess
import sys
import warnings

from harness.common import extract
from harness.common.build import PY, InfraError
from harness.common.extract import NotRecognised
from harness.common.fakeproc import FakeProc, reset_psutil_state

PROP = "C11"
DRIVER_MODULES = ["PsutilModel.Model.C11Gen", "PsutilModel.Spec.C11"]
NEEDS_EXT = True
TRUSTED = [
    "C11: socket.inet_ntop's text formatting (libc) — the model stops at the 4/16 packed bytes handed to it; the harness maps the returned text back with socket.inet_pton and requires the text to be exactly libc's inet_ntop spelling of those bytes (a different spelling of the same address, e.g. '::ffff:7f00:1', is a row that was not promised)",
    "C11: kernel-side renderers of /proc/net/{tcp,tcp6,udp,udp6,unix} and of the socket:[ino] links in Spec/C11.lean (transcribed from get_tcp4_sock/get_tcp6_sock/udp4_format_sock/unix_seq_show); validated on every run against an independent printf-style Python renderer (byte equality on every generated world)",
    "C11: text-mode reading is modelled as identity on bytes (PYTHONUTF8=1 + surrogateescape, newline='\\n'); str.split() = ASCII-whitespace split; int(s,16)/int(s) on plain digit strings; listing order of /proc and /proc/<pid>/fd is an input of the model",
    "C11: a big-endian host is emulated by _pslinux.LITTLE_ENDIAN = False over files rendered with the address words in network order (the kernel-side convention itself is checked against the running little-endian kernel only: live_socket_check)",
    "C11: OSError(errno) raised by the injected os.readlink/os.listdir is what the kernel call would raise for that errno (Python's errno -> exception-class mapping is exercised for real); a Python without IPv6 is emulated by socket.inet_ntop raising ValueError for AF_INET6 and socket.has_ipv6 = False",
]
MANIFEST = {
    "level_text": "Machine-checked Lean 4 proofs over a transcription of _pslinux.NetConnections (decode_address, process_inet, process_unix, get_proc_inodes, get_all_inodes, retrieve), wrap_exceptions around Process.net_connections and the front-end kind check: address round-trip for EVERY IPv4/IPv6 address and port on both endiannesses against the kernel's %08X-per-host-order-word rendering (C11_addr_roundtrip_v4/v6, C11_port_zero_empty), the 11-state status map and both kind tables by `decide` over the translator-generated tables (C11_status_map, C11_kind_table, C11_kind_files), unknown kind -> ValueError, exact parsing of every rendered tcp/udp/unix line incl. UNIX names with blanks and carriage returns (C11_inet_line, C11_unix_line, C11_unix_name_with_cr), owner lookup for every descriptor table (C11_owner), the resulting rows/per-process statements (C11_rows_exact, C11_per_process_only_own) and their NUMBER incl. any number of sockets sharing inode 0 (C11_rows_count, C11_rows_count_inode0); with every errno outcome of os.listdir/os.readlink explicit: a descriptor or process that cannot be inspected (ENOENT, ESRCH, EINVAL, ENAMETOOLONG, EACCES, EPERM) contributes no holder and never fails the system-wide call (C11_scan_never_fails, C11_scan_no_holder, C11_scan_process, C11_scan_process_error), other errnos propagate (proved: C11_scan_fatal_errno_propagates); on a Python that cannot format IPv6 addresses the rows needing an IPv6 text are left out and IPv4/UNIX rows are unaffected (C11_noipv6_rows, C11_noipv6_left_out, C11_noipv6_v4_unix_unaffected); the same for the per-process form (C11_noipv6_rows_process); WHICH rows are returned, exactly (C11_rows_which: one row per holder for UNIX, the FIRST holder in listing order for TCP/UDP — C11_inet_first_holder, a characterisation: the statement allows any holder), and from it the relation between the two forms (C11_system_rows_in_process for every world; C11_process_rows_in_system / C11_sys_proc_consistent when no TCP/UDP socket of the process is held by an earlier-listed one; the unrestricted equality is refuted on a forked listener, C11_sys_proc_shared_inet_counterexample); proved counterexamples for the two pre-fix behaviours (UNIX path with a blank, UNIX socket shared by two processes) and for narrowed `except` clauses (C11_scan_esrch_counterexample, C11_scan_eperm_counterexample). Tied to the code by translator facts (both kind tables, TCP_STATUSES, family/type constants, endianness, tuple-unpack indices, the path expression, the inode-merge statement, the exception classes / errno names of the `except` clauses of get_proc_inodes and get_all_inodes, the shape of the _Ipv6UnsupportedError try/except in decode_address and process_inet) feeding cfg_good, and by a differential run of the real front-end functions over a fake procfs with per-path fault injection into os.readlink/os.listdir, a patched socket.inet_ntop/has_ipv6, and every query made in several call modes (plain, oneshot fresh/warm, as_dict, process_iter object, second call, deprecated alias; system-wide while oneshot blocks are open); the system-wide and the per-process answers of the real code for one kind are also compared with each other (family consist). Round 3 (audit-driven): BOTH endianness branches of decode_address are translator facts (ntopCalls -> cfg_good.v4RevLE/v4RevBE/v6SwapLE/v6SwapBE) and are both executed by the differential run (family addresses_be + an exhaustive sweep with _pslinux.LITTLE_ENDIAN patched to False over files rendered as a big-endian kernel prints them, driver littleEndian := false); the statement lists of every transcribed function (decode_address, get_proc_inodes, get_all_inodes, process_inet, process_unix, retrieve, the readlink wrapper, _check_conn_kind and its call sites incl. the default kind='inet') are facts compared in cfg_shapes_good; psutil's two documented decode_address vectors are theorems about the literal text (C11_docstring_vectors, + big-endian) and the renderer is compared with the running kernel's line for sockets the harness binds itself (and the real code over the real /proc with getsockname()); 'once per socket' is proved for distinguishable sockets only and REFUTED in general (C11_rows_count_twins / C11_rows_count_Full_false: two ownerless unbound UNIX sockets give one row — rows are value tuples collected in a set); the driver's acceptance test and its well-formedness gate are proved to be the specification's (C11_accepts_iff, C11_wf_iff), unknown kind -> ValueError also for the errno-explicit functions (C11_unknown_kind_ValueError_E), IPv6-less Python x failing descriptors (C11_noipv6_scan). Seeded round 5: the ONE dict `inodes` that retrieve hands to every process_inet / process_unix call of a query is threaded through every line of every table in the model the driver runs (netConnectionsES), with the access (membership-guarded subscript / bare subscript / get / setdefault) and the kind of dict ({} / defaultdict(list)) as translator facts (cfg_lookup_good); C11_shared_map_frame: for the code as it is no lookup ever changes the dict, on every file system; C11_shared_map / C11_shared_inode_no_holder / C11_all_is_union: the promised rows when tables share inode numbers (inode 0 on TIME_WAIT lines of net/tcp and on not yet accepted connections of net/unix), 'all' = 'inet' | 'unix' exactly; refuted for an inserting lookup (C11_shared_map_counterexample, C11_shared_map_setdefault_counterexample); generator family crossinode + exhaustive class-pair sweep + the real code's 'all' compared with its 'inet' | 'unix'. CHARACTERISATIONS, not promises derived from the statement (which is silent there): which errnos count as 'cannot be inspected', that one denied readlink hides the whole process (viewProc), that an IPv6 socket with both ports 0 is still reported on an IPv6-less Python (needsV6Text) — C11_scan_*, C11_noipv6_* describe what the code does under a reading fitted to it; likewise C11_rows_which / C11_inet_first_holder.",
    "level_note": "Trusted: Lean kernel + {propext, Classical.choice, Quot.sound}; translator; correspondence harness (incl. the fault-injection shims); inet_ntop text formatting (libc); kernel renderers (validated against an independent printf renderer each run); text decoding modelled as identity on bytes; '\\n' inside UNIX names outside the domain; zombie / vanished-process handling of wrap_exceptions (C03) fixed to 'stat present, not a zombie'.",
    "technique": "Lean 4 round-trip proofs (render -> parse) by structural induction + simulation of the errno-explicit model by the error-free core + `decide` over generated tables + translator-fed proof obligations (semantic facts in cfg_good, whole-function statement lists in cfg_shapes_good) + differential correspondence over a fake procfs with fault injection, both endiannesses, call modes (incl. the documented default kind) and an exhaustive kind x (family,type) x mode sweep + live-kernel check of the renderer",
    "design_ref": "DESIGN.md §5 C11",
}
ASSUMPTIONS = [
    "UNIX socket names contain no '\\n' (the kernel cannot show one unambiguously); procfs text is read byte-transparently (PYTHONUTF8=1)",
    "a TCP/UDP socket held through several descriptors is reported once with one of its holders (the statement asks one row per holder only for UNIX sockets)",
    "a readlink denied with EACCES/EPERM concerns the whole process (the kernel checks ptrace access to the task): such a process counts as not inspectable, like one whose fd directory cannot be listed",
    "errnos other than ENOENT/ESRCH/EINVAL/ENAMETOOLONG/EACCES/EPERM (readlink) and ENOENT/ESRCH/EACCES/EPERM (listdir) are genuine I/O failures: the promise is silent, the model says they propagate (implementation vs model)",
    "rows are compared as VALUES: two sockets whose rows are equal in every field (same class, addresses, state/name, and holder or both without visible holder — e.g. the unbound UNIX sockets of other users) appear as ONE row; 'every socket once' is proved under Distinct only (C11_rows_count) and refuted without it (C11_rows_count_Full_false)",
    "the readlink/listdir errno classes, the whole-process effect of a denied readlink and the port-0 rule on an IPv6-less Python are characterisations of the code (the statement says nothing about them); outside World.WF (TCP state not 1..11, UNIX type > 9, a link text starting with 'socket:[' that is not a socket) the driver answers 'unspecified' and only implementation vs model is compared",
    "_pslinux.readlink's NUL / ' (deleted)' stripping is pinned by its statement list (cfg_shapes_good) but not modelled: it is the identity on the 'socket:[N]' texts the kernel produces",
]

_REAL_NTOP = socket.inet_ntop          # captured before any injection
NET_NAMES = ["tcp", "tcp6", "udp", "udp6", "unix"]
KINDS = ["inet", "inet4", "inet6", "tcp", "tcp4", "tcp6", "udp", "udp4", "udp6", "unix", "all"]

# ------------------------------------------------------------------------------ translator

_DUMP = r"""
import sys, json, socket
sys.path.insert(0, sys.argv[1])
out = {}
def put(key, fn):
    # every fact on its own: one that cannot be computed any more does not take the others with it
    try:
        out[key] = {"v": fn()}
    except BaseException as e:
        out[key] = {"err": "%s: %s" % (type(e).__name__, e)}
try:
    import psutil
    from psutil import _pslinux as L, _common as C
except BaseException as e:
    print(json.dumps({"__import__": {"err": "%s: %s" % (type(e).__name__, e)}}))
    raise SystemExit(0)
def i(x):
    return None if x is None else int(x)
put("littleEndian", lambda: bool(L.LITTLE_ENDIAN))
put("afInet", lambda: int(socket.AF_INET))
put("afInet6", lambda: int(socket.AF_INET6))
put("afUnix", lambda: int(socket.AF_UNIX))
put("sockStream", lambda: int(socket.SOCK_STREAM))
put("tcpStatuses", lambda: [[str(k), str(v)] for k, v in L.TCP_STATUSES.items()])
put("connNone", lambda: str(C.CONN_NONE))
put("tmap", lambda: [[str(k), [[str(f), i(a), i(t)] for f, a, t in v]] for k, v in L.NetConnections().tmap.items()])
put("connTmap", lambda: [[str(k), [i(a) for a in v[0]], [i(t) for t in v[1]]] for k, v in C.conn_tmap.items()])
print(json.dumps(out))
"""


def _runtime_dump(snap):
    env = dict(os.environ)
    env.pop("PYTHONPATH", None)
    r = subprocess.run([PY, "-X", "utf8", "-c", _DUMP, snap.dir], stdout=subprocess.PIPE,
                       stderr=subprocess.PIPE, text=True, timeout=120, env=env)
    if r.returncode != 0:
        raise NotRecognised("runtime dump failed: " + r.stderr[-400:])
    return json.loads(r.stdout.strip().split("\n")[-1])


# ---- AST extractors. Every one of them is TOTAL: a shape it does not know is *described* in the value it returns
# (an unparsed expression, a statement list, a "?..." marker inside a list of names) so that the obligation theorem
# (`cfg_good`, `cfg_shapes_good`) fails on the new value; none of them depends on another one's success.


def _flat1(n):
    return " ".join(ast.unparse(n).split())


def _flat(stmts):
    return [_flat1(s) for s in stmts]


def _shape(stmts, depth=0):
    """statement list with its control structure, one string per simple statement / header, indented by depth"""
    out = []
    pre = "  " * depth
    for s in stmts:
        if isinstance(s, ast.If):
            out.append(pre + "if %s:" % _flat1(s.test))
            out += _shape(s.body, depth + 1)
            if s.orelse:
                out.append(pre + "else:")
                out += _shape(s.orelse, depth + 1)
        elif isinstance(s, (ast.For, ast.AsyncFor)):
            out.append(pre + "for %s in %s:" % (_flat1(s.target), _flat1(s.iter)))
            out += _shape(s.body, depth + 1)
            if s.orelse:
                out.append(pre + "else:")
                out += _shape(s.orelse, depth + 1)
        elif isinstance(s, ast.While):
            out.append(pre + "while %s:" % _flat1(s.test))
            out += _shape(s.body, depth + 1)
            if s.orelse:
                out.append(pre + "else:")
                out += _shape(s.orelse, depth + 1)
        elif isinstance(s, (ast.With, ast.AsyncWith)):
            out.append(pre + "with %s:" % ", ".join(_flat1(i) for i in s.items))
            out += _shape(s.body, depth + 1)
        elif isinstance(s, ast.Try):
            out.append(pre + "try:")
            out += _shape(s.body, depth + 1)
            for h in s.handlers:
                out.append(pre + "except%s%s:" % ("" if h.type is None else " " + _flat1(h.type),
                                                  "" if h.name is None else " as " + h.name))
                out += _shape(h.body, depth + 1)
            if s.orelse:
                out.append(pre + "else:")
                out += _shape(s.orelse, depth + 1)
            if s.finalbody:
                out.append(pre + "finally:")
                out += _shape(s.finalbody, depth + 1)
        elif isinstance(s, (ast.FunctionDef, ast.AsyncFunctionDef, ast.ClassDef)):
            out += _def_shape(s, depth)
        else:
            out.append(pre + _flat1(s))
    return out


def _def_shape(fn, depth=0):
    pre = "  " * depth
    out = [pre + "@" + _flat1(d) for d in fn.decorator_list]
    if isinstance(fn, ast.ClassDef):
        out.append(pre + "class %s:" % fn.name)
    else:
        out.append(pre + "def %s(%s):" % (fn.name, _flat1(fn.args)))
    body = list(fn.body)
    if body and isinstance(body[0], ast.Expr) and isinstance(body[0].value, ast.Constant) and isinstance(body[0].value.value, str):
        body = body[1:]                                   # the docstring is not code
    return out + _shape(body, depth + 1)


def _fn(tree_fn, name, cls=None):
    """-> the FunctionDef, or a string saying why there is none (never raises)"""
    try:
        return extract.find_def(tree_fn(), name, cls=cls)
    except Exception as e:  # noqa: BLE001
        return "<%s: %s>" % (type(e).__name__, e)


def _fn_shape(fn):
    return [fn] if isinstance(fn, str) else _def_shape(fn)


def _unpack_indices(fn, wanted):
    """`a, b, _ = <expr>[lo:hi]` → [hi - lo, index of wanted[0] in <expr>, …] for the first tuple assignment from a slice
    that names every wanted variable once; [] when there is none, [0, …] when the slice does not have as many elements
    as there are targets (the obligation `inetN = 10` / `unixN = 7` fails either way)"""
    if isinstance(fn, str):
        return []
    for n in ast.walk(fn):
        if isinstance(n, ast.Assign) and len(n.targets) == 1 and isinstance(n.targets[0], ast.Tuple) \
                and isinstance(n.value, ast.Subscript) and isinstance(n.value.slice, ast.Slice):
            names = [extract.dotted(e) for e in n.targets[0].elts]
            if not all(names.count(w) == 1 for w in wanted):
                continue
            sl = n.value.slice
            idx = [names.index(w) for w in wanted]
            try:
                lo = 0 if sl.lower is None else int(extract.const(sl.lower))
                hi = int(extract.const(sl.upper))
            except Exception:  # noqa: BLE001
                return [0] + idx
            if lo < 0 or hi < lo or sl.step is not None or hi - lo != len(names):
                return [0] + idx                      # the unpack cannot succeed / is not expressible: bound 0
            return [hi - lo] + [lo + i for i in idx]
    return []


PATH_REST_EXPR = "line.split(None, 6)[6].rstrip('\\n').partition(' ')[2]"
PATH_OLD_EXPR = "tokens[-1] if len(tokens) == 8 else ''"


def _unix_path_expr(fn):
    """the right-hand side(s) of the assignment(s) to `path` in process_unix, joined with ' ;; '"""
    if isinstance(fn, str):
        return fn
    found = [_flat1(n.value) for n in ast.walk(fn)
             if isinstance(n, ast.Assign) and len(n.targets) == 1 and extract.dotted(n.targets[0]) == "path"]
    found += [_flat1(n) for n in ast.walk(fn) if isinstance(n, (ast.AugAssign, ast.AnnAssign)) and extract.dotted(n.target) == "path"]
    return " ;; ".join(found) if found else "<no assignment to path>"


MERGE_EXTEND = ["for (inode, pairs) in self.get_proc_inodes(pid).items():", "  inodes.setdefault(inode, []).extend(pairs)"]
MERGE_UPDATE = ["inodes.update(self.get_proc_inodes(pid))"]


def _merge_stmts(fn):
    """get_all_inodes: the statements that use get_proc_inodes(pid) — the body of the `try` that encloses the call,
    or of the loop when there is no `try`"""
    if isinstance(fn, str):
        return [fn]
    tries = [n for n in ast.walk(fn) if isinstance(n, ast.Try) and any(extract.calls_in(b, "get_proc_inodes") for b in n.body)]
    if len(tries) == 1:
        return _shape(tries[0].body)
    loops = [n for n in ast.walk(fn) if isinstance(n, ast.For) and any(extract.calls_in(b, "get_proc_inodes") for b in n.body)]
    if len(tries) == 0 and len(loops) == 1:
        return _shape(loops[0].body)
    return ["<%d try blocks / %d loops around get_proc_inodes>" % (len(tries), len(loops))] + _def_shape(fn)


def _handler_classes(h):
    t = h.type
    if t is None:
        return ["BaseException"]
    elts = t.elts if isinstance(t, ast.Tuple) else [t]
    names = [extract.dotted(e) for e in elts]
    return [("?" + _flat1(e)) if "?" in n else n.split(".")[-1] for n, e in zip(names, elts)]


def _readlink_try(fn):
    """the one `try:` of get_proc_inodes whose body is the readlink call, or a string describing what is there"""
    if isinstance(fn, str):
        return fn
    tries = [n for n in ast.walk(fn) if isinstance(n, ast.Try) and any(extract.calls_in(b, "readlink") for b in n.body)]
    if len(tries) != 1 or len(extract.calls_in(fn, "readlink")) != 1:
        return "?%d try blocks around %d readlink calls" % (len(tries), len(extract.calls_in(fn, "readlink")))
    t = tries[0]
    if len(t.body) != 1 or t.finalbody:
        return "?try around readlink: body %s finally %s" % (_flat(t.body), _flat(t.finalbody))
    return t


def _link_skip_classes(fn):
    """classes of the handlers (before any `except OSError as err`) whose body is exactly `continue`; anything else in
    that position is listed as a '?…' entry (not a class name: `cfg_good.linkSkipNamed` fails)"""
    t = _readlink_try(fn)
    if isinstance(t, str):
        return [t]
    out = []
    for h in t.handlers:
        if h.name is not None:
            if _handler_classes(h) != ["OSError"]:
                out.append("?named handler for %s: %s" % (",".join(_handler_classes(h)), "; ".join(_flat(h.body))))
            continue
        if _flat(h.body) != ["continue"]:
            out.append("?except %s: %s" % (",".join(_handler_classes(h)), "; ".join(_flat(h.body))))
            continue
        out += _handler_classes(h)
    return out


def _link_skip_errnos(fn):
    """inside `except OSError as err:` — the X of every `if err.errno == errno.X: [debug(...);] continue`;
    the handler must end in a bare `raise`; no such handler = no errno is stepped over; any other statement there
    is listed as a '?…' entry"""
    t = _readlink_try(fn)
    if isinstance(t, str):
        return [t]
    hs = [h for h in t.handlers if h.name is not None and _handler_classes(h) == ["OSError"]]
    if not hs:
        return []
    out = []
    if len(hs) != 1:
        out.append("?%d `except OSError as …` handlers" % len(hs))
    h = hs[0]
    if h is not t.handlers[-1]:
        out.append("?`except OSError` is not the last handler")
    body = list(h.body)
    if not body or _flat(body[-1:]) != ["raise"]:
        out.append("?`except OSError` does not end in `raise`: %s" % "; ".join(_flat(body[-1:])))
    else:
        body = body[:-1]
    for st in body:
        m = None
        if isinstance(st, ast.If) and not st.orelse:
            m = re.fullmatch(r"%s\.errno == errno\.(E[A-Z0-9]+)" % re.escape(h.name), _flat1(st.test))
        if not m:
            out.append("?" + " / ".join(_shape([st])))
            continue
        inner = _flat(st.body)
        if inner[-1:] != ["continue"] or any(not x.startswith("debug(") for x in inner[:-1]):
            out.append("?if %s: %s" % (_flat1(st.test), "; ".join(inner)))
            continue
        out.append(m.group(1))
    return out


def _all_skip_classes(fn):
    """get_all_inodes: the `except (...): continue` around the get_proc_inodes call ('?…' entries for anything else)"""
    if isinstance(fn, str):
        return [fn]
    tries = [n for n in ast.walk(fn) if isinstance(n, ast.Try)]
    inside = [t for t in tries if any(extract.calls_in(b, "get_proc_inodes") for b in t.body)]
    if not tries:
        return []                       # no try at all: nothing is caught
    if len(tries) != 1 or len(inside) != 1 or inside[0].finalbody or inside[0].orelse:
        return ["?%d try blocks, %d around get_proc_inodes, else/finally: %s" % (
            len(tries), len(inside), bool(inside and (inside[0].finalbody or inside[0].orelse)))]
    out = []
    for h in inside[0].handlers:
        if h.name is not None or _flat(h.body) != ["continue"]:
            out.append("?except %s%s: %s" % (",".join(_handler_classes(h)), "" if h.name is None else " as " + h.name,
                                             "; ".join(_flat(h.body))))
            continue
        out += _handler_classes(h)
    return out


def _try_shape(fn, callee):
    """[body statements…, 'except <classes>', handler statements…] of the try whose body calls `callee`"""
    if isinstance(fn, str):
        return [fn]
    tries = [n for n in ast.walk(fn) if isinstance(n, ast.Try) and any(extract.calls_in(b, callee) for b in n.body)]
    calls = extract.calls_in(fn, callee)
    if not tries:
        return ["no try around %d call(s) of %s" % (len(calls), callee)]
    out = []
    if len(tries) != 1:
        out.append("%d try blocks around %s" % (len(tries), callee))
    t = tries[0]
    covered = sum(len(extract.calls_in(b, callee)) for b in t.body)
    out += _flat(t.body) if covered == len(calls) else ["%d of %d calls of %s inside the try" % (covered, len(calls), callee)]
    for h in t.handlers:
        out.append("except " + ", ".join(_handler_classes(h)) + ("" if h.name is None else " as " + h.name))
        out += _flat(h.body)
    if t.orelse:
        out += ["else"] + _flat(t.orelse)
    if t.finalbody:
        out += ["finally"] + _flat(t.finalbody)
    return out


def _decode_v6_handler(fn):
    """decode_address: the handlers of the try around the AF_INET6 inet_ntop calls (the IPv4 calls and b16decode are
    outside it — anything else is said in a leading entry)"""
    if isinstance(fn, str):
        return [fn]
    tries = [n for n in ast.walk(fn) if isinstance(n, ast.Try)]
    if not tries:
        return ["no try"]
    out = []
    if len(tries) != 1:
        out.append("%d try blocks" % len(tries))
    t = tries[0]
    inside = [c for b in t.body for c in extract.calls_in(b, "inet_ntop")]
    if not inside or any(not c.args or _flat1(c.args[0]) != "socket.AF_INET6" for c in inside):
        out.append("the try does not enclose exactly the AF_INET6 inet_ntop calls")
    outside = [c for c in extract.calls_in(fn, "inet_ntop") if c not in inside]
    if any(c.args and _flat1(c.args[0]) == "socket.AF_INET6" for c in outside):
        out.append("an AF_INET6 inet_ntop call outside the try")
    if any(extract.calls_in(b, "b16decode") for b in t.body):
        out.append("b16decode inside the try")
    for h in t.handlers:
        out.append("except " + ", ".join(_handler_classes(h)) + ("" if h.name is None else " as " + h.name))
        out += _flat(h.body)
    if t.orelse:
        out += ["else"] + _flat(t.orelse)
    if t.finalbody:
        out += ["finally"] + _flat(t.finalbody)
    return out


def _ntop_calls(fn):
    """decode_address: every `inet_ntop(family, X)` call with the chain of `if` tests it sits under -> [(tests, X)]"""
    if isinstance(fn, str):
        return [(fn, "")]
    out = []

    def visit(stmts, path):
        for s in stmts:
            if isinstance(s, ast.If):
                t = _flat1(s.test)
                for c in extract.calls_in(s.test, "inet_ntop"):
                    out.append((" & ".join(path + ["<in test>"]), _flat1(c)))
                visit(s.body, path + [t])
                visit(s.orelse, path + ["not " + t])
            elif isinstance(s, ast.Try):
                visit(s.body, path)
                for h in s.handlers:
                    visit(h.body, path + ["except"])
                visit(s.orelse, path)
                visit(s.finalbody, path)
            elif isinstance(s, (ast.For, ast.While, ast.With, ast.AsyncFor, ast.AsyncWith)):
                visit(s.body, path + ["<loop/with>"])
            else:
                for c in extract.calls_in(s, "inet_ntop"):
                    out.append((" & ".join(path), _flat1(c.args[1]) if len(c.args) == 2 and not c.keywords else "?" + _flat1(c)))
    visit(fn.body, [])
    return out


def _dict_init(fn, name="inodes"):
    """the expression(s) the local `inodes` is first bound to in get_all_inodes / get_proc_inodes, joined with ' ;; '
    (`{}` / `dict()`: a plain dict; `defaultdict(list)`: subscripting a missing key creates it)"""
    if isinstance(fn, str):
        return fn
    found = [_flat1(n.value) for n in ast.walk(fn)
             if isinstance(n, ast.Assign) and len(n.targets) == 1 and extract.dotted(n.targets[0]) == name]
    found += [_flat1(n) for n in ast.walk(fn) if isinstance(n, (ast.AugAssign, ast.AnnAssign)) and extract.dotted(n.target) == name]
    return " ;; ".join(found) if found else "<no assignment to %s>" % name


def _dict_uses(fn, name="inodes"):
    """HOW process_inet / process_unix get at the shared dict `inodes` (one mutable object for all the tables of a
    query): the sorted set of
      'guarded-subscript'  `inodes[k]` evaluated only when `k in inodes` held (if / conditional expression / `and`),
      'subscript'          `inodes[k]` evaluated unconditionally (a defaultdict inserts the missing key),
      'get' / 'setdefault' the dict methods (setdefault inserts),
      '?…'                 any other use (a store, another method, the dict passed on …), described.
    Membership tests themselves (`k in inodes`) only read and are not listed."""
    if isinstance(fn, str):
        return [fn]
    parent = {}
    for n in ast.walk(fn):
        for c in ast.iter_child_nodes(n):
            parent[c] = n

    def is_member_test(t, key, negated=False):
        if isinstance(t, ast.UnaryOp) and isinstance(t.op, ast.Not):
            return is_member_test(t.operand, key, not negated)
        return isinstance(t, ast.Compare) and len(t.ops) == 1 and len(t.comparators) == 1 \
            and isinstance(t.ops[0], ast.NotIn if negated else ast.In) \
            and _flat1(t.comparators[0]) == name and _flat1(t.left) == key

    def guarded(node, key):
        child, anc = node, parent.get(node)
        while anc is not None and anc is not fn:
            if isinstance(anc, ast.If):
                if child in anc.body and is_member_test(anc.test, key):
                    return True
                if child in anc.orelse and is_member_test(anc.test, key, negated=True):
                    return True
            elif isinstance(anc, ast.IfExp):
                if child is anc.body and is_member_test(anc.test, key):
                    return True
                if child is anc.orelse and is_member_test(anc.test, key, negated=True):
                    return True
            elif isinstance(anc, ast.BoolOp) and isinstance(anc.op, ast.And):
                i = anc.values.index(child)
                if any(is_member_test(v, key) for v in anc.values[:i]):
                    return True
            elif isinstance(anc, (ast.FunctionDef, ast.Lambda, ast.For, ast.While)):
                # the test does not dominate a loop body that may rebind the key / a deferred body
                if isinstance(anc, (ast.FunctionDef, ast.Lambda)):
                    return False
            child, anc = anc, parent.get(anc)
        return False
    out = set()
    for n in ast.walk(fn):
        if not (isinstance(n, ast.Name) and n.id == name):
            continue
        par = parent.get(n)
        if isinstance(par, ast.Compare) and n in par.comparators and len(par.ops) == 1 \
                and isinstance(par.ops[0], (ast.In, ast.NotIn)):
            continue
        if isinstance(par, ast.Subscript) and par.value is n:
            if not isinstance(par.ctx, ast.Load):
                out.add("?store " + _flat1(parent.get(par, par)))
            else:
                out.add("guarded-subscript" if guarded(par, _flat1(par.slice)) else "subscript")
            continue
        if isinstance(par, ast.Attribute) and par.value is n:
            gp = parent.get(par)
            if isinstance(gp, ast.Call) and gp.func is par and par.attr in ("get", "setdefault"):
                out.add(par.attr)
            else:
                out.add("?" + _flat1(gp if gp is not None else par))
            continue
        out.add("?" + _flat1(par if par is not None else n))
    return sorted(out) or ["?no use of %s" % name]


def facts(snap, F):
    cache = {}

    def rt(key):
        if "d" not in cache:
            try:
                cache["d"] = _runtime_dump(snap)
            except Exception as e:  # noqa: BLE001
                cache["d"] = {"__import__": {"err": "%s: %s" % (type(e).__name__, e)}}
        d = cache["d"]
        ent = d.get(key) or d.get("__import__") or {"err": "not dumped"}
        if "err" in ent:
            raise NotRecognised("%s: %s" % (key, ent["err"]))       # a runtime value has no "shape" to describe
        return ent["v"]

    L = extract.lean_list
    F.try_add("littleEndian", "Bool", lambda: extract.lean_bool(rt("littleEndian")),
              "_pslinux.LITTLE_ENDIAN of the host the check runs on (the theorems hold for both values; the differential run "
              "executes both branches of decode_address by patching it)")
    for nm, doc in (("afInet", "socket.AF_INET"), ("afInet6", "socket.AF_INET6"), ("afUnix", "socket.AF_UNIX"),
                    ("sockStream", "socket.SOCK_STREAM")):
        F.try_add(nm, "Nat", (lambda nm=nm: extract.lean_nat(rt(nm))), doc)
    F.try_add("tcpStatuses", "List (List Nat × String)",
              lambda: L(rt("tcpStatuses"), lambda kv: extract.lean_pair(extract.lean_bytes(kv[0].encode()), extract.lean_str(kv[1]))),
              "_pslinux.TCP_STATUSES: status column (ASCII bytes) -> CONN_* value")
    F.try_add("connNone", "String", lambda: extract.lean_str(rt("connNone")), "_common.CONN_NONE")
    F.try_add("tmap", "List (String × List (String × Nat × Option Nat))",
              lambda: L(rt("tmap"), lambda kv: extract.lean_pair(extract.lean_str(kv[0]), L(kv[1], lambda e: "(%s, %s, %s)" % (
                  extract.lean_str(e[0]), extract.lean_nat(e[1]), extract.lean_opt(e[2], extract.lean_nat))))),
              "NetConnections().tmap: kind -> [(file, family, type or None)]")
    F.try_add("connTmap", "List (String × List Nat × List Nat)",
              lambda: L(rt("connTmap"), lambda kv: "(%s, %s, %s)" % (extract.lean_str(kv[0]), L(kv[1], extract.lean_nat), L(kv[2], extract.lean_nat))),
              "_common.conn_tmap: kind -> (families, types); its keys are what _check_conn_kind accepts")
    trees = {}

    def mod(rel):
        def get():
            if rel not in trees:
                trees[rel] = extract.parse_module(snap, rel)
            return trees[rel]
        return get

    lin, top = mod("_pslinux.py"), mod("__init__.py")
    NC = lambda name: _fn(lin, name, cls="NetConnections")      # noqa: E731
    LS = lambda xs: L(xs, extract.lean_str)      # noqa: E731
    F.try_add("mergeStmts", "List String", lambda: LS(_merge_stmts(NC("get_all_inodes"))),
              "get_all_inodes: what is done with get_proc_inodes(pid) — `for inode, pairs in ….items(): inodes.setdefault(inode, []).extend(pairs)` "
              "(all holders kept) or `inodes.update(…)` (pre-fix: the last process wins)")
    F.try_add("unixPathExpr", "String", lambda: extract.lean_str(_unix_path_expr(NC("process_unix"))),
              "process_unix: the expression assigned to `path` (everything after '<inode> ', or pre-fix `tokens[-1] if len(tokens) == 8 else ''`)")
    F.try_add("inetIdx", "List Nat",
              lambda: L(_unpack_indices(NC("process_inet"), ["laddr", "raddr", "status", "inode"]), extract.lean_nat),
              "process_inet: [number of tokens unpacked, index of laddr, raddr, status, inode] ([] = no such tuple assignment)")
    F.try_add("unixIdx", "List Nat",
              lambda: L(_unpack_indices(NC("process_unix"), ["type_", "inode"]), extract.lean_nat),
              "process_unix: [number of tokens unpacked, index of type_, inode] ([] = no such tuple assignment)")
    F.try_add("linkSkipClasses", "List String", lambda: LS(_link_skip_classes(NC("get_proc_inodes"))),
              "get_proc_inodes: exception classes of the `except ...: continue` clauses around readlink ('?…' = a clause of another shape)")
    F.try_add("linkSkipErrnos", "List String", lambda: LS(_link_skip_errnos(NC("get_proc_inodes"))),
              "get_proc_inodes, `except OSError as err`: the errno.X whose `if err.errno == errno.X:` ends in `continue`; the handler ends in `raise` ('?…' = anything else in there)")
    F.try_add("allSkipClasses", "List String", lambda: LS(_all_skip_classes(NC("get_all_inodes"))),
              "get_all_inodes: exception classes of the `except (...): continue` around get_proc_inodes(pid) ('?…' = a clause of another shape)")
    F.try_add("decodeV6Handler", "List String", lambda: LS(_decode_v6_handler(NC("decode_address"))),
              "decode_address: handlers of the try around the AF_INET6 inet_ntop calls (b16decode and the IPv4 calls are outside it)")
    F.try_add("inetV6Try", "List String", lambda: LS(_try_shape(NC("process_inet"), "decode_address")),
              "process_inet: the try around the two decode_address calls, statement by statement")
    F.try_add("allInodesInit", "String", lambda: extract.lean_str(_dict_init(NC("get_all_inodes"))),
              "get_all_inodes: what `inodes` is created as — `{}` (a missing key stays missing) or `defaultdict(list)` (subscripting a "
              "missing key creates it). This ONE object is handed to every process_inet / process_unix call of a query")
    F.try_add("procInodesInit", "String", lambda: extract.lean_str(_dict_init(NC("get_proc_inodes"))),
              "get_proc_inodes: what `inodes` is created as (the dict of the per-process form)")
    F.try_add("inetLookup", "List String", lambda: LS(_dict_uses(NC("process_inet"))),
              "process_inet: how the shared dict `inodes` is accessed — 'guarded-subscript' (only under `inode in inodes`), 'subscript' "
              "(unconditional: a defaultdict inserts), 'get', 'setdefault' (inserts), '?…' = anything else")
    F.try_add("unixLookup", "List String", lambda: LS(_dict_uses(NC("process_unix"))),
              "process_unix: how the shared dict `inodes` is accessed (same vocabulary)")
    F.try_add("ntopCalls", "List (String × String)",
              lambda: L(_ntop_calls(NC("decode_address")), lambda kv: extract.lean_pair(extract.lean_str(kv[0]), extract.lean_str(kv[1]))),
              "decode_address: each inet_ntop call — the `if` tests it sits under (family, LITTLE_ENDIAN) and its second argument; "
              "both endianness branches are facts (the model's v4RevLE/v4RevBE/v6SwapLE/v6SwapBE are read off them)")
    # whole-function statement lists (docstrings and comments are not code): the hand transcription in Model/C11.lean was
    # made from exactly these statements; any edit of one of these functions breaks `cfg_shapes_good`
    for fact, get, doc in (
            ("shapeDecodeAddress", lambda: NC("decode_address"), "NetConnections.decode_address"),
            ("shapeGetProcInodes", lambda: NC("get_proc_inodes"), "NetConnections.get_proc_inodes (socket:[ prefix, inode[8:][:-1], (pid, int(fd)))"),
            ("shapeGetAllInodes", lambda: NC("get_all_inodes"), "NetConnections.get_all_inodes"),
            ("shapeProcessInet", lambda: NC("process_inet"), "NetConnections.process_inet (inodes[inode][0], filter_pid, TCP_STATUSES[status])"),
            ("shapeProcessUnix", lambda: NC("process_unix"), "NetConnections.process_unix (pairs, filter_pid, int(type_))"),
            ("shapeRetrieve", lambda: NC("retrieve"), "NetConnections.retrieve (early return, set(), `if pid:` pconn/sconn)"),
            ("shapeLinuxSys", lambda: _fn(lin, "net_connections"), "_pslinux.net_connections"),
            ("shapeLinuxProc", lambda: _fn(lin, "net_connections", cls="Process"), "_pslinux.Process.net_connections (with its decorators)"),
            ("shapeReadlink", lambda: _fn(lin, "readlink"), "_pslinux.readlink, the wrapper around os.readlink (NUL / ' (deleted)' stripping: identity on socket:[N] targets)"),
            ("shapeCheckKind", lambda: _fn(top, "_check_conn_kind"), "psutil._check_conn_kind"),
            ("shapeFrontSys", lambda: _fn(top, "net_connections"), "psutil.net_connections: _check_conn_kind(kind) before the platform call"),
            ("shapeFrontProc", lambda: _fn(top, "net_connections", cls="Process"), "psutil.Process.net_connections: _check_conn_kind(kind) before the platform call"),
            ("shapeFrontAlias", lambda: _fn(top, "connections", cls="Process"), "psutil.Process.connections (deprecated alias)")):
        F.try_add(fact, "List String", (lambda get=get: LS(_fn_shape(get()))), "statement list of " + doc)


# ------------------------------------------------------------------------------ independent renderer (printf style)

TCP_HDR = "  sl  local_address rem_address   st tx_queue rx_queue tr tm->when retrnsmt   uid  timeout inode"
TCP6_HDR = "  sl  local_address                         remote_address                        st tx_queue rx_queue tr tm->when retrnsmt   uid  timeout inode"
UDP_HDR = "   sl  local_address rem_address   st tx_queue rx_queue tr tm->when retrnsmt   uid  timeout inode ref pointer drops"
UDP6_HDR = "  sl  local_address                         remote_address                        st tx_queue rx_queue tr tm->when retrnsmt   uid  timeout inode ref pointer drops"
UNIX_HDR = "Num       RefCount Protocol Flags    Type St Inode Path"
PTR = "0000000000000000"


def _ep(ip, port, be=False):
    # each 32-bit word of the address is printed with %08X as a host-order integer (`be`: the host is big-endian)
    words = struct.unpack("%s%dI" % (">" if be else "=", len(ip) // 4), ip)
    return "".join("%08X" % w for w in words) + ":%04X" % port


def py_render(world):
    """net/* contents as the kernel prints them (format strings copied from the kernel source)."""
    out = {}
    be = bool(world.get("be"))
    cls = {"tcp": ("inet4", 1), "udp": ("inet4", 2), "tcp6": ("inet6", 1), "udp6": ("inet6", 2)}
    for name, (fam, typ) in cls.items():
        if fam == "inet6" and not world["v6"]:
            out[name] = None
            continue
        width = {"tcp": 149, "udp": 127}.get(name, 0)
        hdr = {"tcp": TCP_HDR, "tcp6": TCP6_HDR, "udp": UDP_HDR, "udp6": UDP6_HDR}[name]
        lines = [hdr.ljust(width)]
        sl = 0
        for s in world["socks"]:
            if s["fam"] != fam or s["typ"] != typ:
                continue
            head = "%s %s %02X %08X:%08X %02X:%08lX %08X %5u %8d %lu" % (
                _ep(bytes.fromhex(s["lip"]), s["lport"], be), _ep(bytes.fromhex(s["rip"]), s["rport"], be),
                s["state"], s["txq"], s["rxq"], 0, 0, 0, s["uid"], 0, s["inode"])
            if typ == 1:
                line = "%4d: %s %d %s %lu %lu %u %u %d" % (sl, head, 1, PTR, 100, 0, 0, 10, 0)
            else:
                line = "%5d: %s %d %s %u" % (sl, head, 2, PTR, 0)
            lines.append(line.ljust(width))
            sl += 1
        out[name] = ("\n".join(lines) + "\n").encode()
    blines = [UNIX_HDR.encode()]
    for s in world["socks"]:
        if s["fam"] != "unix":
            continue
        b = ("%s: %08X %08X %08X %04X %02X %5lu" % (PTR, s["refcnt"], 0, s["flags"], s["typ"], s["state"], s["inode"])).encode()
        if s["path"] is not None:
            b += b" " + bytes.fromhex(s["path"])
        blines.append(b)
    out["unix"] = b"\n".join(blines) + b"\n"
    return out


def render_target(t):
    """abstract descriptor -> what the fake tree holds: bytes (link text) | None (a regular file: readlink gives a
    real EINVAL) | ("E", errno) (readlink is made to fail with that errno)"""
    if t is None:
        return None
    if "s" in t:
        return b"socket:[%d]" % t["s"]
    if "e" in t:
        return ("E", t["e"])
    return bytes.fromhex(t["o"])


def render_listing(fds):
    """abstract listing -> None (no fd directory: a real ENOENT) | ("E", errno) (listdir is made to fail) | entries"""
    if fds is None:
        return None
    if isinstance(fds, dict):
        return ("E", fds["err"])
    return [[fd, render_target(t)] for fd, t in fds]


def errno_num(e):
    return getattr(_errno, e) if isinstance(e, str) else int(e)


# ------------------------------------------------------------------------------ implementation side

STAT = ("%d (psv) S 0 1 1 0 -1 4194560 1 0 0 0 0 0 0 0 20 0 1 0 100 1000 10 18446744073709551615 "
        "1 1 0 0 0 0 0 0 0 0 0 0 17 0 0 0 0 0 0 0 0 0 0 0 0 0 0\n")

EXC_BASES = [("FileNotFoundError", FileNotFoundError), ("KeyError", KeyError), ("IndexError", IndexError),
             ("error", struct.error), ("ValueError", ValueError), ("RuntimeError", RuntimeError)]


class Impl:
    def __init__(self, ctx):
        self.ps = ctx.psutil
        self.fp = FakeProc(self.ps, prefix="psv-c11-")

    def close(self):
        self.fp.close()

    def build(self, files, procs):
        """files: name -> bytes|None; procs: [[pid, None | [[fd, bytes|None]…]]…] (any order).
        Returns the listing orders the implementation will see: [[pid, None | [[fd, target]…]]…]."""
        fp = self.fp
        fp.clear()
        reset_psutil_state(self.ps)
        fp.write("stat", "cpu  1 0 1 1 0 0 0 0 0 0\nbtime 1700000000\n")
        fp.write("uptime", "1000.00 1000.00\n")
        fp.mkdir("net")
        for n, data in files.items():
            if data is not None:
                fp.write("net/" + n, data)
        tmap = {}
        self.link_faults = {}      # path handed to os.readlink -> errno
        self.list_faults = {}      # path handed to os.listdir  -> errno
        for pid, fds in procs:
            fp.write("%d/stat" % pid, STAT % pid)
            if fds is None:
                continue
            fp.mkdir("%d/fd" % pid)
            if isinstance(fds, tuple):
                # listdir will be made to fail; a decoy socket link shows up if the injection is lost
                fp.symlink("%d/fd/3" % pid, self.decoy)
                self.list_faults["%s/%d/fd" % (fp.root, pid)] = errno_num(fds[1])
                tmap[pid] = fds
                continue
            for fd, tgt in fds:
                if tgt is None:
                    fp.write("%d/fd/%d" % (pid, fd), b"")       # not a link: readlink -> EINVAL -> skipped
                elif isinstance(tgt, tuple):
                    fp.symlink("%d/fd/%d" % (pid, fd), self.decoy)
                    self.link_faults["%s/%d/fd/%d" % (fp.root, pid, fd)] = errno_num(tgt[1])
                else:
                    fp.symlink("%d/fd/%d" % (pid, fd), tgt)
            tmap[pid] = dict(fds)
        listed = []
        for name in os.listdir(fp.root):
            if not name.isdigit():
                continue
            pid = int(name)
            fdir = os.path.join(fp.root, name, "fd")
            if not os.path.isdir(fdir):
                listed.append([pid, None])
            elif isinstance(tmap[pid], tuple):
                listed.append([pid, tmap[pid]])
            else:
                listed.append([pid, [[int(f), tmap[pid][int(f)]] for f in os.listdir(fdir)]])
        return listed

    decoy = b"socket:[1]"

    @contextlib.contextmanager
    def injected(self, env):
        """Fault injection from outside the repository: os.readlink / os.listdir fail with the scripted errno on
        the scripted paths (every other path reaches the real call); `env["ntop6"]` makes socket.inet_ntop behave
        like a Python built without IPv6 (ValueError for AF_INET6), `env["supv6"]` decides supports_ipv6();
        `env["be"]` makes the code believe it runs on a big-endian host (`_pslinux.LITTLE_ENDIAN = False`: the `else:`
        branches of decode_address run, over files rendered the way a big-endian kernel prints them)."""
        real_readlink, real_listdir = os.readlink, os.listdir
        link_faults, list_faults = self.link_faults, self.list_faults
        hits = self.fault_hits = {"readlink": 0, "listdir": 0, "ntop6": 0, "be": 0}

        def readlink(path, *a, **kw):
            e = link_faults.get(path)
            if e is not None:
                hits["readlink"] += 1
                raise OSError(e, os.strerror(e), path)
            return real_readlink(path, *a, **kw)

        def listdir(path=".", *a, **kw):
            e = list_faults.get(path)
            if e is not None:
                hits["listdir"] += 1
                raise OSError(e, os.strerror(e), path)
            return real_listdir(path, *a, **kw)
        os.readlink, os.listdir = readlink, listdir
        lin = self.ps._pslinux
        saved = (socket.inet_ntop, socket.has_ipv6, lin.supports_ipv6)
        saved_le = lin.LITTLE_ENDIAN
        sup = self.ps._common.supports_ipv6
        try:
            if env.get("be"):
                lin.LITTLE_ENDIAN = False
                hits["be"] = 1
            if env.get("ntop6"):
                real_ntop = socket.inet_ntop

                def inet_ntop(af, packed):
                    if af == socket.AF_INET6:
                        hits["ntop6"] += 1
                        raise ValueError("unknown address family %d" % af)
                    return real_ntop(af, packed)
                socket.inet_ntop = inet_ntop
                sup.cache_clear()
                if env.get("supv6", True):
                    lin.supports_ipv6 = lambda: True
                else:
                    socket.has_ipv6 = False          # the real supports_ipv6() then answers False
            yield
        finally:
            os.readlink, os.listdir = real_readlink, real_listdir
            socket.inet_ntop, socket.has_ipv6, lin.supports_ipv6 = saved
            lin.LITTLE_ENDIAN = saved_le
            if env.get("ntop6"):
                sup.cache_clear()

    def canon_row(self, r):
        fam, typ = int(r.family), int(r.type)

        def addr(a):
            if isinstance(a, tuple) and len(a) == 0:
                return None
            if isinstance(a, str):
                return {"path": os.fsencode(a).hex()}
            ip, port = a
            packed = socket.inet_pton(fam, ip)
            d = {"ip": packed.hex(), "port": int(port)}
            # the documented access paths `conn.laddr.ip` / `conn.laddr.port` must give the same two values
            by_name = (getattr(a, "ip", "<no .ip>"), getattr(a, "port", "<no .port>"))
            if by_name != (ip, port) or type(a).__name__ != "addr":
                d["attrs"] = "%s(ip=%r, port=%r) vs positional %r" % (type(a).__name__, by_name[0], by_name[1], (ip, port))
            # "decoded to the textual IP": the text must be the one libc's inet_ntop gives for these bytes (what
            # getsockname()/ss/netstat show, e.g. '::ffff:127.0.0.1' for a mapped address) — any other spelling of
            # the same bytes makes the row differ from every promised row
            if ip != _REAL_NTOP(fam, packed):
                d["text"] = str(ip)
            return d
        out = {"fd": int(r.fd), "family": fam, "type": typ, "laddr": addr(r.laddr), "raddr": addr(r.raddr),
               "status": str(r.status), "pid": getattr(r, "pid", None)}
        # the documented positional order: (fd, family, type, laddr, raddr, status[, pid])
        named = (r.fd, r.family, r.type, r.laddr, r.raddr, r.status) + ((r.pid,) if hasattr(r, "pid") else ())
        if tuple(r) != named:
            out["order"] = "tuple(row) = %r, documented order gives %r" % (tuple(r), named)
        return out

    def _call(self, q, mode):
        """The raw front-end call in one of the call modes (no mode may change the answer)."""
        ps = self.ps
        kind, pid = q["kind"], q.get("pid")
        if pid is None:
            if mode == "plain":
                return ps.net_connections(kind)
            if mode == "second":
                first = ps.net_connections(kind)
                second = ps.net_connections(kind)
                if sorted(map(repr, first)) != sorted(map(repr, second)):
                    raise AssertionError("second call differs from the first")
                return second
            if mode == "default_kind":
                if kind != "inet":
                    raise AssertionError("default_kind mode needs kind 'inet'")
                return ps.net_connections()              # the documented default: kind='inet'
            if mode == "oneshot_open":
                # oneshot() blocks open (and warm) on Process objects of the listed processes
                with contextlib.ExitStack() as st:
                    for name in sorted(os.listdir(self.fp.root)):
                        if name.isdigit():
                            try:
                                p = ps.Process(int(name))
                                st.enter_context(p.oneshot())
                                p.ppid(), p.name(), p.status()
                            except ps.Error:
                                pass
                    return ps.net_connections(kind)
            raise AssertionError("unknown mode " + mode)
        if mode == "process_iter":
            found = [p for p in ps.process_iter() if p.pid == pid]
            if len(found) != 1:
                raise AssertionError("process_iter() yielded PID %d %d times" % (pid, len(found)))
            return found[0].net_connections(kind)
        p = ps.Process(pid)
        if mode == "plain":
            return p.net_connections(kind)
        if mode == "oneshot":
            with p.oneshot():
                return p.net_connections(kind)
        if mode == "oneshot_warm":
            with p.oneshot():
                p.ppid(), p.name(), p.status(), p.cpu_times()
                return p.net_connections(kind)
        if mode == "second":
            try:
                first = ("rows", sorted(map(repr, p.net_connections(kind))))
            except Exception as e:  # noqa: BLE001
                first = ("exc", type(e).__name__)
            try:
                rows = p.net_connections(kind)
                second = ("rows", sorted(map(repr, rows)))
            except Exception as e:  # noqa: BLE001
                if first != ("exc", type(e).__name__):
                    raise AssertionError("second call differs from the first") from e
                raise
            if first != second:
                raise AssertionError("second call differs from the first")
            return rows
        if mode == "deprecated_alias":
            with warnings.catch_warnings():
                warnings.simplefilter("ignore")
                return p.connections(kind)
        if mode in ("default_kind", "deprecated_alias_default"):
            if kind != "inet":
                raise AssertionError("%s mode needs kind 'inet'" % mode)
            if mode == "default_kind":
                return p.net_connections()               # the documented default: kind='inet'
            with warnings.catch_warnings():
                warnings.simplefilter("ignore")
                return p.connections()
        if mode == "as_dict":
            # as_dict() can only ask for the default kind
            if kind != "inet":
                raise AssertionError("as_dict mode needs kind 'inet'")
            missing = object()
            d = p.as_dict(attrs=["net_connections"], ad_value=missing)
            if set(d) != {"net_connections"}:
                raise AssertionError("as_dict keys %r" % sorted(d))
            if d["net_connections"] is missing:
                raise ps.AccessDenied(pid)               # as_dict() swallowed it
            return d["net_connections"]
        raise AssertionError("unknown mode " + mode)

    def query(self, q, env=None, mode="plain"):
        """Run the real front end; every exception becomes an observable."""
        try:
            with self.injected(env or {}):
                rows = self._call(q, mode)
            names = sorted({type(r).__name__ for r in rows})
            canon = sorted((self.canon_row(r) for r in rows), key=_rowkey)
            out = {"kind": "rows", "rows": canon}
            if len(names) > 1:
                out["ntuple"] = "+".join(names)
            elif names:
                out["ntuple"] = names[0]
            if len(canon) != len(rows):
                out["dups"] = True
            return out
        except BaseException as e:  # noqa: BLE001
            if isinstance(e, (KeyboardInterrupt, SystemExit)):
                raise
            name = type(e).__name__
            for nm, cls in EXC_BASES:
                if isinstance(e, cls):
                    name = nm
                    break
            d = {"kind": "exc", "exc": name}
            if isinstance(e, AssertionError):
                d["why"] = str(e)
            if getattr(e, "pid", None) is not None and name not in [b[0] for b in EXC_BASES] \
                    and e.pid != q.get("pid"):
                d["pid"] = e.pid
            return d

    def query_modes(self, q, env=None):
        """-> [(mode, outcome)] for every mode the query asks for (default: the plain call)"""
        return [(m, self.query(q, env, m)) for m in q.get("modes") or ["plain"]]


SYS_MODES = ["plain", "second", "oneshot_open", "default_kind"]
PROC_MODES = ["plain", "oneshot", "oneshot_warm", "second", "process_iter", "deprecated_alias", "as_dict", "default_kind",
              "deprecated_alias_default"]
INET_ONLY_MODES = ("as_dict", "default_kind", "deprecated_alias_default")     # calls that cannot name a kind


def modes_for(q):
    ms = SYS_MODES if q.get("pid") is None else PROC_MODES
    return [m for m in ms if m not in INET_ONLY_MODES or q["kind"] == "inet"]


def _rowkey(r):
    return json.dumps(r, sort_keys=True)


def canon_model(m):
    if m.get("kind") == "rows":
        out = {"kind": "rows", "rows": sorted(m["rows"], key=_rowkey)}
        if m["rows"]:
            out["ntuple"] = m["ntuple"]
        return out
    return m


def py_accepts(spec, impl):
    """Does the implementation's outcome satisfy the promise printed by the driver? -> (bool, why)"""
    if spec["kind"] == "unspecified":
        return True, ""
    if spec["kind"] == "exc":
        ok = impl.get("kind") == "exc" and impl.get("exc") == spec["exc"]
        return ok, "" if ok else "expected %s" % spec["exc"]
    if impl.get("kind") != "rows":
        return False, "expected rows, got %s" % impl.get("exc")
    rows = impl["rows"]
    if rows and impl.get("ntuple") != spec["ntuple"]:
        return False, "returned %s tuples, expected %s" % (impl.get("ntuple"), spec["ntuple"])
    keys = [_rowkey(r) for r in rows]
    if len(set(keys)) != len(keys):
        return False, "a row is returned twice"
    keyset = set(keys)
    allowed = {}
    total = 0
    for e in spec["expects"]:
        mine = []
        for pid, fd in e["owners"]:
            k = _rowkey(dict(e["base"], pid=pid, fd=fd))
            mine.append(k)
            allowed.setdefault(k, []).append(e)
        present = [k for k in mine if k in keyset]
        if e["all"]:
            total += len(mine)
            if len(present) != len(mine):
                missing = [o for o, k in zip(e["owners"], mine) if k not in keyset]
                return False, "socket %s: no row for holder(s) %s" % (json.dumps(e["base"]["laddr"]), missing)
        else:
            total += 1
            if not present:
                return False, "inet socket laddr=%s raddr=%s not returned with any of its holders %s" % (
                    json.dumps(e["base"]["laddr"]), json.dumps(e["base"]["raddr"]), e["owners"])
            if len(set(present)) > 1:
                return False, "inet socket returned %d times" % len(set(present))
    for k, r in zip(keys, rows):
        if k not in allowed:
            return False, "row not promised: %s" % json.dumps(r, sort_keys=True)
    if len(rows) > total:
        return False, "more rows than sockets"
    return True, ""


# ------------------------------------------------------------------------------ generators

V4 = ["00000000", "7f000001", "0a000005", "c0a80101", "ffffffff", "e0000001", "a9fe0101", "01020304", "80000000", "000000ff"]
V6 = ["00000000000000000000000000000000", "00000000000000000000000000000001",
      "00000000000000000000ffff7f000001", "00000000000000000000ffffc0a80101",
      "fe800000000000000211 22fffe334455".replace(" ", ""), "ff020000000000000000000000000001",
      "20010db8000000000000000000000001", "ffffffffffffffffffffffffffffffff",
      "0123456789abcdeffedcba9876543210", "00000000000000000000ffff00000000", "0000000000000000000000007f000001"]
PORTS = [0, 0, 1, 22, 80, 255, 256, 443, 631, 8080, 32768, 40521, 65535]
PATHS = [None, None, b"/run/x.sock", b"/tmp/my sock", b"@abstract", b"@", b"@/tmp/dbus-Qw2hMPIU3n", b"/tmp/a  b", b" lead",
         b"trail ", b" ", b"  ", b"/tmp/tab\there", b"/a b c d e f", b"/tmp/\xc3\xa9t\xc3\xa9", b"/tmp/\xff\xfe", b"@with@nul@",
         b"x", b"/tmp/.X11-unix/X0", b"@a b", b"/v\x0bt", b"/f\x0cf", b"/u\x1cs", b"/nbsp\xc2\xa0x", b"/nel\xc2\x85x", b"12345", b"0001 01 7",
         # carriage returns: open_text() reads with newline="\n", so "\r" is an ordinary character of the name
         b"/tmp/cr\rx", b"\rlead", b"trail\r", b"\r", b"/a\r b", b"@\r\r", b" \r "]
OTHERS = [b"/dev/null", b"pipe:[4242]", b"anon_inode:[eventpoll]", b"/tmp/with space", b"socket", b"/socket:[12]",
          b"anon_inode:[eventfd]", b"/dev/pts/0", b"socket:", b"Socket:[12]", b"socket:(12)"]
# link texts no kernel produces but which start with "socket:[": outside `World.WF` (`Target.WF`), so the driver answers
# `unspecified` for the whole world (implementation vs model only) — generated rarely
OTHERS_NOT_WF = [b"socket:[", b"socket:[]", b"socket:[x]"]


def rand_ip(rng, fam):
    pal = V4 if fam == "inet4" else V6
    if rng.random() < 0.6:
        return rng.choice(pal)
    return bytes(rng.randrange(256) for _ in range(4 if fam == "inet4" else 16)).hex()


def rand_port(rng):
    return rng.choice(PORTS) if rng.random() < 0.7 else rng.randrange(65536)


CLASSES = [("inet4", 1), ("inet4", 2), ("inet6", 1), ("inet6", 2), ("unix", 1), ("unix", 2), ("unix", 5)]


def gen_sock(rng, cls, inode, family_bias=None):
    fam, typ = cls
    s = {"fam": fam, "typ": typ, "lip": "", "lport": 0, "rip": "", "rport": 0, "state": 1, "path": None,
         "inode": inode, "txq": rng.choice([0, 0, 1, 2**32 - 1, rng.randrange(2**32)]),
         "rxq": rng.choice([0, 0, 7, rng.randrange(2**32)]),
         "uid": rng.choice([0, 0, 33, 1000, 65534, 100000, 4294967294]),
         "refcnt": rng.choice([2, 3, 1]), "flags": rng.choice([0, 0x10000])}
    if fam == "unix":
        p = rng.choice(PATHS)
        if rng.random() < 0.15:
            n = rng.randrange(1, 12)
            p = bytes(rng.choice(b"abc /@._-\t\r\xe9\xff") for _ in range(n))
        s["path"] = None if p is None else p.hex()
        s["state"] = rng.choice([1, 3, 1, 2])
    else:
        s["lip"], s["lport"] = rand_ip(rng, fam), rand_port(rng)
        s["rip"], s["rport"] = rand_ip(rng, fam), rand_port(rng)
        s["state"] = rng.randrange(1, 12) if typ == 1 else rng.choice([7, 1])
    return s


def gen_world(rng, family):
    v6 = rng.random() > 0.1 or family == "nov6"
    npid = rng.choice([0, 1, 2, 2, 3, 4])
    if family in ("faults", "fatal", "listerr"):
        npid = rng.choice([1, 2, 3, 4])
    pids = rng.sample([1, 2, 7, 10, 20, 99, 100, 101, 1234, 32768, 4194304], npid)
    nsock = rng.choice([0, 1, 2, 3, 4, 5, 6, 8, 10])
    if family == "big":
        nsock = rng.randrange(10, 25)
    classes = [c for c in CLASSES if v6 or c[0] != "inet6"]
    if family == "nov6" and rng.random() < 0.7:
        classes = [c for c in classes if c[0] == "inet6"] * 3 + classes
    if family == "unix_paths":
        classes = [c for c in classes if c[0] == "unix"]
    elif family in ("addresses", "addresses_be"):
        classes = [c for c in classes if c[0] != "unix"]
    inodes = rng.sample(range(1, 99999), nsock + 3) if rng.random() < 0.8 else rng.sample(range(1, 2**32), nsock + 3)
    socks = [gen_sock(rng, rng.choice(classes), inodes[i]) for i in range(nsock)]
    if family == "ownerless":
        # the kernel prints every socket that has no struct socket any more (TIME_WAIT, SYN_RECV request socks,
        # orphaned FIN_WAIT1/2, CLOSING, LAST_ACK) with inode 0: several lines of one file share inode 0 and
        # nobody holds `socket:[0]`; each of them is a socket of its own and must be reported
        inet = [c for c in classes if c[0] != "unix"]
        for _ in range(rng.randrange(2, 6)):
            t = gen_sock(rng, rng.choice(inet) if rng.random() < 0.3 else inet[0], 0)
            if t["typ"] == 1:
                t["state"] = rng.choice([6, 6, 6, 3, 4, 5, 9, 11])
            socks.insert(rng.randrange(len(socks) + 1), t)
    if family == "crossinode":
        # ONE inode number printed in several tables (retrieve hands one dict to every process_inet / process_unix call
        # of a query, so what an earlier table looked up must not matter to a later one). The kernel does this with
        # inode 0 — every socket without a struct socket: TIME_WAIT / SYN_RECV / orphans in net/tcp{,6}, connections not
        # yet accept()ed in net/unix (printed with the listener's name) — and nothing in the statement excludes a
        # non-zero number showing up twice (sockfs inode numbers wrap; a socket closed and its number reused between
        # the reading of two tables). Dimensions: which classes share (inet+unix, inet+inet, unix+unix, 2..5 sockets),
        # 0 / non-zero, held by 0..n descriptors, position in the table.
        for _ in range(rng.choice([1, 1, 2, 3])):
            ino = 0 if rng.random() < 0.5 else rng.choice([1, 7, rng.randrange(1, 99999), rng.randrange(1, 2**32)])
            r = rng.random()
            inet = [c for c in classes if c[0] != "unix"] or classes
            unix = [c for c in classes if c[0] == "unix"] or classes
            if r < 0.6:
                group = [rng.choice(inet), rng.choice(unix)] + [rng.choice(classes) for _ in range(rng.choice([0, 0, 1, 3]))]
            elif r < 0.8:
                group = [rng.choice(inet) for _ in range(rng.choice([2, 3]))]
            else:
                group = [rng.choice(unix) for _ in range(rng.choice([2, 3]))]
            rng.shuffle(group)
            listeners = [s for s in socks if s["fam"] == "unix" and s["path"] is not None]
            for c in group:
                t = gen_sock(rng, c, ino)
                if c[0] == "unix" and ino == 0 and listeners and rng.random() < 0.6:
                    t["path"], t["typ"], t["state"] = rng.choice(listeners)["path"], 1, 3     # queued on that listener
                if c[0] != "unix" and c[1] == 1 and ino == 0:
                    t["state"] = rng.choice([6, 6, 3, 4, 5, 9, 11])
                socks.insert(rng.randrange(len(socks) + 1), t)
    if family == "twins" and socks:
        # indistinguishable sockets (same class/addresses, different inode): rows collapse only when owner-less
        for _ in range(rng.randrange(1, 3)):
            t = dict(rng.choice(socks))
            t["inode"] = rng.randrange(100000, 200000)
            socks.append(t)
    fds = {p: {} for p in pids}
    unlistable = {p for p in pids if rng.random() < 0.12}

    def new_fd(p):
        while True:
            fd = rng.choice([0, 1, 2, 3, 4, 5, 6, 7, 8, 9, 10, 11, 63, 255, 1023, rng.randrange(0, 70000)])
            if fd not in fds[p]:
                return fd
    if pids:
        for s in socks:
            k = rng.choice([0, 0, 1, 1, 1, 2, 2, 3]) if family not in ("shared", "consist") else rng.choice([1, 2, 3, 4])
            if s["inode"] == 0:
                k = 0                                               # nobody can hold `socket:[0]`
            elif family == "crossinode" and any(fd.get("s") == s["inode"] for p in pids for fd in fds[p].values() if fd):
                k = 0                                               # the shared number got its holders with the first socket
            for _ in range(k):
                p = rng.choice(pids)
                fds[p][new_fd(p)] = {"s": s["inode"]}
        for p in pids:
            for _ in range(rng.choice([0, 1, 2, 3])):
                r = rng.random()
                if r < 0.6:
                    t = {"o": (rng.choice(OTHERS_NOT_WF) if rng.random() < 0.03 else rng.choice(OTHERS)).hex()}
                elif r < 0.8:
                    t = {"s": inodes[-1 - rng.randrange(3)]}      # a socket shown in no net/* file (netlink, packet…)
                else:
                    t = None
                fds[p][new_fd(p)] = t
    fault_family = family in ("faults", "fatal", "listerr")
    if fault_family and pids:
        # descriptor races and errors: readlink fails on some descriptors (the world keeps no record of what they
        # referred to: a failing descriptor contributes nothing)
        pal = LINK_VANISHED * 3 + LINK_DENIED if family != "fatal" else LINK_VANISHED + LINK_DENIED + LINK_FATAL * 3
        for p in pids:
            for fd in list(fds[p]):
                if rng.random() < (0.25 if family != "listerr" else 0.05):
                    fds[p][fd] = {"e": rng.choice(pal)}
            for _ in range(rng.choice([0, 0, 1, 2])):
                fds[p][new_fd(p)] = {"e": rng.choice(pal)}
    procs = []
    for p in pids:
        if p in unlistable:
            procs.append([p, None])
        elif fault_family and rng.random() < (0.5 if family == "listerr" else 0.1):
            procs.append([p, {"err": rng.choice(LIST_SKIPPED * 3 + (LIST_FATAL if family != "faults" else []))}])
        else:
            items = list(fds[p].items())
            rng.shuffle(items)
            procs.append([p, [[fd, t] for fd, t in items]])
    w = {"socks": socks, "procs": procs, "v6": v6}
    if family == "addresses_be" or (family in ("mixed", "big", "nov6") and rng.random() < 0.1):
        # a big-endian host (s390x, ppc64): the kernel prints the address words in network order and the code takes
        # the `else:` branches of `if LITTLE_ENDIAN:`
        w["be"] = True
    if family == "nov6":
        # a Python that cannot format IPv6 addresses; mostly supports_ipv6() is false as well
        w["ntop6"] = True
        w["supv6"] = rng.random() < 0.15
    return w


LINK_VANISHED = ["ENOENT", "ESRCH", "EINVAL", "ENAMETOOLONG"]
LINK_DENIED = ["EACCES", "EPERM"]
LINK_FATAL = [5, 12, 40]                 # EIO, ENOMEM, ELOOP
LIST_SKIPPED = ["ENOENT", "ESRCH", "EACCES", "EPERM"]
LIST_FATAL = [5, 24, 12, "EINVAL"]        # EIO, EMFILE, ENOMEM; EINVAL is not caught for listdir


def world_env(world):
    return {"ntop6": bool(world.get("ntop6")), "supv6": bool(world.get("supv6", True)), "be": bool(world.get("be"))}


def gen_queries(rng, world, n=3, family=None):
    """Every query is made in one call mode drawn at random (plain call, oneshot() fresh / warm, as_dict(),
    the object process_iter() yields, a second call, the deprecated alias; system-wide: while oneshot() blocks
    are open). No mode may change the answer: the model side does not know the mode."""
    listable = [p for p, f in world["procs"] if isinstance(f, list)]
    if family == "consist":
        # one kind, asked system-wide and of every process whose descriptors can be listed: the answers are also
        # compared with each other (check_consistency)
        kind = rng.choice(KINDS)
        qs = [{"kind": kind, "pid": None}] + [{"kind": kind, "pid": p} for p in listable]
        for q in qs:
            q["modes"] = [rng.choice(modes_for(q))]
        return qs
    qs = [{"kind": "all", "pid": None}]
    if family == "crossinode":
        # 'all' walks every table over the one dict; 'inet' and 'unix' for the union check (C11_all_is_union); the
        # remaining queries are drawn as usual
        qs += [{"kind": "inet", "pid": None}, {"kind": "unix", "pid": None}]
        n = max(n, 5)
    faulty = family in ("faults", "fatal", "listerr")
    anyproc = [p for p, f in world["procs"] if f is not None] if faulty else listable
    for _ in range(n - len(qs)):
        r = rng.random()
        kind = rng.choice(KINDS) if r < 0.93 else rng.choice(BOGUS)
        if rng.random() < 0.25:
            kind = "inet"                              # the only kind as_dict() can ask for
        pid = rng.choice(anyproc) if anyproc and rng.random() < (0.6 if faulty else 0.45) else None
        qs.append({"kind": kind, "pid": pid})
    for q in qs:
        q["modes"] = [rng.choice(modes_for(q))]
    return qs


BOGUS = ["", "TCP", "tcp ", " tcp", "inet5", "unix6", "all ", "ALL", "tcp4,udp4", "ip", "ipv4", "raw", "unix4", "inet46",
         "tcp\n", "None", "0", "udplite", "sctp", "icmp", "any", "*", "tcp46", "stream", "dgram"]


def exhaustive_world():
    """One socket of every (family, type) class in every holder situation; every TCP state."""
    socks = []
    procs = {10: {}, 20: {}, 30: {}}
    inode = [5000]
    fdn = {10: 3, 20: 3, 30: 3}

    def add(cls, holders, **kw):
        inode[0] += 1
        s = {"fam": cls[0], "typ": cls[1], "lip": "", "lport": 0, "rip": "", "rport": 0, "state": 1, "path": None,
             "inode": inode[0], "txq": 0, "rxq": 0, "uid": 1000, "refcnt": 2, "flags": 0}
        if cls[0] == "inet4":
            s.update(lip="7f000001", lport=1000 + len(socks), rip="0a000005", rport=0)
        if cls[0] == "inet6":
            s.update(lip="00000000000000000000ffff7f000001", lport=1000 + len(socks),
                     rip="fe800000000000000000000000000001", rport=443)
        if cls[0] == "unix":
            s.update(path=("/run/s%d x" % len(socks)).encode().hex())
        if cls[1] == 2 and cls[0] != "unix":
            s["state"] = 7
        s.update(kw)
        socks.append(s)
        for p in holders:
            procs[p][fdn[p]] = {"s": s["inode"]}
            fdn[p] += 1
    for cls in CLASSES:
        for holders in ([], [10], [10, 10], [10, 20], [20, 30, 30]):
            add(cls, holders)
    for st in range(1, 12):
        add(("inet4", 1), [30], state=st)
    for cls in (("inet4", 1), ("inet6", 1)):
        for st in (6, 6, 3):
            add(cls, [], state=st)
            socks[-1]["inode"] = 0                                 # ownerless: the kernel prints inode 0
        add(("inet6", 1), [], state=st)
    return {"socks": socks, "v6": True,
            "procs": [[p, [[fd, t] for fd, t in sorted(f.items())]] for p, f in sorted(procs.items())]}


def _plain_sock(cls, inode, n, **kw):
    s = {"fam": cls[0], "typ": cls[1], "lip": "", "lport": 0, "rip": "", "rport": 0, "state": 1, "path": None,
         "inode": inode, "txq": 0, "rxq": 0, "uid": 1000, "refcnt": 2, "flags": 0}
    if cls[0] == "inet4":
        s.update(lip="7f000001", lport=3000 + n, rip="0a000005", rport=50000 + n)
    if cls[0] == "inet6":
        s.update(lip="00000000000000000000ffff7f000001", lport=3000 + n, rip="fe800000000000000000000000000001", rport=443)
    if cls[0] == "unix":
        s.update(path=("/run/c%d.sock" % n).encode().hex())
    if cls[0] != "unix":
        s["state"] = 6 if cls[1] == 1 else 7
    s.update(kw)
    return s


HOLDER_SITUATIONS = {"none": [], "one": [(10, 3)], "two-procs": [(10, 3), (20, 4)], "one-proc-twice": [(20, 5), (20, 6)]}


def crosstable_worlds():
    """Structured part of the cross-table family: ONE inode number on a socket of EVERY class (tcp4, udp4, tcp6, udp6,
    unix stream / dgram / seqpacket) — 0 (nobody can hold it) and a non-zero number in each holder situation — next to
    an ordinary held socket of every class. -> [(label, world)]"""
    out = []
    for ino, sits in ((0, ["none"]), (4242, list(HOLDER_SITUATIONS))):
        for sit in sits:
            socks = [_plain_sock(c, ino, i) for i, c in enumerate(CLASSES)]
            procs = {10: {}, 20: {}, 30: {}}
            for pid, fd in HOLDER_SITUATIONS[sit]:
                procs[pid][fd] = {"s": ino}
            for i, c in enumerate(CLASSES):
                socks.append(_plain_sock(c, 9000 + i, 100 + i))
                procs[30][10 + i] = {"s": 9000 + i}
            out.append(("inode %d on every class, holders: %s" % (ino, sit),
                        {"socks": socks, "v6": True,
                         "procs": [[p, [[fd, t] for fd, t in sorted(f.items())]] for p, f in sorted(procs.items())]}))
    return out


def crosstable_pairs():
    """Small exhaustive part: every ORDERED pair of classes (7 x 7, the order is the order of the lines when both are of
    one table) sharing one inode number, for inode 0 / a non-zero number held by nobody / by one descriptor / by two
    processes. -> [(label, world)]"""
    out = []
    for a in CLASSES:
        for b in CLASSES:
            for ino, sit in ((0, "none"), (777, "none"), (777, "one"), (777, "two-procs")):
                procs = {10: {}, 20: {}}
                for pid, fd in HOLDER_SITUATIONS[sit]:
                    procs[pid][fd] = {"s": ino}
                procs[10][9] = {"s": 555}
                socks = [_plain_sock(a, ino, 1), _plain_sock(b, ino, 2), _plain_sock(("unix", 2), 555, 3)]
                out.append(("%s/%d + %s/%d share inode %d (%s)" % (a[0], a[1], b[0], b[1], ino, sit),
                            {"socks": socks, "v6": True,
                             "procs": [[p, [[fd, t] for fd, t in sorted(f.items())]] for p, f in sorted(procs.items())]}))
    return out


def faults_world():
    """Every socket class held through descriptors next to failing ones: one process per readlink errno class
    (vanished x4, denied x2, fatal), one process per listdir outcome, one clean process."""
    socks = []
    inode = [7000]

    def sock(cls):
        inode[0] += 1
        s = {"fam": cls[0], "typ": cls[1], "lip": "", "lport": 0, "rip": "", "rport": 0, "state": 1, "path": None,
             "inode": inode[0], "txq": 0, "rxq": 0, "uid": 1000, "refcnt": 2, "flags": 0}
        if cls[0] == "inet4":
            s.update(lip="7f000001", lport=2000 + len(socks), rip="0a000005", rport=0)
        if cls[0] == "inet6":
            s.update(lip="00000000000000000000ffff7f000001", lport=2000 + len(socks),
                     rip="fe800000000000000000000000000001", rport=443)
        if cls[0] == "unix":
            s.update(path=("/run/f%d" % len(socks)).encode().hex())
        if cls[1] == 2 and cls[0] != "unix":
            s["state"] = 7
        socks.append(s)
        return s["inode"]
    procs = []
    pid = 100
    shared = sock(("unix", 1))
    for e in LINK_VANISHED + LINK_DENIED + [5]:
        pid += 1
        own = [sock(c) for c in (("inet4", 1), ("inet6", 2), ("unix", 2))]
        fds = [[3, {"s": own[0]}], [4, {"e": e}], [5, {"s": own[1]}], [6, {"s": shared}], [7, {"s": own[2]}]]
        procs.append([pid, fds])
    for e in LIST_SKIPPED + [5, 24, "EINVAL"]:
        pid += 1
        sock(("inet4", 2))
        procs.append([pid, {"err": e}])
    procs.append([pid + 1, [[3, {"s": shared}], [4, {"s": sock(("inet6", 1))}]]])
    procs.append([pid + 2, [[0, {"e": "ENOENT"}], [1, {"e": "ESRCH"}]]])       # only vanished descriptors: no sockets
    return {"socks": socks, "procs": procs, "v6": True}


# ------------------------------------------------------------------------------ malformed stream (impl vs model only)


def mutate_files(rng, files):
    """Return (files', description) with one net/* file damaged."""
    names = [n for n in NET_NAMES if files.get(n) is not None]
    n = rng.choice(names)
    lines = files[n].split(b"\n")
    body = [i for i in range(1, len(lines)) if lines[i]]
    how = rng.choice(["missing_v6", "missing_v4", "short", "status", "lower", "badport", "port0garbage", "nocolon",
                      "empty_line", "oddhex", "unix_short_nospace", "unix_short_space", "unix_type", "no_trailing_nl",
                      "shortaddr"])
    f2 = dict(files)
    if how == "missing_v6":
        f2[rng.choice(["tcp6", "udp6"])] = None
        return f2, how
    if how == "missing_v4":
        f2[rng.choice(["tcp", "udp", "unix"])] = None
        return f2, how
    if how == "no_trailing_nl":
        f2[n] = files[n].rstrip(b"\n")
        return f2, how
    if how == "empty_line":
        lines.insert(rng.randrange(1, len(lines)), b"")
        f2[n] = b"\n".join(lines)
        return f2, how
    if not body:
        return f2, "none"
    i = rng.choice(body)
    toks = lines[i].split()
    if n == "unix":
        if how == "unix_short_nospace":
            lines[i] = b"0" * 40
        elif how == "unix_short_space":
            lines[i] = b" ".join(toks[:rng.randrange(1, 7)])
        elif how == "unix_type":
            toks[4] = rng.choice([b"000A", b"00FF", b"x", b"0010", b"9"])
            lines[i] = b" ".join(toks)
        else:
            lines[i] = b" ".join(toks[:rng.randrange(0, 9)])
    else:
        if how == "short":
            lines[i] = b" ".join(toks[:rng.randrange(0, 10)])
        elif how == "status":
            toks[3] = rng.choice([b"0C", b"00", b"0a", b"A", b"1", b"FF"])
        elif how == "lower":
            toks[1] = toks[1].lower()
        elif how == "badport":
            toks[2] = toks[2].split(b":")[0] + b":" + rng.choice([b"", b"G000", b"zz", b"12345"])
        elif how == "port0garbage":
            toks[1] = b"nothex:0000"
        elif how == "nocolon":
            toks[1] = toks[1].replace(b":", rng.choice([b"", b"::"]))
        elif how == "oddhex":
            toks[1] = toks[1][1:]
        elif how == "shortaddr":
            toks[2] = toks[2][8:] if rng.random() < 0.5 else b"00" + toks[2]
        if how != "short":
            lines[i] = b" ".join(toks)
    f2[n] = b"\n".join(lines)
    return f2, how


# ------------------------------------------------------------------------------ correspondence


def world_line(world, listed, queries):
    """Driver input: the world with descriptor tables in the order the implementation lists them."""
    env = world_env(world)
    line = {"op": "world", "socks": world["socks"], "procs": listed, "v6": world["v6"], "ntop6": env["ntop6"],
            "supv6": env["supv6"], "queries": [{"kind": q["kind"], "pid": q.get("pid")} for q in queries]}
    if env["be"]:
        line["le"] = False                 # kernel renderer and model of a big-endian host
    return line


def features(world, listed):
    f = set()
    holders = {}
    for pid, fds in listed:
        if fds is None:
            f.add("proc:unlistable")
            continue
        if isinstance(fds, dict):
            f.add("listdir:%s" % fds["err"])
            continue
        denied = any(t and t.get("e") in LINK_DENIED for _, t in fds)
        for fd, t in fds:
            if t and "s" in t and not denied:
                holders.setdefault(t["s"], []).append((pid, fd))
            if t and "e" in t:
                f.add("readlink:%s" % t["e"])
        if denied:
            f.add("proc:denied-by-readlink")
    if world.get("ntop6"):
        f.add("env:ntop6-fails/supports_ipv6=%s" % bool(world.get("supv6", True)))
    if world.get("be"):
        f.add("env:big-endian host (LITTLE_ENDIAN=False)")
    for s in world["socks"]:
        f.add("class:%s/%d" % (s["fam"], s["typ"]))
        h = holders.get(s["inode"], [])
        np = len({p for p, _ in h})
        f.add("holders:%s" % ("0" if not h else "1" if len(h) == 1 else "n-one-proc" if np == 1 else "n-many-procs"))
        if s["fam"] == "unix":
            p = None if s["path"] is None else bytes.fromhex(s["path"])
            f.add("path:" + ("none" if p is None else "abstract" if p.startswith(b"@") and b" " not in p else
                             "blank" if b" " in p else "plain"))
        else:
            if s["typ"] == 1:
                f.add("state:%d" % s["state"])
            for ip, port in ((s["lip"], s["lport"]), (s["rip"], s["rport"])):
                f.add("port:" + ("0" if port == 0 else "n"))
                if s["fam"] == "inet6":
                    f.add("addr6:" + ("zero" if set(ip) == {"0"} else "mapped" if ip.startswith("0" * 20 + "ffff") else
                                      "linklocal" if ip.startswith("fe80") else "other"))
                else:
                    f.add("addr4:" + ("zero" if set(ip) == {"0"} else "other"))
    if not world["v6"]:
        f.add("no-ipv6")
    by_ino = {}
    for s in world["socks"]:
        by_ino.setdefault(s["inode"], []).append(s)
    for ino, ss in by_ino.items():
        if ino == 0 and any(s["fam"] == "unix" for s in ss):
            f.add("inode0:unix socket (connection not yet accepted)")
        if len(ss) < 2:
            continue
        tables = {"unix" if s["fam"] == "unix" else "%s%s" % ("tcp" if s["typ"] == 1 else "udp", "6" if s["fam"] == "inet6" else "")
                  for s in ss}
        fams = {"unix" if s["fam"] == "unix" else "inet" for s in ss}
        f.add("inode-shared:%s, %s, %s" % ("+".join(sorted(fams)), "one table" if len(tables) == 1 else "several tables",
                                           "inode 0" if ino == 0 else "held" if holders.get(ino) else "non-zero, no holder"))
    return f


def stage_world(impl, world):
    """Build the fake tree for `world`; -> (files, listed) with `listed` = the descriptor tables in the order
    the implementation will list them, abstract targets."""
    files = py_render(world)
    procs_b = [[pid, render_listing(fds)] for pid, fds in world["procs"]]
    socks = [s["inode"] for s in world["socks"] if s["inode"]]
    impl.decoy = b"socket:[%d]" % (socks[0] if socks else 1)
    listed_b = impl.build(files, procs_b)
    tmap = {pid: (dict((fd, t) for fd, t in fds) if isinstance(fds, list) else fds) for pid, fds in world["procs"]}
    listed = [[pid, [[fd, tmap[pid][fd]] for fd, _ in fds] if isinstance(fds, list) else tmap[pid]] for pid, fds in listed_b]
    return files, listed


def compare(im, mo):
    """implementation outcome vs model outcome (same canonical form)"""
    im_c = dict(im)
    if im_c.get("kind") == "rows" and not im_c["rows"]:
        im_c.pop("ntuple", None)
    return im_c == mo


def run_worlds(ctx, impl, items, res, tag_prefix=""):
    """items: [(tag, world, queries)] — executes impl (every query in each of its modes), then one driver batch,
    then compares."""
    staged = []
    for tag, world, queries in items:
        files, listed = stage_world(impl, world)
        env = world_env(world)
        outs = []
        for q in queries:
            outs.append(impl.query_modes(q, env))
            for k, v in impl.fault_hits.items():
                if v:
                    res.count("injected:" + k, v)
        staged.append((tag, world, listed, queries, files, outs))
    lines = [world_line(w, listed, qs) for _, w, listed, qs, _, _ in staged]
    drv = ctx.driver()
    answers = drv.batch(lines) if lines else []
    res.extra["driver_lines"] = res.extra.get("driver_lines", 0) + len(lines)
    for (tag, world, listed, queries, files, outs), ans in zip(staged, answers):
        if "bad" in ans:
            raise InfraError("driver rejected a world: %s" % ans["bad"])
        # renderer validation: Lean kernel-side renderer == printf renderer, byte for byte
        for n in NET_NAMES:
            lean_b = ans["files"].get(n)
            py_b = None if files[n] is None else files[n].hex()
            if lean_b != py_b:
                raise InfraError("renderer mismatch on net/%s: lean=%r python=%r" % (
                    n, None if lean_b is None else bytes.fromhex(lean_b), files[n]))
        feats = features(world, listed)
        for f in feats:
            res.count("world:" + f)
        res.count("family:" + tag)
        res.count("sockets", len(world["socks"]))
        for q, ims, r in zip(queries, outs, ans["results"]):
            mo = canon_model(r["model"])
            sp = r["spec"]
            res.count("query:%s/%s" % (q["kind"] if q["kind"] in KINDS else "<other>", "proc" if q["pid"] is not None else "sys"))
            nexp = len(sp.get("expects", [])) if sp["kind"] == "expects" else -1
            res.count("expect:" + ("unspecified (impl vs model)" if sp["kind"] == "unspecified" else
                                   "ValueError" if nexp < 0 else "0 rows" if nexp == 0 else "rows"))
            if mo.get("kind") == "exc":
                res.count("outcome:" + mo["exc"])
            for mode, im in ims:
                inp = {"world": dict(world, procs=listed), "query": dict(q, modes=[mode]), "source": tag}
                res.count("mode:%s/%s" % ("proc" if q["pid"] is not None else "sys", mode))
                res.case((world["socks"], listed, world_env(world), q["kind"], q["pid"], mode), nontrivial=nexp != 0,
                         sample={"query": q, "mode": mode, "sockets": len(world["socks"]),
                                 "impl_rows": im.get("rows", im)[:2] if im.get("kind") == "rows" else im}
                         if res.evaluations in (3, 40, 200) else None)
                ok, why = py_accepts(sp, im)
                if not ok:
                    res.disagree("spec", inp, im, mo, sp, note="%s [call mode: %s]" % (why, mode))
                    continue
                if nexp > 0 and im.get("kind") == "rows" and \
                        len(im["rows"]) < sum(len(e["owners"]) if e["all"] else 1 for e in sp["expects"]):
                    res.count("rows:fewer rows than requested sockets — indistinguishable sockets collapse (C11_rows_count_twins)")
                if not r["accepts"]:
                    res.disagree("model", inp, im, mo, sp, note="the Lean model's rows are not accepted by the specification (C11_rows_exact would be contradicted)")
                    continue
                if not compare(im, mo):
                    res.disagree("model", inp, im, mo, sp, note="implementation differs from the Lean model [call mode: %s]%s" % (
                        mode, "" if sp["kind"] == "unspecified" else " (both satisfy the specification)"))
            if world.get("ntop6") and q["pid"] is not None and sp["kind"] == "expects":
                res.count("nov6:per-process query against the promise for dropV6 (C11_noipv6_rows_process)")
        if tag in ("consist", "corpus"):
            check_consistency(world, listed, queries, outs, res, tag)
        if tag in ("crossinode", "corpus", "exhaustive_crosstable", "exhaustive_crosstable_pairs"):
            check_union(world, listed, queries, outs, res, tag)


def check_union(world, listed, queries, outs, res, tag):
    """'all' = the sum of all families and protocols: the system-wide answers of the REAL code for kind 'all', 'inet' and
    'unix' over one tree must satisfy rows(all) = rows(inet) | rows(unix) (theorem C11_all_is_union: the tables read
    first take nothing away from — and add nothing to — the later ones)."""
    got = {}
    for q, ims in zip(queries, outs):
        if q["pid"] is None and q["kind"] in ("all", "inet", "unix") and q["kind"] not in got:
            got[q["kind"]] = ims[0]
    if len(got) < 3 or any(im.get("kind") != "rows" for _, im in got.values()):
        return
    res.count("union:rows('all') compared with rows('inet') | rows('unix') of the real code")
    ka = {_rowkey(r) for r in got["all"][1]["rows"]}
    ku = {_rowkey(r) for r in got["inet"][1]["rows"]} | {_rowkey(r) for r in got["unix"][1]["rows"]}
    if ka != ku:
        mode, im = got["all"]
        inp = {"world": dict(world, procs=listed), "query": {"kind": "all", "pid": None, "modes": [mode]}, "source": tag}
        res.disagree("model", inp, im, {"kind": "rows", "rows": got["inet"][1]["rows"] + got["unix"][1]["rows"]}, None,
                     note="net_connections('all') is not net_connections('inet') | net_connections('unix') (C11_all_is_union): "
                          "missing %s, extra %s" % (sorted(ku - ka)[:2], sorted(ka - ku)[:2]))


def check_consistency(world, listed, queries, outs, res, tag):
    """System-wide vs per-process answers of the REAL code for one kind (theorems C11_system_rows_in_process,
    C11_process_rows_in_system, C11_inet_first_holder): every system-wide row with pid p is, pid removed, a row of
    Process(p); every row of Process(p) is, with pid p, a system-wide row — unless it is a TCP/UDP socket whose first
    holder in listing order is another process (then the system-wide list shows it under that process)."""
    holders = {}                                  # inode -> [(pid, fd)…] in listing order
    target = {}
    for pid, fds in listed:
        if not isinstance(fds, list):
            continue
        for fd, t in fds:
            if t and "s" in t:
                holders.setdefault(t["s"], []).append((pid, fd))
                target[(pid, fd)] = t["s"]
    sysrows = {}
    for q, ims in zip(queries, outs):
        if q["pid"] is None and ims[0][1].get("kind") == "rows":
            sysrows[q["kind"]] = ims[0][1]["rows"]
    for q, ims in zip(queries, outs):
        p = q["pid"]
        if p is None or q["kind"] not in sysrows or ims[0][1].get("kind") != "rows":
            continue
        mode, im = ims[0]
        rows_p = im["rows"]
        rows_s = sysrows[q["kind"]]
        res.count("consist:pairs (system-wide, process) of one kind")
        keys_p = {_rowkey(r) for r in rows_p}
        keys_s = {_rowkey(r) for r in rows_s}
        inp = {"world": dict(world, procs=listed), "query": dict(q, modes=[mode]), "source": tag}
        for r in rows_s:
            if r["pid"] == p:
                res.count("consist:system-wide rows carrying the pid")
                if _rowkey(dict(r, pid=None)) not in keys_p:
                    res.disagree("model", inp, im, {"kind": "rows", "rows": rows_s}, None,
                                 note="system-wide row %s is not returned by Process(%d).net_connections(%r)" % (
                                     json.dumps(r, sort_keys=True), p, q["kind"]))
        for r in rows_p:
            res.count("consist:per-process rows")
            if _rowkey(dict(r, pid=p)) in keys_s:
                continue
            first = holders.get(target.get((p, r["fd"])), [(None, None)])[0]
            if r["family"] != socket.AF_UNIX and first[0] not in (None, p):
                res.count("consist:inet socket shown system-wide under an earlier holder")
                continue
            res.disagree("model", inp, im, {"kind": "rows", "rows": rows_s}, None,
                         note="row %s of Process(%d) has no system-wide counterpart with pid %d (first holder: %s)" % (
                             json.dumps(r, sort_keys=True), p, p, list(first)))


def _raw_link(t):
    return None if t is None else {"e": t[1]} if isinstance(t, tuple) else t.hex()


def run_raw(ctx, impl, items, res):
    staged = []
    for how, files, procs_b, queries, env in items:
        listed_b = impl.build(files, procs_b)
        outs = [impl.query(q, env) for q in queries]
        staged.append((how, files, listed_b, queries, outs, env))
    lines = [{"op": "raw", "files": {n: (None if files.get(n) is None else files[n].hex()) for n in NET_NAMES},
              "procs": [[pid, None if fds is None else {"err": fds[1]} if isinstance(fds, tuple) else
                         [[fd, _raw_link(t)] for fd, t in fds]] for pid, fds in listed],
              "ntop6": bool(env.get("ntop6")), "supv6": bool(env.get("supv6", True)),
              **({"le": False} if env.get("be") else {}),
              "queries": qs} for _, files, listed, qs, _, env in staged]
    answers = ctx.driver().batch(lines) if lines else []
    res.extra["driver_lines"] = res.extra.get("driver_lines", 0) + len(lines)
    for (how, files, listed, queries, outs, env), ans, line in zip(staged, answers, lines):
        if "bad" in ans:
            raise InfraError("driver rejected raw files: %s" % ans["bad"])
        res.count("malformed:" + how + ("/no-ipv6-text" if env.get("ntop6") else "") + ("/big-endian" if env.get("be") else ""))
        for q, im, r in zip(queries, outs, ans["results"]):
            mo = canon_model(r["model"])
            res.count("malformed-outcome:" + (im.get("exc") or "rows"))
            res.case(("raw", line["files"], line["procs"], line["ntop6"], line["supv6"], line.get("le"), q), nontrivial=im.get("kind") == "exc")
            if not compare(im, mo):
                res.disagree("model", {"raw": {"files": line["files"], "procs": line["procs"], "env": env}, "query": q, "source": "malformed:" + how},
                             im, mo, None, note="malformed input (%s): implementation differs from the Lean model" % how)


FAMILIES = ["mixed", "unix_paths", "addresses", "shared", "twins", "ownerless", "faults", "big",
            "mixed", "nov6", "listerr", "fatal", "consist", "addresses_be", "crossinode"]

CORPUS = [
    # L11: UNIX socket bound to a path containing a blank
    {"socks": [{"fam": "unix", "typ": 1, "lip": "", "lport": 0, "rip": "", "rport": 0, "state": 1,
                "path": b"/tmp/my sock".hex(), "inode": 20001, "txq": 0, "rxq": 0, "uid": 0, "refcnt": 2, "flags": 65536}],
     "procs": [[10, [[3, {"s": 20001}]]]], "v6": True},
    # L12: UNIX socket held by two processes
    {"socks": [{"fam": "unix", "typ": 5, "lip": "", "lport": 0, "rip": "", "rport": 0, "state": 1,
                "path": b"@abs".hex(), "inode": 20002, "txq": 0, "rxq": 0, "uid": 0, "refcnt": 3, "flags": 0}],
     "procs": [[10, [[3, {"s": 20002}], [4, {"s": 20002}]]], [20, [[5, {"s": 20002}]]]], "v6": True},
    # docstring examples of decode_address
    {"socks": [{"fam": "inet4", "typ": 1, "lip": "0a000005", "lport": 22, "rip": "00000000", "rport": 0, "state": 10,
                "path": None, "inode": 7, "txq": 0, "rxq": 0, "uid": 0, "refcnt": 2, "flags": 0},
               {"fam": "inet6", "typ": 1, "lip": "00000000000000000000ffff7f000001", "lport": 40521,
                "rip": "00000000000000000000000000000001", "rport": 80, "state": 1,
                "path": None, "inode": 8, "txq": 0, "rxq": 0, "uid": 0, "refcnt": 2, "flags": 0}],
     "procs": [[1, [[3, {"s": 7}]]]], "v6": True},
    # seeded C11-1: three TIME_WAIT sockets, all printed with inode 0, next to a held LISTEN socket
    {"socks": [{"fam": "inet4", "typ": 1, "lip": "7f000001", "lport": 8080, "rip": "00000000", "rport": 0, "state": 10,
                "path": None, "inode": 3001, "txq": 0, "rxq": 0, "uid": 0, "refcnt": 2, "flags": 0}] +
              [{"fam": "inet4", "typ": 1, "lip": "7f000001", "lport": 8080, "rip": "7f000001", "rport": 40000 + i, "state": 6,
                "path": None, "inode": 0, "txq": 0, "rxq": 0, "uid": 0, "refcnt": 2, "flags": 0} for i in range(3)],
     "procs": [[100, [[3, {"s": 3001}]]]], "v6": True},
    # worldFork (C11_sys_proc_shared_inet_counterexample, C11_inet_first_holder): a listening TCP socket held by two
    # processes after fork(); whichever is listed first is the one the system-wide list shows
    {"socks": [{"fam": "inet4", "typ": 1, "lip": "7f000001", "lport": 80, "rip": "00000000", "rport": 0, "state": 10,
                "path": None, "inode": 7, "txq": 0, "rxq": 0, "uid": 0, "refcnt": 2, "flags": 0}],
     "procs": [[10, [[3, {"s": 7}]]], [20, [[5, {"s": 7}]]]], "v6": True},
    # worldTwins (C11_rows_count_twins, C11_rows_count_Full_false): two unbound UNIX stream sockets nobody visible holds
    # give ONE row (rows are value tuples collected in a set); next to them a process so that per-process queries exist
    {"socks": [{"fam": "unix", "typ": 1, "lip": "", "lport": 0, "rip": "", "rport": 0, "state": 1,
                "path": None, "inode": 501 + i, "txq": 0, "rxq": 0, "uid": 0, "refcnt": 2, "flags": 0} for i in range(2)],
     "procs": [[10, []]], "v6": True},
    # worldPending (C11_pending_unix_reported, C11_shared_map_counterexample; seeded C11-4): a TIME_WAIT TCP socket and a
    # UNIX connection still queued on the listener /run/srv.sock — the kernel prints both with inode 0, nobody holds them
    {"socks": [{"fam": "inet4", "typ": 1, "lip": "7f000001", "lport": 8080, "rip": "7f000001", "rport": 40000, "state": 6,
                "path": None, "inode": 0, "txq": 0, "rxq": 0, "uid": 0, "refcnt": 2, "flags": 0},
               {"fam": "unix", "typ": 1, "lip": "", "lport": 0, "rip": "", "rport": 0, "state": 3,
                "path": b"/run/srv.sock".hex(), "inode": 0, "txq": 0, "rxq": 0, "uid": 0, "refcnt": 2, "flags": 0},
               {"fam": "unix", "typ": 1, "lip": "", "lport": 0, "rip": "", "rport": 0, "state": 1,
                "path": b"/run/srv.sock".hex(), "inode": 7001, "txq": 0, "rxq": 0, "uid": 0, "refcnt": 2, "flags": 65536}],
     "procs": [[100, [[4, {"s": 7001}]]]], "v6": True},
]


def correspond(ctx, res):
    impl = Impl(ctx)
    rng = ctx.rng
    try:
        res.rule = ("(world, query, call mode) triples: worlds = random socket tables + descriptor tables from 13 clause-directed "
                    "families (PRNG from VERIF_SEED; incl. failing readlink/listdir by errno class and a Python without IPv6 "
                    "text support), corpus witnesses in every call mode, exhaustive kind x caller x mode sweeps, and a "
                    "malformed-file stream; non-trivial = the specification promises at least one row or an exception; "
                    "distinct = distinct (socket table, listing, host flags, query, mode)")
        items = []
        for w in CORPUS:
            p0 = w["procs"][0][0]
            cq = [{"kind": "all", "pid": None}, {"kind": "unix", "pid": p0}, {"kind": "all", "pid": p0},
                  {"kind": "inet", "pid": None}, {"kind": "inet", "pid": p0}]
            cq += [{"kind": k, "pid": p} for k in ("all", "inet") for p, _ in w["procs"][1:]]
            cq.append({"kind": "unix", "pid": None})
            for q in cq:
                q["modes"] = modes_for(q)              # the witnesses are replayed in every call mode
            items.append(("corpus", w, cq))
        n = ctx.n(1200, 30000)
        for i in range(n):
            fam = FAMILIES[i % len(FAMILIES)]
            w = gen_world(rng, fam)
            items.append((fam, w, gen_queries(rng, w, family=fam)))
        # exhaustive: all 11 kinds x every (family, type) class x holder situation, system-wide and per process,
        # plus arbitrary other strings as kind
        xw = exhaustive_world()
        others = list(BOGUS)
        while len(others) < (40 if ctx.tier == "quick" else 200):
            k = "".join(rng.choice("tcpudinexal46 _-AU") for _ in range(rng.randrange(0, 7)))
            if k not in KINDS:
                others.append(k)
        xq = [{"kind": k, "pid": p} for k in KINDS + others for p in (None, 10, 20, 30)]
        for q in xq:
            # the 11 kinds: every call mode of the caller; other strings: one mode each, in rotation
            ms = modes_for(q)
            q["modes"] = ms if q["kind"] in KINDS else [ms[len(q["kind"]) % len(ms)]]
        items.append(("exhaustive", xw, xq))
        # the same sweep with descriptor failures of every class and a process of every listing outcome
        fw = faults_world()
        fq = [{"kind": k, "pid": p} for k in KINDS for p in [None] + [p for p, _ in fw["procs"]]]
        for q in fq:
            q["modes"] = modes_for(q)
        items.append(("exhaustive_faults", fw, fq))
        for sup in (False, True):
            nw = dict(exhaustive_world(), ntop6=True, supv6=sup)
            nq = [{"kind": k, "pid": p, "modes": ["plain"]} for k in KINDS for p in (None, 10, 20, 30)]
            items.append(("exhaustive_nov6", nw, nq))
        # the 11 kinds x 4 callers on a big-endian host (the `else:` branches of decode_address)
        bw = dict(exhaustive_world(), be=True)
        items.append(("exhaustive_be", bw, [{"kind": k, "pid": p, "modes": ["plain"]} for k in KINDS for p in (None, 10, 20, 30)]))
        # one inode number in several tables (the dict `inodes` is shared by all the tables of a query): the number on a
        # socket of every class x holder situation, 11 kinds x every caller x every call mode; then every ordered pair of
        # classes x 4 situations, 11 kinds system-wide + `all` of each process
        for label, cw in crosstable_worlds():
            cq = [{"kind": k, "pid": p} for k in KINDS for p in (None, 10, 20, 30)]
            for q in cq:
                q["modes"] = modes_for(q)
            items.append(("exhaustive_crosstable", cw, cq))
        for label, cw in crosstable_pairs():
            cq = [{"kind": k, "pid": None, "modes": ["plain"]} for k in KINDS]
            cq += [{"kind": "all", "pid": p, "modes": ["plain"]} for p in (10, 20)]
            items.append(("exhaustive_crosstable_pairs", cw, cq))
        CH = 400
        for a in range(0, len(items), CH):
            run_worlds(ctx, impl, items[a:a + CH], res)
        res.exhaustive = ("kind sweep: all 11 kinds + %d other strings x {system-wide, each of 3 processes} over one table holding "
                          "every (family,type) class (tcp4, tcp6, udp4, udp6, unix stream/dgram/seqpacket) in 5 holder situations "
                          "and all 11 TCP states for tcp4/tcp6, each of the 11 kinds in EVERY call mode (3 system-wide, 6-7 per "
                          "process); the same 11 kinds x every call mode over a table whose descriptors fail with each errno "
                          "class and whose processes show each listdir outcome; the 11 kinds x 4 callers with inet_ntop "
                          "refusing AF_INET6 (supports_ipv6() false / true); one inode number on a socket of every class "
                          "(inode 0, and a non-zero number in 4 holder situations) x 11 kinds x 4 callers x every call mode, and "
                          "every ordered pair of the 7 classes sharing inode 0 / a non-zero number held by nobody / one descriptor "
                          "/ two processes x 11 kinds system-wide + kind all of each process; the random worlds are samples" % len(others))
        # non-string kinds: the statement only needs ValueError
        bad_objs = 0
        for k in (None, 0, 1.5, b"tcp", ("tcp",), ["tcp"], {"tcp"}, object()):
            for pid in (None, 10):
                stage_world(impl, xw)
                im = impl.query({"kind": k, "pid": pid})
                res.case(("nonstr", repr(type(k)), pid), nontrivial=True)
                res.count("query:<non-str>/%s" % ("proc" if pid else "sys"))
                bad_objs += 1
                if im != {"kind": "exc", "exc": "ValueError"}:
                    res.disagree("spec", {"nonstr_kind": repr(k), "pid": pid}, im, None, {"kind": "exc", "exc": "ValueError"},
                                 note="unknown kind must raise ValueError")
        # malformed stream
        raw_items = []
        for i in range(ctx.n(400, 6000)):
            w = gen_world(rng, "mixed")
            if not w["socks"]:
                continue
            w.pop("be", None)
            if i % 8 == 0:
                w["be"] = True                    # malformed files read on a big-endian host
            files = py_render(w)
            files2, how = mutate_files(rng, files)
            procs_b = [[pid, render_listing(fds)] for pid, fds in w["procs"]]
            listable = [p for p, f in w["procs"] if f is not None]
            qs = [{"kind": "all", "pid": None}]
            if listable and rng.random() < 0.4 and how != "missing_v4":
                qs.append({"kind": rng.choice(KINDS), "pid": rng.choice(listable)})
            env = {"ntop6": True, "supv6": rng.random() < 0.3} if rng.random() < 0.15 else {}
            if w.get("be"):
                env["be"] = True
            raw_items.append((how, files2, procs_b, qs, env))
        for a in range(0, len(raw_items), 400):
            run_raw(ctx, impl, raw_items[a:a + 400], res)
        try:
            n_live, bad_live = live_socket_check(ctx.psutil)
            res.extra["live_sockets_checked"] = n_live
            res.count("live:own socket — kernel line vs renderer, real code vs getsockname()", n_live)
            for b in bad_live:
                res.disagree("model", {"live_socket": b}, b.get("got"), None, b.get("want"),
                             note="live socket check: " + b["what"])
        except Exception as e:  # supporting validation only  # noqa: BLE001
            res.notes.append("live socket check skipped: %s: %s" % (type(e).__name__, e))
        try:
            checked, bad = live_format_check()
            res.extra["live_kernel_lines_rerendered"] = checked
            res.extra["live_kernel_format_mismatches"] = len(bad)
            if bad:
                res.notes.append("live /proc/net format differs from the renderer on %d line(s), e.g. %r" % (len(bad), bad[0]))
        except Exception as e:  # supporting validation only
            res.notes.append("live /proc/net format check skipped: %s" % e)
    finally:
        impl.close()


def search(ctx, res, broken):
    correspond(ctx, res)


# ------------------------------------------------------------------------------ renderer validation on the live kernel

import re

_INET_RE = re.compile(
    rb"^ *(\d+): ([0-9A-F]{8}|[0-9A-F]{32}):([0-9A-F]{4}) ([0-9A-F]{8}|[0-9A-F]{32}):([0-9A-F]{4}) ([0-9A-F]{2}) "
    rb"([0-9A-F]{8}):([0-9A-F]{8}) [0-9A-F]{2}:[0-9A-F]{8} [0-9A-F]{8} +(\d+) +(\d+) (\d+) ")
_UNIX_RE = re.compile(rb"^[0-9a-f]+: ([0-9A-F]{8}) ([0-9A-F]{8}) ([0-9A-F]{8}) ([0-9A-F]{4}) ([0-9A-F]{2}) +(\d+)(?: (.*))?$")


def live_format_check():
    """Supporting only (DESIGN §3.3): every line of the sandbox kernel's own /proc/net files is inverted
    with a strict parser into a socket record, re-rendered, and the columns psutil reads (and the
    spacing around them) must come back byte-identical. Returns (lines_checked, mismatches)."""
    checked, bad = 0, []
    for name, fam, typ in (("tcp", "inet4", 1), ("udp", "inet4", 2), ("tcp6", "inet6", 1), ("udp6", "inet6", 2)):
        try:
            with open("/proc/net/" + name, "rb") as f:
                lines = f.read().split(b"\n")[1:]
        except OSError:
            continue
        for ln in lines:
            if not ln:
                continue
            m = _INET_RE.match(ln)
            if not m:
                bad.append((name, ln[:80]))
                continue

            def unword(h):
                return b"".join(struct.pack("=I", int(h[i:i + 8], 16)) for i in range(0, len(h), 8)).hex()
            s = {"fam": fam, "typ": typ, "lip": unword(m.group(2)), "lport": int(m.group(3), 16),
                 "rip": unword(m.group(4)), "rport": int(m.group(5), 16), "state": int(m.group(6), 16),
                 "txq": int(m.group(7), 16), "rxq": int(m.group(8), 16), "uid": int(m.group(9)), "path": None,
                 "inode": int(m.group(11)), "refcnt": 2, "flags": 0}
            mine = py_render({"socks": [s], "procs": [], "v6": True})[name].split(b"\n")[1]
            # compare "<laddr> <raddr> <st> <txq>:<rxq>" and " <uid> <timeout> <inode>" with their exact spacing
            # (the timer / retransmit columns in between vary and are not read by psutil)
            m2 = _INET_RE.match(mine)
            checked += 1
            ok = m2 is not None and ln[m.start(2):m.end(8)] == mine[m2.start(2):m2.end(8)]
            if ok and int(m.group(10)) == 0:
                ok = ln[m.end(8) + 21:m.end(11)] == mine[m2.end(8) + 21:m2.end(11)]
            if ok and name in ("tcp", "udp"):
                ok = len(ln) == len(mine)
            if ok:
                ok = ln.split()[9] == mine.split()[9] and ln.split()[7] == mine.split()[7]
            if not ok:
                bad.append((name, ln[:100], mine[:100]))
    try:
        with open("/proc/net/unix", "rb") as f:
            lines = f.read().split(b"\n")[1:]
    except OSError:
        lines = []
    for ln in lines:
        if not ln:
            continue
        m = _UNIX_RE.match(ln)
        if not m:
            bad.append(("unix", ln[:80]))
            continue
        s = {"fam": "unix", "typ": int(m.group(4), 16), "lip": "", "lport": 0, "rip": "", "rport": 0,
             "state": int(m.group(5), 16), "txq": 0, "rxq": 0, "uid": 0, "refcnt": int(m.group(1), 16),
             "flags": int(m.group(3), 16), "inode": int(m.group(6)), "path": None if m.group(7) is None else m.group(7).hex()}
        mine = py_render({"socks": [s], "procs": [], "v6": True})["unix"].split(b"\n")[1]
        checked += 1
        if ln.split(b": ", 1)[1] != mine.split(b": ", 1)[1]:
            bad.append(("unix", ln[:100], mine[:100]))
    return checked, bad


def live_socket_check(ps):
    """Independent check of the byte-order convention (audit item 4): the harness binds real sockets, then
    (1) the running kernel's own /proc/net line for that inode must carry, in its local_address column, exactly what
        the printf renderer `_ep` gives for getsockname() (so the renderer's reading of "%08X per host-order word" is
        the kernel's), and
    (2) the real code over the real /proc must report that descriptor with laddr == getsockname().
    -> (number of comparisons, [mismatch…]); sockets the sandbox refuses are skipped."""
    n, bad = 0, []
    socks = []
    try:
        for fam, typ, addr, name in ((socket.AF_INET, socket.SOCK_STREAM, "127.0.0.1", "tcp"),
                                     (socket.AF_INET, socket.SOCK_DGRAM, "127.0.0.1", "udp"),
                                     (socket.AF_INET, socket.SOCK_STREAM, "127.1.2.3", "tcp"),
                                     (socket.AF_INET6, socket.SOCK_STREAM, "::1", "tcp6"),
                                     (socket.AF_INET6, socket.SOCK_DGRAM, "::1", "udp6"),
                                     (socket.AF_INET6, socket.SOCK_STREAM, "::ffff:127.0.0.1", "tcp6")):
            try:
                sk = socket.socket(fam, typ)
                sk.bind((addr, 0))
                if typ == socket.SOCK_STREAM:
                    sk.listen(1)
            except OSError:
                continue
            socks.append((sk, fam, typ, name))
        be = sys.byteorder == "big"
        for sk, fam, typ, name in socks:
            ip, port = sk.getsockname()[:2]
            ino = os.fstat(sk.fileno()).st_ino
            want = _ep(socket.inet_pton(fam, ip), port, be).encode()
            try:
                with open("/proc/net/" + name, "rb") as f:
                    lines = [ln.split() for ln in f.read().split(b"\n")[1:] if ln]
            except OSError:
                continue
            mine = [t for t in lines if len(t) > 9 and t[9] == str(ino).encode()]
            if len(mine) != 1:
                continue
            n += 1
            if mine[0][1] != want:
                bad.append({"what": "the kernel prints %s:%d as %r, the renderer as %r" % (ip, port, mine[0][1], want),
                            "got": mine[0][1].decode(), "want": want.decode()})
        if socks:
            old = ps.PROCFS_PATH
            reset_psutil_state(ps)
            ps.PROCFS_PATH = "/proc"
            try:
                rows = ps.Process(os.getpid()).net_connections("inet")
            finally:
                ps.PROCFS_PATH = old
                reset_psutil_state(ps)
            byfd = {r.fd: r for r in rows}
            for sk, fam, typ, name in socks:
                ip, port = sk.getsockname()[:2]
                r = byfd.get(sk.fileno())
                n += 1
                got = None if r is None else [int(r.family), int(r.type), list(r.laddr)]
                if got != [int(fam), int(typ), [ip, port]]:
                    bad.append({"what": "Process().net_connections('inet') over the real /proc shows fd %d as %r, getsockname() "
                                        "says %r" % (sk.fileno(), got, [int(fam), int(typ), [ip, port]]),
                                "got": got, "want": [int(fam), int(typ), [ip, port]]})
    finally:
        for sk, _, _, _ in socks:
            sk.close()
    return n, bad


# ------------------------------------------------------------------------------ replay / shrink


def _eval_world(ctx, impl, world, query):
    """-> (violates_spec, impl_out, model_out, spec_out, why); the query is made in each of its call modes, the
    first violating (else the last) outcome is reported"""
    files, listed = stage_world(impl, world)
    ims = impl.query_modes(query, world_env(world))
    ans = ctx.driver().batch([world_line(world, listed, [query])])[0]
    if "bad" in ans:
        raise InfraError("driver rejected a world: %s" % ans["bad"])
    r = ans["results"][0]
    for mode, im in ims:
        ok, why = py_accepts(r["spec"], im)
        if not ok:
            return True, im, canon_model(r["model"]), r["spec"], "%s [call mode: %s]" % (why, mode)
    return False, ims[-1][1], canon_model(r["model"]), r["spec"], ""


def shrink(ctx, d):
    inp = d["input"]
    if "world" not in inp:
        return d
    impl = Impl(ctx)
    try:
        world, q = inp["world"], inp["query"]
        best = None

        def fails(w):
            try:
                return _eval_world(ctx, impl, w, q)[0]
            except InfraError:
                return False
        # a failure that does not need its call mode is reported with the plain call
        if q.get("modes") and q["modes"] != ["plain"]:
            q_plain = dict(q, modes=["plain"])
            try:
                if _eval_world(ctx, impl, world, q_plain)[0]:
                    q = q_plain
            except InfraError:
                pass
        budget = [40]
        changed = True
        while changed and budget[0] > 0:
            changed = False
            for i in range(len(world["socks"])):
                if budget[0] <= 0:
                    break
                budget[0] -= 1
                w2 = dict(world, socks=world["socks"][:i] + world["socks"][i + 1:])
                if fails(w2):
                    world, changed = w2, True
                    break
            if changed:
                continue
            for pi, (pid, fds) in enumerate(world["procs"]):
                if budget[0] <= 0:
                    break
                if q.get("pid") == pid and not (isinstance(fds, list) and fds):
                    continue          # never remove the queried process itself
                budget[0] -= 1
                if isinstance(fds, list) and fds:
                    procs2 = [list(p) for p in world["procs"]]
                    procs2[pi] = [pid, fds[1:]]
                else:
                    procs2 = world["procs"][:pi] + world["procs"][pi + 1:]
                w2 = dict(world, procs=procs2)
                if fails(w2):
                    world, changed = w2, True
                    break
        bad, im, mo, sp, why = _eval_world(ctx, impl, world, q)
        if bad:
            best = dict(d, input={"world": world, "query": q, "source": "shrunk"}, impl=im, model=mo, spec=sp, note=why)
        return best or d
    finally:
        impl.close()


def replay(ctx, rp, res):
    inp = rp["input"]
    impl = Impl(ctx)
    try:
        if "world" in inp:
            bad, im, mo, sp, why = _eval_world(ctx, impl, inp["world"], inp["query"])
            print("replay: query=%s impl=%s\n        promised=%s\n        %s" % (
                json.dumps(inp["query"]), json.dumps(im)[:600], json.dumps(sp)[:600], why or "accepted"))
            return bad
        if "nonstr_kind" in inp:
            xw = exhaustive_world()
            bad = False
            for k in (None, 0, 1.5, b"tcp", ("tcp",), ["tcp"], {"tcp"}, object()):
                stage_world(impl, xw)
                im = impl.query({"kind": k, "pid": inp.get("pid")})
                if im != {"kind": "exc", "exc": "ValueError"}:
                    print("replay: kind=%r -> %s (expected ValueError)" % (k, im))
                    bad = True
            return bad
        return True
    finally:
        impl.close()


def check_finding(ctx, fnd):
    impl = Impl(ctx)
    try:
        w = fnd["witness"]
        bad = _eval_world(ctx, impl, w["world"], w["query"])[0]
        return "reproduces" if bad else "gone"
    finally:
        impl.close()
