"""C13 translator: facts re-derived from psutil/_pslinux.py and psutil/__init__.py by `ast`."""
import ast
from collections import namedtuple

from harness.common import extract
from harness.common.extract import NotRecognised, dotted, const


def _proc_method(tree, name):
    """A method of _pslinux.Process, also when it is defined under an `if HAS_…:` in the class body."""
    cls = extract.find_class(tree, "Process")
    for n in ast.walk(cls):
        if isinstance(n, ast.FunctionDef) and n.name == name:
            return n
    raise NotRecognised("Process.%s not found" % name)


def _namedtuples(tree):
    """Evaluate the four namedtuple definitions (module-level assignments) in a tiny namespace."""
    ns = {"namedtuple": namedtuple}
    want = ["pmem", "pfullmem", "pmmap_grouped", "pmmap_ext"]
    for st in tree.body:
        if isinstance(st, ast.Assign) and len(st.targets) == 1 and isinstance(st.targets[0], ast.Name) \
                and st.targets[0].id in want:
            code = compile(ast.Module(body=[st], type_ignores=[]), "<c13>", "exec")
            exec(code, {"__builtins__": {}}, ns)  # only namedtuple(...) calls over literals / earlier tuples
    for w in want:
        if w not in ns:
            raise NotRecognised("namedtuple %s not found" % w)
    return {w: list(ns[w]._fields) for w in want}


def _statm_gen(tree):
    """the unpacking assignment `a, b, … = (<elt> for x in <iter>)` of memory_info"""
    fn = _proc_method(tree, "memory_info")
    for n in ast.walk(fn):
        if isinstance(n, ast.Assign) and isinstance(n.targets[0], ast.Tuple) and isinstance(n.value, ast.GeneratorExp):
            return fn, n
    raise NotRecognised("statm unpacking not found")


def _statm_scale(tree):
    """`int(x) * PAGESIZE` → "PAGESIZE"; `int(x) * 4096` → "4096" (TOTAL: any other element is returned as its text, the
    obligation then fails with that text)"""
    _, n = _statm_gen(tree)
    elt = n.value.elt
    if isinstance(elt, ast.BinOp) and isinstance(elt.op, ast.Mult):
        sides = [ast.unparse(elt.left), ast.unparse(elt.right)]
        if "int(x)" in sides:
            sides.remove("int(x)")
            return sides[0]
    return "<" + ast.unparse(elt) + ">"


def _statm_take(tree):
    _, n = _statm_gen(tree)
    it = n.value.generators[0].iter
    if not (isinstance(it, ast.Subscript) and isinstance(it.slice, ast.Slice) and it.slice.lower is None
            and ast.unparse(it.value) == "f.readline().split()"):
        raise NotRecognised("statm iterable is %s" % ast.unparse(it))
    return const(it.slice.upper)


def _statm_order(tree):
    fn, n = _statm_gen(tree)
    unpack = [dotted(e) for e in n.targets[0].elts]
    ret = None
    for r in ast.walk(fn):
        if isinstance(r, ast.Return) and isinstance(r.value, ast.Call) and dotted(r.value.func) == "pmem":
            ret = [dotted(a) for a in r.value.args]
    if ret is None or len(ret) != len(unpack) or sorted(ret) != sorted(unpack):
        raise NotRecognised("pmem(...) call not recognised")
    return [unpack.index(a) for a in ret]


def _module_assign(tree, name):
    """text of the module-level definition(s) of `name` (TOTAL)"""
    vals = [ast.unparse(st.value) for st in tree.body
            if isinstance(st, ast.Assign) and any(dotted(t) == name for t in st.targets)]
    return " ; ".join(vals) if vals else "<undefined>"


def _stmts(body):
    """statement texts of a body, docstring dropped"""
    return [ast.unparse(st) for st in body if not (isinstance(st, ast.Expr) and isinstance(st.value, ast.Constant))]


def _class_guard(tree, name):
    """the `if` of the _pslinux.Process CLASS BODY under which method `name` is defined: (test text, texts of its else branch);
    ("True", []) when it is defined unconditionally (TOTAL for every nesting depth ≤ 1)"""
    cls = extract.find_class(tree, "Process")
    for st in cls.body:
        if isinstance(st, ast.FunctionDef) and st.name == name:
            return "True", []
        if isinstance(st, ast.If):
            if any(isinstance(x, ast.FunctionDef) and x.name == name for x in st.body):
                return ast.unparse(st.test), _stmts(st.orelse)
            if any(isinstance(x, ast.FunctionDef) and x.name == name for x in st.orelse):
                return "not (%s)" % ast.unparse(st.test), _stmts(st.body)
    raise NotRecognised("Process.%s is not defined at class level or under one class-level `if`" % name)


def _fn_digest(fn):
    import hashlib
    body = [st for st in fn.body if not (isinstance(st, ast.Expr) and isinstance(st.value, ast.Constant))]
    clone = ast.FunctionDef(name=fn.name, args=fn.args, body=body or [ast.Pass()], decorator_list=fn.decorator_list,
                            returns=fn.returns, type_comment=None, type_params=[])
    ast.fix_missing_locations(clone)
    return hashlib.sha1(ast.unparse(clone).encode()).hexdigest()[:16]


READ_SITES = [("memory_info", "statm"), ("_read_smaps_file", "smaps"), ("_parse_smaps_rollup", "smaps_rollup")]


def _path_root(expr, fname):
    """root expression of a path expression naming `<root>/<pid>/<fname>`, or None when `expr` is no such expression.
    Recognised: f"{ROOT}/{self.pid}/fname", os.path.join(ROOT, …, "fname"), "%s/%s/fname" % (ROOT, …),
    "{}/{}/fname".format(ROOT, …), ROOT + "/" + … + "/fname"."""
    if isinstance(expr, ast.JoinedStr):
        text = "".join(v.value if isinstance(v, ast.Constant) else "\0" for v in expr.values)
        if not text.endswith("/" + fname):
            return None
        first = expr.values[0]
        if isinstance(first, ast.FormattedValue) and first.conversion == -1 and first.format_spec is None:
            return ast.unparse(first.value)
        return "<literal prefix: %s>" % ast.unparse(expr)
    if isinstance(expr, ast.Call) and dotted(expr.func) in ("os.path.join", "join", "posixpath.join") and expr.args \
            and const_or_none(expr.args[-1]) in (fname, "/" + fname):
        return ast.unparse(expr.args[0])
    if isinstance(expr, ast.BinOp) and isinstance(expr.op, ast.Mod) and isinstance(expr.left, ast.Constant) \
            and isinstance(expr.left.value, str) and expr.left.value.endswith("/" + fname):
        args = expr.right.elts if isinstance(expr.right, ast.Tuple) else [expr.right]
        if expr.left.value.startswith("%s") and args:
            return ast.unparse(args[0])
        return "<literal prefix: %s>" % ast.unparse(expr)
    if isinstance(expr, ast.Call) and isinstance(expr.func, ast.Attribute) and expr.func.attr == "format" \
            and isinstance(expr.func.value, ast.Constant) and isinstance(expr.func.value.value, str) \
            and expr.func.value.value.endswith("/" + fname):
        if expr.func.value.value.startswith("{") and expr.args:
            return ast.unparse(expr.args[0])
        return "<literal prefix: %s>" % ast.unparse(expr)
    if isinstance(expr, ast.BinOp) and isinstance(expr.op, ast.Add):
        right = expr.right
        if isinstance(right, ast.Constant) and isinstance(right.value, str) and right.value.endswith("/" + fname):
            left = expr.left
            while isinstance(left, ast.BinOp) and isinstance(left.op, ast.Add):
                left = left.left
            return ast.unparse(left)
    return None


def const_or_none(e):
    return e.value if isinstance(e, ast.Constant) else None


def _read_roots(tree):
    """for each read site (method, file): the ROOT expression of the path it opens — `self._procfs_path` is the root the object
    captured in __init__, `get_procfs_path()` the module global at the time of the call. TOTAL: anything unrecognised is
    printed as `<…>` (the obligation `bcfg_good` then fails with that text) — the fact is never skipped."""
    out = []
    for meth, fname in READ_SITES:
        key = "%s:%s" % (meth, fname)
        try:
            fn = _proc_method(tree, meth)
        except NotRecognised:
            out.append((key, "<method not found>"))
            continue
        roots = []
        for n in ast.walk(fn):
            r = _path_root(n, fname) if isinstance(n, ast.expr) else None
            if r is not None:
                roots.append(r)
        roots = sorted(set(roots))
        if len(roots) == 1:
            root = roots[0]
            # a local alias (`root = get_procfs_path()`) is followed one step
            alias = [a for a in ast.walk(fn) if isinstance(a, ast.Assign) and len(a.targets) == 1
                     and isinstance(a.targets[0], ast.Name) and a.targets[0].id == root]
            out.append((key, ast.unparse(alias[0].value) if len(alias) == 1 else root))
        else:
            out.append((key, "<%d path expressions for %s: %s>" % (len(roots), fname, ", ".join(roots))))
    return out


def _procfs_binders(tree):
    """every assignment to `<obj>._procfs_path` inside class _pslinux.Process (and class-level definitions of that name):
    (method, right-hand side). The object must capture the root once, in __init__, and never again."""
    cls = extract.find_class(tree, "Process")
    out = []
    for st in cls.body:
        if isinstance(st, (ast.Assign, ast.AnnAssign)):
            tg = st.targets if isinstance(st, ast.Assign) else [st.target]
            if any(dotted(t) == "_procfs_path" for t in tg):
                out.append(("<class body>", ast.unparse(st.value) if st.value is not None else "<annotation>"))
    for fn in ast.walk(cls):
        if not isinstance(fn, ast.FunctionDef):
            continue
        if fn.name == "_procfs_path":
            out.append(("<method/property _procfs_path>", "<def>"))
        for n in ast.walk(fn):
            tg = []
            if isinstance(n, ast.Assign):
                tg = n.targets
            elif isinstance(n, (ast.AugAssign, ast.AnnAssign)):
                tg = [n.target]
            for t in tg:
                for e in ([t] if not isinstance(t, ast.Tuple) else t.elts):
                    if isinstance(e, ast.Attribute) and e.attr == "_procfs_path":
                        out.append((fn.name, ast.unparse(n.value) if getattr(n, "value", None) is not None else "<none>"))
            if isinstance(n, ast.Call) and dotted(n.func) in ("setattr", "object.__setattr__") and len(n.args) >= 2 \
                    and const_or_none(n.args[1]) == "_procfs_path":
                out.append((fn.name, "<setattr>"))
    return out


ANCHORED_LX = ["memory_info", "_parse_smaps_rollup", "_parse_smaps", "_read_smaps_file", "memory_full_info", "memory_maps"]
ANCHORED_FRONT = ["memory_maps", "memory_percent"]


def _digests(lx_tree, front_tree, common_tree):
    """sha1 (16 hex digits) of the normalised text (`ast.unparse`, docstring and comments dropped) of every function the model
    transcribes: an edit ANYWHERE in one of them — also a statement none of the fine-grained extractors looks at — changes a
    digest, and the obligation `anchored_bodies_pinned` fails. One entry per function, each computed on its own."""
    out = []
    for name in ANCHORED_LX:
        try:
            out.append(("_pslinux.Process." + name, _fn_digest(_proc_method(lx_tree, name))))
        except NotRecognised:
            out.append(("_pslinux.Process." + name, "<not found>"))
    try:
        out.append(("_pslinux.virtual_memory", _fn_digest(extract.find_def(lx_tree, "virtual_memory"))))
    except Exception:
        out.append(("_pslinux.virtual_memory", "<not found>"))
    cls = extract.find_class(front_tree, "Process")
    for name in ANCHORED_FRONT:
        fns = [n for n in ast.walk(cls) if isinstance(n, ast.FunctionDef) and n.name == name]
        out.append(("Process." + name, _fn_digest(fns[0]) if len(fns) == 1 else "<%d definitions>" % len(fns)))
    try:
        out.append(("psutil.virtual_memory", _fn_digest(extract.find_def(front_tree, "virtual_memory"))))
    except Exception:
        out.append(("psutil.virtual_memory", "<not found>"))
    try:
        out.append(("_common.path_exists_strict", _fn_digest(extract.find_def(common_tree, "path_exists_strict"))))
    except Exception:
        out.append(("_common.path_exists_strict", "<not found>"))
    return out


def _factor_of(expr, inner_pred):
    """expr = <inner> * K  → K"""
    if isinstance(expr, ast.BinOp) and isinstance(expr.op, ast.Mult) and inner_pred(expr.left):
        return const(expr.right)
    raise NotRecognised("not `<expr> * const`: %s" % ast.unparse(expr))


def _rollup(tree):
    fn = _proc_method(tree, "_parse_smaps_rollup")
    chain = None
    for n in ast.walk(fn):
        if isinstance(n, ast.For) and ast.unparse(n.iter) == "f" and len(n.body) == 1 and isinstance(n.body[0], ast.If):
            chain = n.body[0]
    if chain is None:
        raise NotRecognised("rollup line loop not found")
    out = []
    node = chain
    while node is not None:
        t = node.test
        if not (isinstance(t, ast.Call) and dotted(t.func) == "line.startswith" and len(t.args) == 1):
            raise NotRecognised("rollup test is %s" % ast.unparse(t))
        prefix = const(t.args[0])
        if len(node.body) != 1:
            raise NotRecognised("rollup branch has %d statements" % len(node.body))
        st = node.body[0]
        is_int = lambda e: ast.unparse(e) == "int(line.split()[1])"
        if isinstance(st, ast.AugAssign) and isinstance(st.op, ast.Add):
            out.append((prefix, dotted(st.target), "add", _factor_of(st.value, is_int)))
        elif isinstance(st, ast.Assign) and len(st.targets) == 1:
            out.append((prefix, dotted(st.targets[0]), "set", _factor_of(st.value, is_int)))
        else:
            raise NotRecognised("rollup branch body is %s" % ast.unparse(st))
        if len(node.orelse) == 1 and isinstance(node.orelse[0], ast.If):
            node = node.orelse[0]
        elif not node.orelse:
            node = None
        else:
            raise NotRecognised("rollup chain has an else")
    if [(o[1], o[2]) for o in out] != [("uss", "add"), ("pss", "set"), ("swap", "set")]:
        raise NotRecognised("rollup branches are %r" % (out,))
    if len({o[3] for o in out}) != 1:
        raise NotRecognised("rollup factors differ: %r" % (out,))
    ret = [n for n in ast.walk(fn) if isinstance(n, ast.Return)]
    if len(ret) != 1 or ast.unparse(ret[0].value) != "(uss, pss, swap)":
        raise NotRecognised("rollup return is not (uss, pss, swap)")
    return [o[0] for o in out], out[0][3]


def _parse_smaps(tree):
    fn = _proc_method(tree, "_parse_smaps")
    defaults = {}
    args = fn.args.args
    for a, d in zip(args[len(args) - len(fn.args.defaults):], fn.args.defaults):
        if isinstance(d, ast.Call) and dotted(d.func) == "re.compile" and len(d.args) == 1:
            defaults[a.arg] = const(d.args[0])
    res = {}
    for st in fn.body:
        if isinstance(st, ast.Assign) and len(st.targets) == 1 and dotted(st.targets[0]) in ("uss", "pss", "swap"):
            tgt = dotted(st.targets[0])
            v = st.value
            if not (isinstance(v, ast.BinOp) and isinstance(v.op, ast.Mult)):
                raise NotRecognised("%s = %s" % (tgt, ast.unparse(v)))
            k = const(v.right)
            inner = v.left
            # sum(map(int, RE.findall(smaps_data)))
            if not (isinstance(inner, ast.Call) and dotted(inner.func) == "sum" and len(inner.args) == 1):
                raise NotRecognised("%s inner %s" % (tgt, ast.unparse(inner)))
            m = inner.args[0]
            if not (isinstance(m, ast.Call) and dotted(m.func) == "map" and ast.unparse(m.args[0]) == "int"):
                raise NotRecognised("%s map %s" % (tgt, ast.unparse(m)))
            fa = m.args[1]
            if not (isinstance(fa, ast.Call) and dotted(fa.func).endswith(".findall")
                    and ast.unparse(fa.args[0]) == "smaps_data"):
                raise NotRecognised("%s findall %s" % (tgt, ast.unparse(fa)))
            rname = dotted(fa.func)[:-len(".findall")]
            if rname not in defaults:
                raise NotRecognised("regex %s is not a re.compile default" % rname)
            res[tgt] = (defaults[rname], k)
    if set(res) != {"uss", "pss", "swap"}:
        raise NotRecognised("_parse_smaps assigns %r" % sorted(res))
    if len({v[1] for v in res.values()}) != 1:
        raise NotRecognised("_parse_smaps factors differ")
    ret = [n for n in ast.walk(fn) if isinstance(n, ast.Return)]
    if len(ret) != 1 or ast.unparse(ret[0].value) != "(uss, pss, swap)":
        raise NotRecognised("_parse_smaps return is not (uss, pss, swap)")
    # _read_smaps_file strips
    rd = _proc_method(tree, "_read_smaps_file")
    rets = [n for n in ast.walk(rd) if isinstance(n, ast.Return)]
    if len(rets) != 1 or ast.unparse(rets[0].value) != "f.read().strip()":
        raise NotRecognised("_read_smaps_file returns %s" % (ast.unparse(rets[0].value) if rets else None))
    return res


def _full_info(tree):
    """the exception classes of the one `except` clause around `self._parse_smaps_rollup()` (TOTAL once a try is found)"""
    fn = _proc_method(tree, "memory_full_info")
    tries = [n for n in ast.walk(fn) if isinstance(n, ast.Try)
             and any("_parse_smaps_rollup" in ast.unparse(b) for b in n.body)]
    if len(tries) != 1:
        raise NotRecognised("memory_full_info: %d try statements around _parse_smaps_rollup()" % len(tries))
    excs = []
    for h in tries[0].handlers:
        if not any("self._parse_smaps()" in ast.unparse(b) for b in h.body):
            continue                      # a handler that does not fall back does not count
        if h.type is None:
            excs.append("BaseException")
        else:
            excs += [dotted(e) for e in (h.type.elts if isinstance(h.type, ast.Tuple) else [h.type])]
    return sorted(excs)


def _full_info_stmts(tree):
    return _stmts(_proc_method(tree, "memory_full_info").body)


def _full_info_basic_first(tree):
    """is statm (`self.memory_info()`) read BEFORE the first statement that reads the smaps side? (TOTAL)"""
    st = _full_info_stmts(tree)
    basic = [i for i, x in enumerate(st) if "self.memory_info()" in x]
    ext = [i for i, x in enumerate(st) if "_parse_smaps" in x]
    if not basic or not ext:
        raise NotRecognised("memory_full_info: statements %r" % st)
    return min(basic) < min(ext)


def _maps_fn(tree):
    fn = _proc_method(tree, "memory_maps")
    for n in ast.walk(fn):
        if isinstance(n, ast.FunctionDef) and n.name == "get_blocks":
            return fn, n
    raise NotRecognised("get_blocks not found")


def _maps_dict(tree):
    """is get_blocks' dict re-created / cleared per mapping? (TOTAL once `data = {}` exists)"""
    _, gb = _maps_fn(tree)
    creates = [n for n in ast.walk(gb) if isinstance(n, ast.Assign) and ast.unparse(n) in ("data = {}", "data = dict()")]
    clears = [n for n in ast.walk(gb) if isinstance(n, ast.Call) and dotted(n.func) in ("data.clear",)]
    if len(creates) < 1:
        raise NotRecognised("get_blocks: `data = {}` not found")
    return any(isinstance(p, ast.For) and any(c in ast.walk(p) for c in creates) for p in ast.walk(gb)) or bool(clears)


def _maps_split(tree):
    fn, gb = _maps_fn(tree)
    sp = [n for n in ast.walk(gb) if isinstance(n, ast.Assign) and dotted(n.targets[0]) == "fields"]
    if len(sp) != 1 or not ast.unparse(sp[0].value).startswith("line.split(None, "):
        raise NotRecognised("get_blocks split: %s" % [ast.unparse(s) for s in sp])
    tests = [n for n in ast.walk(gb) if isinstance(n, ast.If) and "endswith" in ast.unparse(n.test)]
    if len(tests) != 1 or ast.unparse(tests[0].test) != "not fields[0].endswith(b':')":
        raise NotRecognised("header test: %s" % [ast.unparse(t.test) for t in tests])
    hs = [n for n in ast.walk(fn) if isinstance(n, ast.Assign) and dotted(n.targets[0]) == "hfields"]
    if len(hs) != 1 or not ast.unparse(hs[0].value).startswith("header.split(None, "):
        raise NotRecognised("hfields: %s" % [ast.unparse(h) for h in hs])
    unp = [n for n in ast.walk(fn) if isinstance(n, ast.Assign) and isinstance(n.targets[0], ast.Tuple)
           and ast.unparse(n.value).startswith("hfields")]
    names = {tuple(dotted(e) for e in u.targets[0].elts) for u in unp}
    if names != {("addr", "perms", "_offset", "_dev", "_inode", "path")}:
        raise NotRecognised("header unpack targets: %r" % names)
    if sorted(ast.unparse(u.value) for u in unp) != ["hfields", "hfields + ['']"]:
        raise NotRecognised("header unpack values: %r" % [ast.unparse(u.value) for u in unp])
    return const(hs[0].value.args[1])          # the header's maxsplit (get_blocks' own only needs fields[0], fields[1])


def _maps_factor(tree):
    _, gb = _maps_fn(tree)
    st = [n for n in ast.walk(gb) if isinstance(n, ast.Assign) and ast.unparse(n.targets[0]) == "data[fields[0]]"]
    if len(st) != 1:
        raise NotRecognised("dict store not found")
    return _factor_of(st[0].value, lambda e: ast.unparse(e) == "int(fields[1])")


def _maps_flags(tree):
    _, gb = _maps_fn(tree)
    fl = [n for n in ast.walk(gb) if isinstance(n, ast.If) and "startswith" in ast.unparse(n.test)]
    if len(fl) != 1 or not isinstance(fl[0].body[0], ast.Continue):
        raise NotRecognised("VmFlags skip not recognised")
    t = fl[0].test
    if not (isinstance(t, ast.Call) and ast.unparse(t.func) == "fields[0].startswith"):
        raise NotRecognised("VmFlags test: %s" % ast.unparse(t))
    return const(t.args[0])


def _maps_anon_if(tree):
    fn, _ = _maps_fn(tree)
    anon = [n for n in ast.walk(fn) if isinstance(n, ast.If) and ast.unparse(n.test) == "not path"]
    if len(anon) != 1:
        raise NotRecognised("`if not path:` found %d times" % len(anon))
    return anon[0]


def _maps_anon(tree):
    a = _maps_anon_if(tree)
    if len(a.body) != 1 or not ast.unparse(a.body[0]).startswith("path = "):
        raise NotRecognised("anon branch not recognised")
    return const(a.body[0].value)


def _maps_path_stmts(tree):
    """EVERY statement of the named-mapping branch (`else:` of `if not path:`), as text — pinned whole by the obligation
    `path_handling_facts`, so a statement the other extractors do not look at (an `else:` on the deleted-`if`, a second statement
    in its body, a `.replace(…)`) cannot slip through (TOTAL)"""
    return _stmts(_maps_anon_if(tree).orelse)


STRIP_LIKE = ("strip", "rstrip", "lstrip", "removesuffix", "removeprefix", "replace", "translate", "split", "rsplit", "partition",
              "rpartition", "expandtabs", "lower", "upper", "casefold", "normalize", "normpath", "realpath", "abspath")


def _maps_strips(tree):
    """does the named-mapping branch pass the name through ANY text-changing call (`.strip()`, `.rstrip()`, `.replace()`, … —
    anywhere: top level, inside the deleted-`if`, in an `else:`, nested in `decode(path).strip()`)? (TOTAL)"""
    for st in _maps_anon_if(tree).orelse:
        for n in ast.walk(st):
            if isinstance(n, ast.Call) and isinstance(n.func, ast.Attribute) and n.func.attr in STRIP_LIKE:
                return True
    return False


def _maps_deleted(tree):
    orelse = _maps_anon_if(tree).orelse
    dl = [s for s in orelse if isinstance(s, ast.If)]
    if len(dl) != 1:
        raise NotRecognised("deleted test not found")
    t = dl[0].test
    if not (isinstance(t, ast.BoolOp) and isinstance(t.op, ast.And) and len(t.values) == 2
            and ast.unparse(t.values[0]).startswith("path.endswith(")
            and ast.unparse(t.values[1]) == "not path_exists_strict(path)"):
        raise NotRecognised("deleted test: %s" % ast.unparse(t))
    cut = dl[0].body[0]
    if not (isinstance(cut, ast.Assign) and isinstance(cut.value, ast.Subscript) and ast.unparse(cut.value.value) == "path"
            and isinstance(cut.value.slice, ast.Slice) and cut.value.slice.lower is None):
        raise NotRecognised("deleted cut: %s" % ast.unparse(cut))
    return const(t.values[0].args[0]), -const(cut.value.slice.upper)


def _maps_keys(tree):
    fn, _ = _maps_fn(tree)
    items = [n for n in ast.walk(fn) if isinstance(n, ast.Assign) and dotted(n.targets[0]) == "item"
             and isinstance(n.value, ast.Tuple)]
    if len(items) != 1:
        raise NotRecognised("item tuple not found")
    elts = items[0].value.elts
    head = [ast.unparse(e) for e in elts[:3]]
    if head != ["decode(addr)", "decode(perms)", "path"]:
        raise NotRecognised("item head: %r" % head)
    keys = []
    for e in elts[3:]:
        if not (isinstance(e, ast.Call) and dotted(e.func) == "data.get" and len(e.args) == 2 and const(e.args[1]) == 0):
            raise NotRecognised("item element: %s" % ast.unparse(e))
        keys.append(const(e.args[0]))
    return keys


def _front_fn(tree, name):
    cls = extract.find_class(tree, "Process")
    fns = [n for n in ast.walk(cls) if isinstance(n, ast.FunctionDef) and n.name == name]
    if len(fns) != 1:
        raise NotRecognised("front-end Process.%s: %d definitions" % (name, len(fns)))
    return fns[0]


def _front_group(tree):
    mm = _front_fn(tree, "memory_maps")
    info = {}
    src = ast.unparse(mm)
    a = [n for n in ast.walk(mm) if isinstance(n, ast.Assign) and dotted(n.targets[0]) == "path"
         and isinstance(n.value, ast.Subscript) and dotted(n.value.value) == "tupl"]
    b = [n for n in ast.walk(mm) if isinstance(n, ast.Assign) and dotted(n.targets[0]) == "nums"
         and isinstance(n.value, ast.Subscript) and dotted(n.value.value) == "tupl"]
    if len(a) != 1 or len(b) != 1 or not isinstance(b[0].value.slice, ast.Slice) or b[0].value.slice.upper is not None:
        raise NotRecognised("grouping: path/nums subscripts not recognised")
    info["path_idx"] = const(a[0].value.slice)
    info["nums_from"] = const(b[0].value.slice.lower)
    if "d[path] = list(map(lambda x, y: x + y, d[path], nums))" not in src or "d[path] = nums" not in src:
        raise NotRecognised("grouping fold not recognised")
    if "[nt(path, *d[path]) for path in d]" not in src or "[nt(*x) for x in it]" not in src:
        raise NotRecognised("grouping output not recognised")
    return info


def _front_pct_total(tree):
    """`total_phymem = _TOTAL_PHYMEM or virtual_memory().total` → True, `= virtual_memory().total` → False"""
    mp = _front_fn(tree, "memory_percent")
    psrc = ast.unparse(mp)
    for needle in ("self.memory_info if memtype in _psplatform.pmem._fields else self.memory_full_info",
                   "value = getattr(metrics, memtype)",
                   "if not total_phymem > 0:", "return value / float(total_phymem) * 100"):
        if needle not in psrc:
            raise NotRecognised("memory_percent: `%s` not found" % needle)
    tot = [n for n in ast.walk(mp) if isinstance(n, ast.Assign) and dotted(n.targets[0]) == "total_phymem"]
    if len(tot) != 1:
        raise NotRecognised("memory_percent: %d assignments to total_phymem" % len(tot))
    tsrc = ast.unparse(tot[0].value)
    if tsrc == "_TOTAL_PHYMEM or virtual_memory().total":
        return True
    if tsrc == "virtual_memory().total":
        return False
    raise NotRecognised("memory_percent: total_phymem = %s" % tsrc)


def _pct_validation(tree):
    """How memory_percent validates `memtype`. The promised shape is membership in the LIST of pfullmem's field names:
    `valid_types = list(_psplatform.pfullmem._fields)` + `if memtype not in valid_types: raise ValueError(...)` as the first
    statements. Other recognisable shapes get their own value (the fact then CHANGES and cfg_good fails) rather than a skip."""
    cls = extract.find_class(tree, "Process")
    mp = [n for n in ast.walk(cls) if isinstance(n, ast.FunctionDef) and n.name == "memory_percent"]
    if len(mp) != 1:
        raise NotRecognised("front-end memory_percent not found")
    body = [st for st in mp[0].body if not (isinstance(st, ast.Expr) and isinstance(st.value, ast.Constant))]
    ifs = [st for st in body if isinstance(st, ast.If)]
    if not ifs:
        raise NotRecognised("memory_percent: no validation `if`")
    first = ifs[0]
    raises = [n for n in first.body if isinstance(n, ast.Raise)]
    exc = None
    if len(raises) == 1 and isinstance(raises[0].exc, ast.Call):
        exc = dotted(raises[0].exc.func)
    test = ast.unparse(first.test)
    before = [ast.unparse(st) for st in body[:body.index(first)]]
    if test == "memtype not in valid_types" and before == ["valid_types = list(_psplatform.pfullmem._fields)"] and not first.orelse:
        return "memtype not in list(pfullmem._fields) -> %s" % exc
    if test in ("memtype not in _psplatform.pfullmem._fields",) and not before:
        return "memtype not in pfullmem._fields -> %s" % exc
    if "hasattr(" in test:
        return "%s -> %s" % (test.replace("_psplatform.", ""), exc)
    raise NotRecognised("memory_percent validation: %r after %r" % (test, before))


def _front_vm(tree):
    """psutil.virtual_memory(): does it store ret.total into the module global _TOTAL_PHYMEM?"""
    fn = extract.find_def(tree, "virtual_memory")
    body = [st for st in fn.body if not (isinstance(st, ast.Expr) and isinstance(st.value, ast.Constant))]
    srcs = [ast.unparse(st) for st in body]
    if "ret = _psplatform.virtual_memory()" not in srcs or srcs[-1] != "return ret":
        raise NotRecognised("psutil.virtual_memory body: %r" % srcs)
    rest = [x for x in srcs if x not in ("ret = _psplatform.virtual_memory()", "return ret")]
    if rest == ["global _TOTAL_PHYMEM", "_TOTAL_PHYMEM = ret.total"] \
            and srcs.index("_TOTAL_PHYMEM = ret.total") > srcs.index("ret = _psplatform.virtual_memory()"):
        return True
    if rest == []:
        return False
    raise NotRecognised("psutil.virtual_memory: unknown statements %r" % rest)


def _vm(tree):
    """_pslinux.virtual_memory(): the /proc/meminfo loop and where `total` / `free` come from."""
    fn = extract.find_def(tree, "virtual_memory")
    loops = [n for n in ast.walk(fn) if isinstance(n, ast.For) and ast.unparse(n.iter) == "f"]
    if len(loops) != 1:
        raise NotRecognised("virtual_memory: %d `for line in f` loops" % len(loops))
    lp = loops[0]
    if len(lp.body) != 2 or ast.unparse(lp.body[0]) != "fields = line.split()":
        raise NotRecognised("virtual_memory loop body: %r" % [ast.unparse(x) for x in lp.body])
    st = lp.body[1]
    if not (isinstance(st, ast.Assign) and ast.unparse(st.targets[0]) == "mems[fields[0]]"):
        raise NotRecognised("virtual_memory loop store: %s" % ast.unparse(st))
    info = {"factor": _factor_of(st.value, lambda e: ast.unparse(e) == "int(fields[1])")}
    withs = [n for n in ast.walk(fn) if isinstance(n, ast.With) and lp in n.body]
    if len(withs) != 1 or "/meminfo" not in ast.unparse(withs[0].items[0].context_expr):
        raise NotRecognised("virtual_memory: the loop is not over the meminfo file")
    for var in ("total", "free"):
        a = [n for n in fn.body if isinstance(n, ast.Assign) and dotted(n.targets[0]) == var]
        if len(a) != 1 or not (isinstance(a[0].value, ast.Subscript) and dotted(a[0].value.value) == "mems"):
            raise NotRecognised("virtual_memory: `%s = mems[...]` not found at top level" % var)
        info[var] = const(a[0].value.slice)
    rets = [n for n in ast.walk(fn) if isinstance(n, ast.Return)]
    if len(rets) != 1 or not (isinstance(rets[0].value, ast.Call) and dotted(rets[0].value.func) == "svmem"
                              and rets[0].value.args and dotted(rets[0].value.args[0]) == "total"):
        raise NotRecognised("virtual_memory: return svmem(total, ...) not recognised")
    # `total` must not be re-assigned after the subscript
    if sum(1 for n in ast.walk(fn) if isinstance(n, (ast.Assign, ast.AugAssign))
           and any(dotted(t) == "total" for t in (n.targets if isinstance(n, ast.Assign) else [n.target]))) != 1:
        raise NotRecognised("virtual_memory: total is assigned more than once")
    return info


DECORATED = ["memory_info", "_parse_smaps_rollup", "_parse_smaps", "memory_full_info", "memory_maps", "_read_smaps_file"]
DECORATED_FRONT = ["memory_info", "memory_full_info", "memory_maps", "memory_percent"]


def _decorators(lx_tree, front_tree):
    """decorator lists (outermost first) of the platform methods the property is anchored in and of the front-end methods
    that reach them: `_parse_smaps_rollup` must stay undecorated (its ESRCH is caught by memory_full_info)"""
    out = []
    for name in DECORATED:
        fn = _proc_method(lx_tree, name)
        out.append((name, [dotted(d) if not isinstance(d, ast.Call) else ast.unparse(d) for d in fn.decorator_list]))
    cls = extract.find_class(front_tree, "Process")
    for name in DECORATED_FRONT:
        fns = [n for n in ast.walk(cls) if isinstance(n, ast.FunctionDef) and n.name == name]   # memory_maps sits under an `if hasattr(...)`
        if len(fns) != 1:
            raise NotRecognised("front-end Process.%s: %d definitions" % (name, len(fns)))
        out.append(("Process." + name, [dotted(d) if not isinstance(d, ast.Call) else ast.unparse(d) for d in fns[0].decorator_list]))
    return out


def facts(snap, F):
    cache = {}

    def lx():
        if "lx" not in cache:
            cache["lx"] = extract.parse_module(snap, "_pslinux.py")
        return cache["lx"]

    def memo(key, fn):
        def g():
            if key not in cache:
                try:
                    cache[key] = ("ok", fn())
                except Exception as e:  # re-raised for every fact that needs it
                    cache[key] = ("err", e)
            st, v = cache[key]
            if st == "err":
                raise v
            return v
        return g

    fe = lambda: extract.parse_module(snap, "__init__.py")
    co = lambda: extract.parse_module(snap, "_common.py")
    nts = memo("nts", lambda: _namedtuples(lx()))
    roll = memo("roll", lambda: _rollup(lx()))
    psm = memo("psm", lambda: _parse_smaps(lx()))
    deleted = memo("deleted", lambda: _maps_deleted(lx()))
    grp = memo("grp", lambda: _front_group(fe()))
    vm = memo("vm", lambda: _vm(lx()))
    decos = memo("decos", lambda: _decorators(lx(), fe()))
    fguard = memo("fguard", lambda: _class_guard(lx(), "memory_full_info"))
    S, L, B, N = extract.lean_str, extract.lean_list, extract.lean_bytes, extract.lean_nat

    # every fact is extracted on its own: an unrecognised statement costs the facts that speak about it, nothing else
    F.try_add("statmOrder", "List Nat", lambda: L(_statm_order(lx()), N),
              "for each pmem field, the /proc/pid/statm column it receives (unpack names vs pmem(...) arguments)")
    F.try_add("statmTake", "Nat", lambda: N(_statm_take(lx())), "the `[:7]` slice of memory_info")
    F.try_add("statmScale", "String", lambda: S(_statm_scale(lx())),
              "what `int(x)` is multiplied by in memory_info: the module global PAGESIZE (a literal, or any other expression, is printed as it is)")
    F.try_add("pagesizeDef", "String", lambda: S(_module_assign(lx(), "PAGESIZE")),
              "the module-level definition of _pslinux.PAGESIZE")
    F.try_add("pmemFields", "List String", lambda: L(nts()["pmem"], S), "pmem._fields")
    F.try_add("pfullmemFields", "List String", lambda: L(nts()["pfullmem"], S), "pfullmem._fields")
    F.try_add("pmmapGroupedFields", "List String", lambda: L(nts()["pmmap_grouped"], S), "pmmap_grouped._fields")
    F.try_add("pmmapExtFields", "List String", lambda: L(nts()["pmmap_ext"], S), "pmmap_ext._fields")
    F.try_add("mapsKeys", "List (List Nat)", lambda: L(_maps_keys(lx()), B),
              "keys read by memory_maps out of the per-mapping dict, in row order")
    F.try_add("mapsFactor", "Nat", lambda: N(_maps_factor(lx())), "`int(fields[1]) * 1024` in get_blocks")
    F.try_add("mapsMaxsplit", "Nat", lambda: N(_maps_split(lx())), "`header.split(None, 5)`")
    F.try_add("mapsDictPerBlock", "Bool", lambda: extract.lean_bool(_maps_dict(lx())),
              "is get_blocks' dict re-created / cleared for every mapping? (false: created once)")
    F.try_add("anonName", "List Nat", lambda: B(_maps_anon(lx()).encode()), "'[anon]'")
    F.try_add("deletedSuffix", "List Nat", lambda: B(deleted()[0].encode()), "' (deleted)'")
    F.try_add("deletedCut", "Nat", lambda: N(deleted()[1]), "`path[:-10]`")
    F.try_add("stripsPath", "Bool", lambda: extract.lean_bool(_maps_strips(lx())),
              "does memory_maps pass the decoded name through strip() / rstrip() / replace() / … anywhere in the named-mapping branch (which would drop or change blanks of a file name)?")
    F.try_add("mapsPathStmts", "List String", lambda: L(_maps_path_stmts(lx()), S),
              "every statement of memory_maps' named-mapping branch (the `else:` of `if not path:`)")
    F.try_add("flagsPrefix", "List Nat", lambda: B(_maps_flags(lx())), "b'VmFlags:'")
    F.try_add("smapsFactor", "Nat", lambda: N(psm()["uss"][1]), "`* 1024` of the three sums in _parse_smaps")
    F.try_add("privateRe", "String", lambda: S(psm()["uss"][0].decode("latin-1")), "regex summed into uss")
    F.try_add("pssRe", "String", lambda: S(psm()["pss"][0].decode("latin-1")), "regex summed into pss")
    F.try_add("swapRe", "String", lambda: S(psm()["swap"][0].decode("latin-1")), "regex summed into swap")
    F.try_add("privateReB", "List Nat", lambda: B(psm()["uss"][0]), "the same pattern text as bytes (compiled by Model/C13Re.lean compileRe)")
    F.try_add("pssReB", "List Nat", lambda: B(psm()["pss"][0]), "the same pattern text as bytes")
    F.try_add("swapReB", "List Nat", lambda: B(psm()["swap"][0]), "the same pattern text as bytes")
    F.try_add("methodDecorators", "List (String × List String)",
              lambda: L(decos(), lambda e: "(%s, %s)" % (S(e[0]), L(e[1], S))),
              "decorators (outermost first) of the _pslinux.Process methods behind memory_info / memory_full_info / memory_maps and of the front-end methods (`Process.` prefix)")
    F.try_add("rollupPrefixes", "List (List Nat)", lambda: L(roll()[0], B),
              "startswith() prefixes of _parse_smaps_rollup in branch order (uss +=, pss =, swap =)")
    F.try_add("rollupFactor", "Nat", lambda: N(roll()[1]), "`* 1024` in _parse_smaps_rollup")
    F.try_add("fallbackExcs", "List String", lambda: L(_full_info(lx()), S),
              "exceptions of the roll-up that make memory_full_info fall back to smaps")
    F.try_add("fullInfoStmts", "List String", lambda: L(_full_info_stmts(lx()), S),
              "every top-level statement of _pslinux.Process.memory_full_info, in order (statm is read AFTER uss / pss / swap)")
    F.try_add("fullInfoBasicFirst", "Bool", lambda: extract.lean_bool(_full_info_basic_first(lx())),
              "does memory_full_info read statm (`basic_mem = self.memory_info()`) BEFORE uss / pss / swap? (false: after)")
    F.try_add("fullInfoGuard", "String", lambda: S(fguard()[0]),
              "the class-body `if` under which _parse_smaps_rollup / _parse_smaps / memory_full_info are defined")
    F.try_add("fullInfoElse", "List String", lambda: L(fguard()[1], S), "its `else:` branch (`memory_full_info = memory_info`)")
    F.try_add("mapsGuard", "String", lambda: S(_class_guard(lx(), "memory_maps")[0]),
              "the class-body `if` under which memory_maps is defined")
    F.try_add("pathExistsStrict", "List String", lambda: L(_stmts(extract.find_def(co(), "path_exists_strict").body), S),
              "the body of _common.path_exists_strict: os.stat; PermissionError re-raised (→ AccessDenied), any other OSError → False, else True")
    F.try_add("anchoredBodies", "List (String × String)",
              lambda: L(_digests(lx(), fe(), co()), lambda e: "(%s, %s)" % (S(e[0]), S(e[1]))),
              "sha1[:16] of the normalised text of every function the model transcribes (an edit anywhere in one of them changes its digest)")
    F.try_add("readRoots", "List (String × String)",
              lambda: L(_read_roots(lx()), lambda e: "(%s, %s)" % (S(e[0]), S(e[1]))),
              "for each read site (method:file) of the memory methods, the ROOT expression of the path it opens (`self._procfs_path` = the root the object captured; `get_procfs_path()` = PROCFS_PATH at the time of the call)")
    F.try_add("procfsBinders", "List (String × String)",
              lambda: L(_procfs_binders(lx()), lambda e: "(%s, %s)" % (S(e[0]), S(e[1]))),
              "every assignment to `._procfs_path` inside class _pslinux.Process: (method, right-hand side)")
    F.try_add("groupPathIdx", "Nat", lambda: N(grp()["path_idx"]), "`path = tupl[2]` in the grouping loop")
    F.try_add("groupNumsFrom", "Nat", lambda: N(grp()["nums_from"]), "`nums = tupl[3:]` in the grouping loop")
    F.try_add("pctValidation", "String", lambda: S(_pct_validation(fe())),
              "how memory_percent validates memtype (membership in list(pfullmem._fields), rejected with ValueError)")
    F.try_add("pctUsesCache", "Bool", lambda: extract.lean_bool(_front_pct_total(fe())),
              "memory_percent: `total_phymem = _TOTAL_PHYMEM or virtual_memory().total` (false: always virtual_memory().total)")
    F.try_add("vmStoresTotal", "Bool", lambda: extract.lean_bool(_front_vm(fe())),
              "psutil.virtual_memory() does `global _TOTAL_PHYMEM; _TOTAL_PHYMEM = ret.total`")
    F.try_add("meminfoFactor", "Nat", lambda: N(vm()["factor"]), "`mems[fields[0]] = int(fields[1]) * 1024` in _pslinux.virtual_memory")
    F.try_add("meminfoTotalKey", "List Nat", lambda: B(vm()["total"]), "`total = mems[b'MemTotal:']`")
    F.try_add("meminfoFreeKey", "List Nat", lambda: B(vm()["free"]), "`free = mems[b'MemFree:']`")
