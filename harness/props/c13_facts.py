"""C13 translator: facts re-derived from psutil/_pslinux.py and psutil/__init__.py by `ast`."""
import ast
from collections import namedtuple

from harness.common import extract
from harness.common.extract import NotRecognised, dotted, const


def _proc_method(tree, name):
    """A method of _pslinux.Process, also when it is defined under an `if HAS_…:` in the class body."""
    cls = extract.find_class(tree, "Process")
    for n in ast.walk(cls):
        if isinstance(n, ast.FunctionDef) and n.name == name:
            return n
    raise NotRecognised("Process.%s not found" % name)


def _namedtuples(tree):
    """Evaluate the four namedtuple definitions (module-level assignments) in a tiny namespace."""
    ns = {"namedtuple": namedtuple}
    want = ["pmem", "pfullmem", "pmmap_grouped", "pmmap_ext"]
    for st in tree.body:
        if isinstance(st, ast.Assign) and len(st.targets) == 1 and isinstance(st.targets[0], ast.Name) \
                and st.targets[0].id in want:
            code = compile(ast.Module(body=[st], type_ignores=[]), "<c13>", "exec")
            exec(code, {"__builtins__": {}}, ns)  # only namedtuple(...) calls over literals / earlier tuples
    for w in want:
        if w not in ns:
            raise NotRecognised("namedtuple %s not found" % w)
    return {w: list(ns[w]._fields) for w in want}


def _statm(tree):
    fn = _proc_method(tree, "memory_info")
    unpack = None
    take = None
    for n in ast.walk(fn):
        if isinstance(n, ast.Assign) and isinstance(n.targets[0], ast.Tuple) and isinstance(n.value, ast.GeneratorExp):
            names = [dotted(e) for e in n.targets[0].elts]
            ge = n.value
            # int(x) * PAGESIZE for x in f.readline().split()[:7]
            elt = ge.elt
            if not (isinstance(elt, ast.BinOp) and isinstance(elt.op, ast.Mult)
                    and {ast.unparse(elt.left), ast.unparse(elt.right)} == {"int(x)", "PAGESIZE"}):
                raise NotRecognised("statm element is %s" % ast.unparse(elt))
            it = ge.generators[0].iter
            if not (isinstance(it, ast.Subscript) and isinstance(it.slice, ast.Slice) and it.slice.lower is None
                    and ast.unparse(it.value) == "f.readline().split()"):
                raise NotRecognised("statm iterable is %s" % ast.unparse(it))
            take = const(it.slice.upper)
            unpack = names
    if unpack is None:
        raise NotRecognised("statm unpacking not found")
    ret = None
    for n in ast.walk(fn):
        if isinstance(n, ast.Return) and isinstance(n.value, ast.Call) and dotted(n.value.func) == "pmem":
            ret = [dotted(a) for a in n.value.args]
    if ret is None or len(ret) != len(unpack) or sorted(ret) != sorted(unpack):
        raise NotRecognised("pmem(...) call not recognised")
    return [unpack.index(a) for a in ret], take


def _factor_of(expr, inner_pred):
    """expr = <inner> * K  → K"""
    if isinstance(expr, ast.BinOp) and isinstance(expr.op, ast.Mult) and inner_pred(expr.left):
        return const(expr.right)
    raise NotRecognised("not `<expr> * const`: %s" % ast.unparse(expr))


def _rollup(tree):
    fn = _proc_method(tree, "_parse_smaps_rollup")
    chain = None
    for n in ast.walk(fn):
        if isinstance(n, ast.For) and ast.unparse(n.iter) == "f" and len(n.body) == 1 and isinstance(n.body[0], ast.If):
            chain = n.body[0]
    if chain is None:
        raise NotRecognised("rollup line loop not found")
    out = []
    node = chain
    while node is not None:
        t = node.test
        if not (isinstance(t, ast.Call) and dotted(t.func) == "line.startswith" and len(t.args) == 1):
            raise NotRecognised("rollup test is %s" % ast.unparse(t))
        prefix = const(t.args[0])
        if len(node.body) != 1:
            raise NotRecognised("rollup branch has %d statements" % len(node.body))
        st = node.body[0]
        is_int = lambda e: ast.unparse(e) == "int(line.split()[1])"
        if isinstance(st, ast.AugAssign) and isinstance(st.op, ast.Add):
            out.append((prefix, dotted(st.target), "add", _factor_of(st.value, is_int)))
        elif isinstance(st, ast.Assign) and len(st.targets) == 1:
            out.append((prefix, dotted(st.targets[0]), "set", _factor_of(st.value, is_int)))
        else:
            raise NotRecognised("rollup branch body is %s" % ast.unparse(st))
        if len(node.orelse) == 1 and isinstance(node.orelse[0], ast.If):
            node = node.orelse[0]
        elif not node.orelse:
            node = None
        else:
            raise NotRecognised("rollup chain has an else")
    if [(o[1], o[2]) for o in out] != [("uss", "add"), ("pss", "set"), ("swap", "set")]:
        raise NotRecognised("rollup branches are %r" % (out,))
    if len({o[3] for o in out}) != 1:
        raise NotRecognised("rollup factors differ: %r" % (out,))
    ret = [n for n in ast.walk(fn) if isinstance(n, ast.Return)]
    if len(ret) != 1 or ast.unparse(ret[0].value) != "(uss, pss, swap)":
        raise NotRecognised("rollup return is not (uss, pss, swap)")
    return [o[0] for o in out], out[0][3]


def _parse_smaps(tree):
    fn = _proc_method(tree, "_parse_smaps")
    defaults = {}
    args = fn.args.args
    for a, d in zip(args[len(args) - len(fn.args.defaults):], fn.args.defaults):
        if isinstance(d, ast.Call) and dotted(d.func) == "re.compile" and len(d.args) == 1:
            defaults[a.arg] = const(d.args[0])
    res = {}
    for st in fn.body:
        if isinstance(st, ast.Assign) and len(st.targets) == 1 and dotted(st.targets[0]) in ("uss", "pss", "swap"):
            tgt = dotted(st.targets[0])
            v = st.value
            if not (isinstance(v, ast.BinOp) and isinstance(v.op, ast.Mult)):
                raise NotRecognised("%s = %s" % (tgt, ast.unparse(v)))
            k = const(v.right)
            inner = v.left
            # sum(map(int, RE.findall(smaps_data)))
            if not (isinstance(inner, ast.Call) and dotted(inner.func) == "sum" and len(inner.args) == 1):
                raise NotRecognised("%s inner %s" % (tgt, ast.unparse(inner)))
            m = inner.args[0]
            if not (isinstance(m, ast.Call) and dotted(m.func) == "map" and ast.unparse(m.args[0]) == "int"):
                raise NotRecognised("%s map %s" % (tgt, ast.unparse(m)))
            fa = m.args[1]
            if not (isinstance(fa, ast.Call) and dotted(fa.func).endswith(".findall")
                    and ast.unparse(fa.args[0]) == "smaps_data"):
                raise NotRecognised("%s findall %s" % (tgt, ast.unparse(fa)))
            rname = dotted(fa.func)[:-len(".findall")]
            if rname not in defaults:
                raise NotRecognised("regex %s is not a re.compile default" % rname)
            res[tgt] = (defaults[rname], k)
    if set(res) != {"uss", "pss", "swap"}:
        raise NotRecognised("_parse_smaps assigns %r" % sorted(res))
    if len({v[1] for v in res.values()}) != 1:
        raise NotRecognised("_parse_smaps factors differ")
    ret = [n for n in ast.walk(fn) if isinstance(n, ast.Return)]
    if len(ret) != 1 or ast.unparse(ret[0].value) != "(uss, pss, swap)":
        raise NotRecognised("_parse_smaps return is not (uss, pss, swap)")
    # _read_smaps_file strips
    rd = _proc_method(tree, "_read_smaps_file")
    rets = [n for n in ast.walk(rd) if isinstance(n, ast.Return)]
    if len(rets) != 1 or ast.unparse(rets[0].value) != "f.read().strip()":
        raise NotRecognised("_read_smaps_file returns %s" % (ast.unparse(rets[0].value) if rets else None))
    return res


def _full_info(tree):
    fn = _proc_method(tree, "memory_full_info")
    src = ast.unparse(fn)
    calls = [n for n in ast.walk(fn) if isinstance(n, ast.Call) and dotted(n.func) == "pfullmem"]
    if len(calls) != 1 or ast.unparse(calls[0]) != "pfullmem(*basic_mem + (uss, pss, swap))":
        raise NotRecognised("pfullmem call: %s" % [ast.unparse(c) for c in calls])
    tries = [n for n in ast.walk(fn) if isinstance(n, ast.Try)]
    if len(tries) != 1:
        raise NotRecognised("memory_full_info: %d try statements" % len(tries))
    t = tries[0]
    if ast.unparse(t.body[0]) != "uss, pss, swap = self._parse_smaps_rollup()":
        raise NotRecognised("try body: %s" % ast.unparse(t.body[0]))
    if len(t.handlers) != 1:
        raise NotRecognised("handlers")
    h = t.handlers[0]
    excs = sorted(dotted(e) for e in (h.type.elts if isinstance(h.type, ast.Tuple) else [h.type]))
    if ast.unparse(h.body[0]) != "uss, pss, swap = self._parse_smaps()":
        raise NotRecognised("handler body: %s" % ast.unparse(h.body[0]))
    guard = [n for n in ast.walk(fn) if isinstance(n, ast.If) and ast.unparse(n.test) == "HAS_PROC_SMAPS_ROLLUP"]
    if len(guard) != 1 or t not in guard[0].body or ast.unparse(guard[0].orelse[0]) != "uss, pss, swap = self._parse_smaps()":
        raise NotRecognised("HAS_PROC_SMAPS_ROLLUP guard not recognised")
    del src
    return excs


def _maps(tree):
    fn = _proc_method(tree, "memory_maps")
    gb = None
    for n in ast.walk(fn):
        if isinstance(n, ast.FunctionDef) and n.name == "get_blocks":
            gb = n
    if gb is None:
        raise NotRecognised("get_blocks not found")
    info = {}
    # data = {} exactly once, before the loop, never cleared
    creates = [n for n in ast.walk(gb) if isinstance(n, ast.Assign) and ast.unparse(n) == "data = {}"]
    clears = [n for n in ast.walk(gb) if isinstance(n, ast.Call) and dotted(n.func) in ("data.clear",)]
    info["dict_created_in_loop"] = any(
        isinstance(p, ast.For) and any(c in ast.walk(p) for c in creates) for p in ast.walk(gb)) or bool(clears)
    if len(creates) < 1:
        raise NotRecognised("get_blocks: `data = {}` not found")
    # fields = line.split(None, 5)
    sp = [n for n in ast.walk(gb) if isinstance(n, ast.Assign) and dotted(n.targets[0]) == "fields"]
    if len(sp) != 1 or not ast.unparse(sp[0].value).startswith("line.split(None, "):
        raise NotRecognised("get_blocks split: %s" % [ast.unparse(s) for s in sp])
    info["maxsplit"] = const(sp[0].value.args[1])
    # if not fields[0].endswith(b':')
    tests = [n for n in ast.walk(gb) if isinstance(n, ast.If) and "endswith" in ast.unparse(n.test)]
    if len(tests) != 1 or ast.unparse(tests[0].test) != "not fields[0].endswith(b':')":
        raise NotRecognised("header test: %s" % [ast.unparse(t.test) for t in tests])
    # data[fields[0]] = int(fields[1]) * 1024
    st = [n for n in ast.walk(gb) if isinstance(n, ast.Assign) and ast.unparse(n.targets[0]) == "data[fields[0]]"]
    if len(st) != 1:
        raise NotRecognised("dict store not found")
    info["factor"] = _factor_of(st[0].value, lambda e: ast.unparse(e) == "int(fields[1])")
    # VmFlags skip
    fl = [n for n in ast.walk(gb) if isinstance(n, ast.If) and "startswith" in ast.unparse(n.test)]
    if len(fl) != 1 or not isinstance(fl[0].body[0], ast.Continue):
        raise NotRecognised("VmFlags skip not recognised")
    t = fl[0].test
    if not (isinstance(t, ast.Call) and ast.unparse(t.func) == "fields[0].startswith"):
        raise NotRecognised("VmFlags test: %s" % ast.unparse(t))
    info["flags_prefix"] = const(t.args[0])
    # header handling
    hs = [n for n in ast.walk(fn) if isinstance(n, ast.Assign) and dotted(n.targets[0]) == "hfields"]
    if len(hs) != 1 or ast.unparse(hs[0].value) != "header.split(None, %d)" % info["maxsplit"]:
        raise NotRecognised("hfields: %s" % [ast.unparse(h) for h in hs])
    unp = [n for n in ast.walk(fn) if isinstance(n, ast.Assign) and isinstance(n.targets[0], ast.Tuple)
           and ast.unparse(n.value).startswith("hfields")]
    names = {tuple(dotted(e) for e in u.targets[0].elts) for u in unp}
    if names != {("addr", "perms", "_offset", "_dev", "_inode", "path")}:
        raise NotRecognised("header unpack targets: %r" % names)
    if sorted(ast.unparse(u.value) for u in unp) != ["hfields", "hfields + ['']"]:
        raise NotRecognised("header unpack values: %r" % [ast.unparse(u.value) for u in unp])
    anon = [n for n in ast.walk(fn) if isinstance(n, ast.If) and ast.unparse(n.test) == "not path"]
    if len(anon) != 1 or len(anon[0].body) != 1 or not ast.unparse(anon[0].body[0]).startswith("path = "):
        raise NotRecognised("anon branch not recognised")
    info["anon"] = const(anon[0].body[0].value)
    orelse = anon[0].orelse
    srcs = [ast.unparse(s) for s in orelse]
    if not srcs or srcs[0] != "path = decode(path)":
        raise NotRecognised("path decode not first: %r" % srcs[:1])
    info["strips"] = "path = path.strip()" in srcs
    extra = [s for s in srcs[1:] if s != "path = path.strip()" and not s.startswith("if ")]
    if extra:
        raise NotRecognised("unknown path statements: %r" % extra)
    dl = [s for s in orelse if isinstance(s, ast.If)]
    if len(dl) != 1:
        raise NotRecognised("deleted test not found")
    t = dl[0].test
    if not (isinstance(t, ast.BoolOp) and isinstance(t.op, ast.And) and len(t.values) == 2
            and ast.unparse(t.values[0]).startswith("path.endswith(")
            and ast.unparse(t.values[1]) == "not path_exists_strict(path)"):
        raise NotRecognised("deleted test: %s" % ast.unparse(t))
    info["deleted"] = const(t.values[0].args[0])
    cut = dl[0].body[0]
    if not (isinstance(cut, ast.Assign) and isinstance(cut.value, ast.Subscript) and ast.unparse(cut.value.value) == "path"
            and isinstance(cut.value.slice, ast.Slice) and cut.value.slice.lower is None):
        raise NotRecognised("deleted cut: %s" % ast.unparse(cut))
    info["cut"] = -const(cut.value.slice.upper)
    # item tuple
    items = [n for n in ast.walk(fn) if isinstance(n, ast.Assign) and dotted(n.targets[0]) == "item"
             and isinstance(n.value, ast.Tuple)]
    if len(items) != 1:
        raise NotRecognised("item tuple not found")
    elts = items[0].value.elts
    head = [ast.unparse(e) for e in elts[:3]]
    if head != ["decode(addr)", "decode(perms)", "path"]:
        raise NotRecognised("item head: %r" % head)
    keys = []
    for e in elts[3:]:
        if not (isinstance(e, ast.Call) and dotted(e.func) == "data.get" and len(e.args) == 2 and const(e.args[1]) == 0):
            raise NotRecognised("item element: %s" % ast.unparse(e))
        keys.append(const(e.args[0]))
    info["keys"] = keys
    # empty file → _raise_if_zombie(); return []
    emp = [n for n in ast.walk(fn) if isinstance(n, ast.If) and ast.unparse(n.test) == "not data"]
    if len(emp) != 1 or [ast.unparse(s) for s in emp[0].body] != ["self._raise_if_zombie()", "return []"]:
        raise NotRecognised("empty-smaps branch: %r" % [ast.unparse(s) for s in (emp[0].body if emp else [])])
    return info


def _front(tree):
    cls = extract.find_class(tree, "Process")
    mm = mp = None
    for n in ast.walk(cls):
        if isinstance(n, ast.FunctionDef) and n.name == "memory_maps":
            mm = n
        if isinstance(n, ast.FunctionDef) and n.name == "memory_percent":
            mp = n
    if mm is None or mp is None:
        raise NotRecognised("front-end memory_maps / memory_percent not found")
    info = {}
    src = ast.unparse(mm)
    a = [n for n in ast.walk(mm) if isinstance(n, ast.Assign) and dotted(n.targets[0]) == "path"
         and isinstance(n.value, ast.Subscript) and dotted(n.value.value) == "tupl"]
    b = [n for n in ast.walk(mm) if isinstance(n, ast.Assign) and dotted(n.targets[0]) == "nums"
         and isinstance(n.value, ast.Subscript) and dotted(n.value.value) == "tupl"]
    if len(a) != 1 or len(b) != 1 or not isinstance(b[0].value.slice, ast.Slice) or b[0].value.slice.upper is not None:
        raise NotRecognised("grouping: path/nums subscripts not recognised")
    info["path_idx"] = const(a[0].value.slice)
    info["nums_from"] = const(b[0].value.slice.lower)
    if "d[path] = list(map(lambda x, y: x + y, d[path], nums))" not in src or "d[path] = nums" not in src:
        raise NotRecognised("grouping fold not recognised")
    if "[nt(path, *d[path]) for path in d]" not in src or "[nt(*x) for x in it]" not in src:
        raise NotRecognised("grouping output not recognised")
    psrc = ast.unparse(mp)
    for needle in ("self.memory_info if memtype in _psplatform.pmem._fields else self.memory_full_info",
                   "value = getattr(metrics, memtype)",
                   "if not total_phymem > 0:", "return value / float(total_phymem) * 100"):
        if needle not in psrc:
            raise NotRecognised("memory_percent: `%s` not found" % needle)
    tot = [n for n in ast.walk(mp) if isinstance(n, ast.Assign) and dotted(n.targets[0]) == "total_phymem"]
    if len(tot) != 1:
        raise NotRecognised("memory_percent: %d assignments to total_phymem" % len(tot))
    tsrc = ast.unparse(tot[0].value)
    if tsrc == "_TOTAL_PHYMEM or virtual_memory().total":
        info["uses_cache"] = True
    elif tsrc == "virtual_memory().total":
        info["uses_cache"] = False
    else:
        raise NotRecognised("memory_percent: total_phymem = %s" % tsrc)
    return info


def _pct_validation(tree):
    """How memory_percent validates `memtype`. The promised shape is membership in the LIST of pfullmem's field names:
    `valid_types = list(_psplatform.pfullmem._fields)` + `if memtype not in valid_types: raise ValueError(...)` as the first
    statements. Other recognisable shapes get their own value (the fact then CHANGES and cfg_good fails) rather than a skip."""
    cls = extract.find_class(tree, "Process")
    mp = [n for n in ast.walk(cls) if isinstance(n, ast.FunctionDef) and n.name == "memory_percent"]
    if len(mp) != 1:
        raise NotRecognised("front-end memory_percent not found")
    body = [st for st in mp[0].body if not (isinstance(st, ast.Expr) and isinstance(st.value, ast.Constant))]
    ifs = [st for st in body if isinstance(st, ast.If)]
    if not ifs:
        raise NotRecognised("memory_percent: no validation `if`")
    first = ifs[0]
    raises = [n for n in first.body if isinstance(n, ast.Raise)]
    exc = None
    if len(raises) == 1 and isinstance(raises[0].exc, ast.Call):
        exc = dotted(raises[0].exc.func)
    test = ast.unparse(first.test)
    before = [ast.unparse(st) for st in body[:body.index(first)]]
    if test == "memtype not in valid_types" and before == ["valid_types = list(_psplatform.pfullmem._fields)"] and not first.orelse:
        return "memtype not in list(pfullmem._fields) -> %s" % exc
    if test in ("memtype not in _psplatform.pfullmem._fields",) and not before:
        return "memtype not in pfullmem._fields -> %s" % exc
    if "hasattr(" in test:
        return "%s -> %s" % (test.replace("_psplatform.", ""), exc)
    raise NotRecognised("memory_percent validation: %r after %r" % (test, before))


def _front_vm(tree):
    """psutil.virtual_memory(): does it store ret.total into the module global _TOTAL_PHYMEM?"""
    fn = extract.find_def(tree, "virtual_memory")
    body = [st for st in fn.body if not (isinstance(st, ast.Expr) and isinstance(st.value, ast.Constant))]
    srcs = [ast.unparse(st) for st in body]
    if "ret = _psplatform.virtual_memory()" not in srcs or srcs[-1] != "return ret":
        raise NotRecognised("psutil.virtual_memory body: %r" % srcs)
    rest = [x for x in srcs if x not in ("ret = _psplatform.virtual_memory()", "return ret")]
    if rest == ["global _TOTAL_PHYMEM", "_TOTAL_PHYMEM = ret.total"] \
            and srcs.index("_TOTAL_PHYMEM = ret.total") > srcs.index("ret = _psplatform.virtual_memory()"):
        return True
    if rest == []:
        return False
    raise NotRecognised("psutil.virtual_memory: unknown statements %r" % rest)


def _vm(tree):
    """_pslinux.virtual_memory(): the /proc/meminfo loop and where `total` / `free` come from."""
    fn = extract.find_def(tree, "virtual_memory")
    loops = [n for n in ast.walk(fn) if isinstance(n, ast.For) and ast.unparse(n.iter) == "f"]
    if len(loops) != 1:
        raise NotRecognised("virtual_memory: %d `for line in f` loops" % len(loops))
    lp = loops[0]
    if len(lp.body) != 2 or ast.unparse(lp.body[0]) != "fields = line.split()":
        raise NotRecognised("virtual_memory loop body: %r" % [ast.unparse(x) for x in lp.body])
    st = lp.body[1]
    if not (isinstance(st, ast.Assign) and ast.unparse(st.targets[0]) == "mems[fields[0]]"):
        raise NotRecognised("virtual_memory loop store: %s" % ast.unparse(st))
    info = {"factor": _factor_of(st.value, lambda e: ast.unparse(e) == "int(fields[1])")}
    withs = [n for n in ast.walk(fn) if isinstance(n, ast.With) and lp in n.body]
    if len(withs) != 1 or "/meminfo" not in ast.unparse(withs[0].items[0].context_expr):
        raise NotRecognised("virtual_memory: the loop is not over the meminfo file")
    for var in ("total", "free"):
        a = [n for n in fn.body if isinstance(n, ast.Assign) and dotted(n.targets[0]) == var]
        if len(a) != 1 or not (isinstance(a[0].value, ast.Subscript) and dotted(a[0].value.value) == "mems"):
            raise NotRecognised("virtual_memory: `%s = mems[...]` not found at top level" % var)
        info[var] = const(a[0].value.slice)
    rets = [n for n in ast.walk(fn) if isinstance(n, ast.Return)]
    if len(rets) != 1 or not (isinstance(rets[0].value, ast.Call) and dotted(rets[0].value.func) == "svmem"
                              and rets[0].value.args and dotted(rets[0].value.args[0]) == "total"):
        raise NotRecognised("virtual_memory: return svmem(total, ...) not recognised")
    # `total` must not be re-assigned after the subscript
    if sum(1 for n in ast.walk(fn) if isinstance(n, (ast.Assign, ast.AugAssign))
           and any(dotted(t) == "total" for t in (n.targets if isinstance(n, ast.Assign) else [n.target]))) != 1:
        raise NotRecognised("virtual_memory: total is assigned more than once")
    return info


DECORATED = ["memory_info", "_parse_smaps_rollup", "_parse_smaps", "memory_full_info", "memory_maps", "_read_smaps_file"]
DECORATED_FRONT = ["memory_info", "memory_full_info", "memory_maps", "memory_percent"]


def _decorators(lx_tree, front_tree):
    """decorator lists (outermost first) of the platform methods the property is anchored in and of the front-end methods
    that reach them: `_parse_smaps_rollup` must stay undecorated (its ESRCH is caught by memory_full_info)"""
    out = []
    for name in DECORATED:
        fn = _proc_method(lx_tree, name)
        out.append((name, [dotted(d) if not isinstance(d, ast.Call) else ast.unparse(d) for d in fn.decorator_list]))
    cls = extract.find_class(front_tree, "Process")
    for name in DECORATED_FRONT:
        fns = [n for n in ast.walk(cls) if isinstance(n, ast.FunctionDef) and n.name == name]   # memory_maps sits under an `if hasattr(...)`
        if len(fns) != 1:
            raise NotRecognised("front-end Process.%s: %d definitions" % (name, len(fns)))
        out.append(("Process." + name, [dotted(d) if not isinstance(d, ast.Call) else ast.unparse(d) for d in fns[0].decorator_list]))
    return out


def facts(snap, F):
    cache = {}

    def lx():
        if "lx" not in cache:
            cache["lx"] = extract.parse_module(snap, "_pslinux.py")
        return cache["lx"]

    def memo(key, fn):
        def g():
            if key not in cache:
                try:
                    cache[key] = ("ok", fn())
                except Exception as e:  # re-raised for every fact that needs it
                    cache[key] = ("err", e)
            st, v = cache[key]
            if st == "err":
                raise v
            return v
        return g

    nts = memo("nts", lambda: _namedtuples(lx()))
    statm = memo("statm", lambda: _statm(lx()))
    roll = memo("roll", lambda: _rollup(lx()))
    psm = memo("psm", lambda: _parse_smaps(lx()))
    maps = memo("maps", lambda: _maps(lx()))
    full = memo("full", lambda: _full_info(lx()))
    front = memo("front", lambda: _front(extract.parse_module(snap, "__init__.py")))
    pval = memo("pval", lambda: _pct_validation(extract.parse_module(snap, "__init__.py")))
    fvm = memo("fvm", lambda: _front_vm(extract.parse_module(snap, "__init__.py")))
    vm = memo("vm", lambda: _vm(lx()))
    decos = memo("decos", lambda: _decorators(lx(), extract.parse_module(snap, "__init__.py")))
    S, L, B, N = extract.lean_str, extract.lean_list, extract.lean_bytes, extract.lean_nat

    F.try_add("statmOrder", "List Nat", lambda: L(statm()[0], N),
              "for each pmem field, the /proc/pid/statm column it receives (unpack names vs pmem(...) arguments)")
    F.try_add("statmTake", "Nat", lambda: N(statm()[1]), "the `[:7]` slice of memory_info")
    F.try_add("pmemFields", "List String", lambda: L(nts()["pmem"], S), "pmem._fields")
    F.try_add("pfullmemFields", "List String", lambda: L(nts()["pfullmem"], S), "pfullmem._fields")
    F.try_add("pmmapGroupedFields", "List String", lambda: L(nts()["pmmap_grouped"], S), "pmmap_grouped._fields")
    F.try_add("pmmapExtFields", "List String", lambda: L(nts()["pmmap_ext"], S), "pmmap_ext._fields")
    F.try_add("mapsKeys", "List (List Nat)", lambda: L(maps()["keys"], B),
              "keys read by memory_maps out of the per-mapping dict, in row order")
    F.try_add("mapsFactor", "Nat", lambda: N(maps()["factor"]), "`int(fields[1]) * 1024` in get_blocks")
    F.try_add("mapsMaxsplit", "Nat", lambda: N(maps()["maxsplit"]), "`line.split(None, 5)` / `header.split(None, 5)`")
    F.try_add("mapsDictPerBlock", "Bool", lambda: extract.lean_bool(maps()["dict_created_in_loop"]),
              "is get_blocks' dict re-created / cleared for every mapping? (false: created once)")
    F.try_add("anonName", "List Nat", lambda: B(maps()["anon"].encode()), "'[anon]'")
    F.try_add("deletedSuffix", "List Nat", lambda: B(maps()["deleted"].encode()), "' (deleted)'")
    F.try_add("deletedCut", "Nat", lambda: N(maps()["cut"]), "`path[:-10]`")
    F.try_add("stripsPath", "Bool", lambda: extract.lean_bool(maps()["strips"]),
              "does memory_maps strip() the decoded path (which drops trailing blanks of a file name)?")
    F.try_add("flagsPrefix", "List Nat", lambda: B(maps()["flags_prefix"]), "b'VmFlags:'")
    F.try_add("smapsFactor", "Nat", lambda: N(psm()["uss"][1]), "`* 1024` of the three sums in _parse_smaps")
    F.try_add("privateRe", "String", lambda: S(psm()["uss"][0].decode("latin-1")), "regex summed into uss")
    F.try_add("pssRe", "String", lambda: S(psm()["pss"][0].decode("latin-1")), "regex summed into pss")
    F.try_add("swapRe", "String", lambda: S(psm()["swap"][0].decode("latin-1")), "regex summed into swap")
    F.try_add("privateReB", "List Nat", lambda: B(psm()["uss"][0]), "the same pattern text as bytes (compiled by Model/C13Re.lean compileRe)")
    F.try_add("pssReB", "List Nat", lambda: B(psm()["pss"][0]), "the same pattern text as bytes")
    F.try_add("swapReB", "List Nat", lambda: B(psm()["swap"][0]), "the same pattern text as bytes")
    F.try_add("methodDecorators", "List (String × List String)",
              lambda: L(decos(), lambda e: "(%s, %s)" % (S(e[0]), L(e[1], S))),
              "decorators (outermost first) of the _pslinux.Process methods behind memory_info / memory_full_info / memory_maps and of the front-end methods (`Process.` prefix)")
    F.try_add("rollupPrefixes", "List (List Nat)", lambda: L(roll()[0], B),
              "startswith() prefixes of _parse_smaps_rollup in branch order (uss +=, pss =, swap =)")
    F.try_add("rollupFactor", "Nat", lambda: N(roll()[1]), "`* 1024` in _parse_smaps_rollup")
    F.try_add("fallbackExcs", "List String", lambda: L(full(), S),
              "exceptions of the roll-up that make memory_full_info fall back to smaps")
    F.try_add("groupPathIdx", "Nat", lambda: N(front()["path_idx"]), "`path = tupl[2]` in the grouping loop")
    F.try_add("groupNumsFrom", "Nat", lambda: N(front()["nums_from"]), "`nums = tupl[3:]` in the grouping loop")
    F.try_add("pctValidation", "String", lambda: S(pval()),
              "how memory_percent validates memtype (membership in list(pfullmem._fields), rejected with ValueError)")
    F.try_add("pctUsesCache", "Bool", lambda: extract.lean_bool(front()["uses_cache"]),
              "memory_percent: `total_phymem = _TOTAL_PHYMEM or virtual_memory().total` (false: always virtual_memory().total)")
    F.try_add("vmStoresTotal", "Bool", lambda: extract.lean_bool(fvm()),
              "psutil.virtual_memory() does `global _TOTAL_PHYMEM; _TOTAL_PHYMEM = ret.total`")
    F.try_add("meminfoFactor", "Nat", lambda: N(vm()["factor"]), "`mems[fields[0]] = int(fields[1]) * 1024` in _pslinux.virtual_memory")
    F.try_add("meminfoTotalKey", "List Nat", lambda: B(vm()["total"]), "`total = mems[b'MemTotal:']`")
    F.try_add("meminfoFreeKey", "List Nat", lambda: B(vm()["free"]), "`free = mems[b'MemFree:']`")
