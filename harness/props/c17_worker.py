"""C17 worker: runs the freshly built extension (normal or ASan+UBSan build) in a SUB-PROCESS.

usage: python -X utf8 c17_worker.py <dir containing the psutil package> <scratch dir>

Protocol: one JSON object per stdin line, one JSON object per stdout line, strictly alternating.
A crash (signal, sanitizer abort) kills only this process: the parent then knows the last line it
sent is the crashing input, and reads the sanitizer report from the stderr file.

Never touches any process except itself and a sacrificial `sleep` child it spawns.
"""
import ctypes
import errno
import json
import os
import signal
import subprocess
import sys

SNAP, SCRATCH = sys.argv[1], sys.argv[2]
sys.path.insert(0, SNAP)
import psutil  # noqa: E402
from psutil import _pslinux  # noqa: E402
from psutil import _psutil_linux as cext  # noqa: E402
from psutil import _psutil_posix as cext_posix  # noqa: E402

assert os.path.abspath(psutil.__file__).startswith(os.path.abspath(SNAP)), psutil.__file__
libc = ctypes.CDLL(None, use_errno=True)
MODS = {"linux": cext, "posix": cext_posix}
PID_MAX_PLUS = 4194304 + 77          # above pid_max: never an existing process

_child = None


def child():
    """A sacrificial process (dies with us) that setters are aimed at."""
    global _child
    if _child is None or _child.poll() is not None:
        env = {k: v for k, v in os.environ.items() if k not in ("LD_PRELOAD", "ASAN_OPTIONS", "UBSAN_OPTIONS")}

        def pre():
            ctypes.CDLL(None).prctl(1, signal.SIGKILL)   # PR_SET_PDEATHSIG
        _child = subprocess.Popen(["/bin/sleep", "3600"], env=env, preexec_fn=pre,
                                  stdin=subprocess.DEVNULL, stdout=subprocess.DEVNULL, stderr=subprocess.DEVNULL)
    return _child.pid


class Idx:
    def __init__(self, v):
        self.v = v

    def __index__(self):
        return self.v


class IntSub(int):
    pass


class BadBool:
    def __bool__(self):
        raise RuntimeError("no truth value")


class BadSeq:
    """a sequence whose items cannot be fetched"""
    def __init__(self, n):
        self.n = n

    def __len__(self):
        return self.n

    def __getitem__(self, i):
        raise KeyError(i)


def dec(a):
    t = a["t"]
    if t == "int":
        return int(a["v"])
    if t == "str":
        return a["v"]
    if t == "bytes":
        return bytes.fromhex(a["v"])
    if t == "none":
        return None
    if t == "float":
        return float(a["v"])
    if t == "bool":
        return bool(a["v"])
    if t == "list":
        return [dec(x) for x in a["v"]]
    if t == "tuple":
        return tuple(dec(x) for x in a["v"])
    if t == "set":
        return {dec(x) for x in a["v"]}
    if t == "dict":
        return {}
    if t == "range":
        return range(int(a["v"]))
    if t == "idx":
        return Idx(int(a["v"]))
    if t == "intsub":
        return IntSub(int(a["v"]))
    if t == "obj":
        return object()
    if t == "badbool":
        return BadBool()
    if t == "badseq":
        return BadSeq(int(a["v"]))
    if t == "pidplus":
        # the sacrificial child's PID (or a PID above pid_max) plus a multiple of 2**32 / 2**64
        return {"child": child, "nopid": lambda: PID_MAX_PLUS}[a["v"]]() + int(a["k"])
    if t == "pid":
        return {"child": child, "self": os.getpid, "zero": lambda: 0, "nopid": lambda: PID_MAX_PLUS}[a["v"]]()
    raise ValueError(a)


def fs(x):
    return None if x is None else os.fsencode(x).hex()


def exc_obs(e):
    d = {"kind": "exc", "exc": type(e).__name__}
    if isinstance(e, OSError):
        d["oserror"] = True
    if isinstance(e, OSError) and e.errno is not None:
        d["errno"] = errno.errorcode.get(e.errno, str(e.errno))
    if isinstance(e, psutil.Error):
        d["psutil"] = True
    return d


def num(x):
    if isinstance(x, float) and x == int(x):
        return int(x)
    return x


def all_cpus():
    # what the kernel considers when intersecting the mask
    return sorted(os.sched_getaffinity(1) | os.sched_getaffinity(0))


FULL = None
_errno_loc = None


def poison_errno(v):
    """write `v` into the thread's real errno (what an earlier, unrelated libc call could have left there)"""
    global _errno_loc
    if _errno_loc is None:
        f = libc.__errno_location
        f.restype = ctypes.POINTER(ctypes.c_int)
        _errno_loc = f()
    _errno_loc[0] = int(v)


def _script(name, text):
    with open(os.path.join(SCRATCH, name), "w") as f:
        f.write(text)


def _unscript(name):
    try:
        os.unlink(os.path.join(SCRATCH, name))
    except OSError:
        pass


def sval(x):
    return None if x is None else (x.encode("utf-8", "surrogateescape").hex() if isinstance(x, str) else x)


def do_ifaddrs(c):
    """cext_posix.net_if_addrs() over a scripted getifaddrs() list (needs the shim2 preload)."""
    lines = []
    for e in c["entries"]:
        lines.append("%s %d %s %s %s" % (e["name"] or "00", e["flags"], e["addr"] or "-", e["netmask"] or "-", e["ifu"] or "-"))
    _script("ifaddrs.txt", "\n".join(lines) + "\n")
    try:
        if c.get("errno") is not None:
            poison_errno(c["errno"])
        rows = cext_posix.net_if_addrs()
        out = {"kind": "ok", "rows": [[sval(v) for v in r] for r in rows]}
    except Exception as e:  # noqa: BLE001
        out = exc_obs(e)
    finally:
        _unscript("ifaddrs.txt")
    return out


def do_ifr(c):
    """the four ifreq entry points over a scripted ioctl(); reports the ifr_name bytes each ioctl carried"""
    _script("ioctl.txt", "%d %d %d %d %d %d %d\n" % (c["ret"], c["err"], c["mtu"], c["flags"], c["lo"], c["hi"], c["duplex"]))
    _unscript("ioctl.out")
    name = os.fsdecode(bytes.fromhex(c["name"]))
    out = {}
    try:
        for key, fn in (("mtu", cext_posix.net_if_mtu), ("flags", cext_posix.net_if_flags), ("running", cext_posix.net_if_is_running),
                        ("duplex_speed", cext.net_if_duplex_speed)):
            try:
                if c.get("errno") is not None:
                    poison_errno(c["errno"])
                out[key] = {"kind": "value", "value": fn(name)}
            except Exception as e:  # noqa: BLE001
                out[key] = exc_obs(e)
        try:
            with open(os.path.join(SCRATCH, "ioctl.out")) as f:
                out["ioctls"] = [l.split() for l in f.read().splitlines()]
        except OSError:
            out["ioctls"] = []
    finally:
        _unscript("ioctl.txt")
        _unscript("ioctl.out")
    return out


def do_sysinfo(c):
    _script("sysinfo.txt", " ".join(str(v) for v in c["vals"]) + "\n")
    try:
        if c.get("errno") is not None:
            poison_errno(c["errno"])
        return {"kind": "value", "value": list(cext.linux_sysinfo())}
    except Exception as e:  # noqa: BLE001
        return exc_obs(e)
    finally:
        _unscript("sysinfo.txt")


def do_getprio(c):
    """posix.getpriority() of the sacrificial child at a chosen nice value, with a stale errno on entry"""
    pid = child() if c["target"] == "child" else PID_MAX_PLUS
    out = {}
    if c["target"] == "child":
        try:
            os.setpriority(os.PRIO_PROCESS, pid, int(c["nice"]))
            out["nice_set"] = os.getpriority(os.PRIO_PROCESS, pid)
        except OSError as e:
            out["nice_set"] = None
            out["set_error"] = errno.errorcode.get(e.errno, str(e.errno))
    try:
        poison_errno(c["errno"])
        out.update({"kind": "value", "value": cext_posix.getpriority(pid)})
    except Exception as e:  # noqa: BLE001
        out.update(exc_obs(e))
        if isinstance(e, OSError) and e.errno is not None:
            out["errno_num"] = e.errno
    return out



def do_users(c):
    path = os.path.join(SCRATCH, "utmp")
    with open(path, "wb") as f:
        f.write(bytes.fromhex(c["file"]))
    libc.utmpname(path.encode())
    out = {}
    try:
        raw = cext.users()
        out["raw"] = [[fs(a), fs(b), fs(h), num(t), p] for a, b, h, t, p in raw]
    except Exception as e:  # noqa: BLE001
        out["raw"] = exc_obs(e)
    try:
        rows = psutil.users()
        out["rows"] = [[fs(u.name), fs(u.terminal), fs(u.host), num(u.started), u.pid] for u in rows]
        out["types"] = sorted({type(u).__name__ for u in rows})
    except Exception as e:  # noqa: BLE001
        out["rows"] = exc_obs(e)
    return out


class StubRootFinder:
    answer = None
    calls = 0

    def find(self):
        StubRootFinder.calls += 1
        return StubRootFinder.answer


def do_partitions(c):
    root = os.path.join(SCRATCH, "proc")
    os.makedirs(os.path.join(root, "self"), exist_ok=True)
    with open(os.path.join(root, "filesystems"), "wb") as f:
        f.write(bytes.fromhex(c["filesystems"]))
    mpath = os.path.join(root, "self", "mounts")
    with open(mpath, "wb") as f:
        f.write(bytes.fromhex(c["mounts"]))
    out = {}
    try:
        raw = cext.disk_partitions(mpath)
        out["raw"] = [[fs(a), fs(b), fs(t), fs(o)] for a, b, t, o in raw]
    except Exception as e:  # noqa: BLE001
        out["raw"] = exc_obs(e)
    orig = _pslinux.RootFsDeviceFinder
    StubRootFinder.answer = None if c.get("root") is None else os.fsdecode(bytes.fromhex(c["root"]))
    StubRootFinder.calls = 0
    _pslinux.RootFsDeviceFinder = StubRootFinder
    psutil.PROCFS_PATH = root
    try:
        for all_ in c["all"]:
            key = "all" if all_ else "phys"
            try:
                rows = psutil.disk_partitions(all=all_)
                out[key] = {"kind": "ok", "rows": [[fs(p.device), fs(p.mountpoint), fs(p.fstype), fs(p.opts)] for p in rows]}
            except Exception as e:  # noqa: BLE001
                out[key] = exc_obs(e)
    finally:
        psutil.PROCFS_PATH = "/proc"
        _pslinux.RootFsDeviceFinder = orig
    out["root_calls"] = StubRootFinder.calls
    return out


# ----------------------------------------------------------------------------- seeded round 5: several threads at once

def do_mt_sched(c):
    """n threads call cext.disk_partitions(), each on its OWN named pipe; the parent process feeds the pipes line by line
    (it decides when each thread's getmntent() can return) and drives the `holder` thread, which owns the GIL while it
    sits in a blocking read made through ctypes.PyDLL (PyDLL calls keep the GIL)."""
    import threading
    n = len(c["fifos"])
    old = sys.getswitchinterval()
    sys.setswitchinterval(float(c.get("switch", 0.0003)))
    c1 = os.open(c["ctl1"], os.O_RDONLY)
    c2 = os.open(c["ctl2"], os.O_RDONLY)
    keep = [os.open(p, os.O_RDONLY) for p in c["fifos"]]          # our copies of the read ends (see c17_thr.run_sched)
    mpaths = ["/proc/self/fd/%d" % fd for fd in keep]
    pydll = ctypes.PyDLL(None)
    pydll.read.argtypes = [ctypes.c_int, ctypes.c_void_p, ctypes.c_size_t]
    pydll.read.restype = ctypes.c_ssize_t
    buf = ctypes.create_string_buffer(8)
    results = [None] * n
    gate = threading.Barrier(n + 1)

    def holder():
        while os.read(c1, 1) == b"h":        # GIL released while waiting for the order
            pydll.read(c2, buf, 1)           # GIL HELD until the parent writes the `free` byte

    def call(i):
        gate.wait()
        try:
            raw = cext.disk_partitions(mpaths[i])
            results[i] = {"kind": "ok", "rows": [[fs(a), fs(b), fs(t), fs(o)] for a, b, t, o in raw]}
        except Exception as e:  # noqa: BLE001
            results[i] = exc_obs(e)

    h = threading.Thread(target=holder)
    ths = [threading.Thread(target=call, args=(i,)) for i in range(n)]
    try:
        h.start()
        for t in ths:
            t.start()
        gate.wait()
        for t in ths:
            t.join()
        h.join()
    finally:
        sys.setswitchinterval(old)
        for fd in [c1, c2] + keep:
            os.close(fd)
    return {"results": results}


def do_mt_stress(c):
    """k threads × r rounds of the same call, started together, with a tiny switch interval: every result must be the
    single-threaded one (disk_partitions: each thread on its own regular file; users: one utmp file for all)."""
    import threading
    kind, k, rounds = c["kind"], int(c["threads"]), int(c["rounds"])
    paths = []
    if kind == "partitions":
        for i, hx in enumerate(c["files"]):
            pth = os.path.join(SCRATCH, "mt-mounts-%d" % i)
            with open(pth, "wb") as f:
                f.write(bytes.fromhex(hx))
            paths.append(pth)

        def one(i):
            return [[fs(a), fs(b), fs(t), fs(o)] for a, b, t, o in cext.disk_partitions(paths[i % len(paths)])]
    else:
        pth = os.path.join(SCRATCH, "utmp")
        with open(pth, "wb") as f:
            f.write(bytes.fromhex(c["files"][0]))
        libc.utmpname(pth.encode())

        def one(i):
            return [[fs(a), fs(b), fs(h), num(t), p] for a, b, h, t, p in cext.users()]
    try:
        single = [one(i) for i in range(k)]
    except Exception as e:  # noqa: BLE001
        return {"single": exc_obs(e)}
    bad = []
    calls = [0] * k
    stop = threading.Event()
    gate = threading.Barrier(k)
    old = sys.getswitchinterval()

    def body(i):
        gate.wait()
        for rnd in range(rounds):
            if stop.is_set():
                return
            try:
                got = one(i)
            except Exception as e:  # noqa: BLE001
                got = exc_obs(e)
            calls[i] += 1
            if got != single[i]:
                idx = 0
                if isinstance(got, list):
                    while idx < min(len(got), len(single[i])) and got[idx] == single[i][idx]:
                        idx += 1
                bad.append({"thread": i, "round": rnd, "first_wrong_entry": idx, "n_got": len(got) if isinstance(got, list) else None,
                            "n_want": len(single[i]), "got": got[idx:idx + 2] if isinstance(got, list) else got,
                            "want": single[i][idx:idx + 2]})
                stop.set()
                return

    ths = [threading.Thread(target=body, args=(i,)) for i in range(k)]
    sys.setswitchinterval(float(c.get("switch", 1e-6)))
    try:
        for t in ths:
            t.start()
        for t in ths:
            t.join()
    finally:
        sys.setswitchinterval(old)
    return {"single": single, "bad": bad[:2], "calls": sum(calls)}


# ----------------------------------------------------------------------------- round 2: Python-side wrappers

def _obs(fn):
    try:
        r = fn()
        return {"kind": "none"} if r is None else {"kind": "found", "path": os.fsencode(r).hex()}
    except Exception as e:  # noqa: BLE001
        return exc_obs(e)


def do_rootfs(c):
    """RootFsDeviceFinder over a scripted /proc/partitions + /sys tree (files under SCRATCH; open_text / glob.iglob /
    os.path.exists of _pslinux redirected for the duration of the call; major/minor set on the instance)."""
    from unittest import mock
    import shutil
    root = os.path.join(SCRATCH, "rootfs")
    shutil.rmtree(root, ignore_errors=True)
    proc = os.path.join(root, "proc")
    sysd = os.path.join(root, "sys")
    os.makedirs(proc)
    os.makedirs(os.path.join(sysd, "dev", "block"))
    os.makedirs(os.path.join(sysd, "class", "block"))
    if c["partitions"] is not None:
        with open(os.path.join(proc, "partitions"), "wb") as f:
            f.write(bytes.fromhex(c["partitions"]))
    for a, b, text in c["uevents"]:
        d = os.path.join(sysd, "dev", "block", "%d:%d" % (a, b))
        os.makedirs(d, exist_ok=True)
        with open(os.path.join(d, "uevent"), "wb") as f:
            f.write(bytes.fromhex(text))
    listed = []
    for name, content in c["classdevs"]:
        d = os.path.join(sysd, "class", "block", os.fsdecode(bytes.fromhex(name)))
        os.makedirs(d, exist_ok=True)
        if content is not None:
            with open(os.path.join(d, "dev"), "wb") as f:
                f.write(bytes.fromhex(content))
        listed.append(os.path.join(d, "dev"))
    exists = {os.fsdecode(bytes.fromhex(x)) for x in c["exists"]}
    real_open_text = _pslinux.open_text
    real_exists = os.path.exists

    def fake_open_text(path):
        if path.startswith("/sys/"):
            path = sysd + path[4:]
        return real_open_text(path)

    def fake_iglob(pattern, *a, **k):
        assert pattern == "/sys/class/block/*/dev", pattern
        return iter(listed)

    def fake_exists(p):
        if isinstance(p, str) and p.startswith("/dev/"):
            return p in exists
        return real_exists(p)
    out = {}
    psutil.PROCFS_PATH = proc
    try:
        with mock.patch.object(_pslinux, "open_text", fake_open_text), mock.patch.object(_pslinux.glob, "iglob", fake_iglob), \
                mock.patch.object(_pslinux.os.path, "exists", fake_exists):
            fd = _pslinux.RootFsDeviceFinder.__new__(_pslinux.RootFsDeviceFinder)
            fd.major, fd.minor = int(c["major"]), int(c["minor"])
            out["strategies"] = [_obs(fd.ask_proc_partitions), _obs(fd.ask_sys_dev_block), _obs(fd.ask_sys_class_block)]
            out["find"] = _obs(fd.find)
    finally:
        psutil.PROCFS_PATH = "/proc"
    real = _pslinux.RootFsDeviceFinder()
    st = os.stat("/").st_dev
    out["init_ok"] = (real.major, real.minor) == (os.major(st), os.minor(st))
    return out


def do_netifstats(c):
    """psutil.net_if_stats() over a scripted /proc/net/dev (names) and scripted ioctl answers per NIC (shim2)."""
    root = os.path.join(SCRATCH, "nisproc")
    os.makedirs(os.path.join(root, "net"), exist_ok=True)
    lines = ["Inter-|   Receive                                                |  Transmit",
             " face |bytes    packets errs drop fifo frame compressed multicast|bytes    packets errs drop fifo colls carrier compressed"]
    for n in c["nics"]:
        lines.append("%6s: %s" % (os.fsdecode(bytes.fromhex(n["name"])), " ".join(["0"] * 16)))
    with open(os.path.join(root, "net", "dev"), "wb") as f:
        f.write(os.fsencode("\n".join(lines) + "\n"))
    script = ["0 0 0 0 0 0 0"]
    for n in c["nics"]:
        for code, key in (("M", "mtu"), ("F", "flags"), ("E", "eth")):
            a = n[key]
            if "err" in a:
                script.append("%s %s -1 %d 0 0 0 0 0" % (n["name"], code, a["err"]))
            elif key == "mtu":
                script.append("%s %s 0 0 %d 0 0 0 0" % (n["name"], code, a["ok"]))
            elif key == "flags":
                script.append("%s %s 0 0 0 %d 0 0 0" % (n["name"], code, a["ok"]))
            else:
                script.append("%s %s 0 0 0 0 %d %d %d" % (n["name"], code, a["ok"][2], a["ok"][1], a["ok"][0]))
    _script("ioctl.txt", "\n".join(script) + "\n")
    _unscript("ioctl.out")
    psutil.PROCFS_PATH = root
    try:
        if c.get("errno") is not None:
            poison_errno(c["errno"])
        st = psutil.net_if_stats()
        out = {"kind": "ok", "rows": [[os.fsencode(k).hex(), bool(v.isup), int(v.duplex), v.speed, v.mtu, os.fsencode(v.flags).hex()]
                                      for k, v in st.items()],
               "types": sorted({type(v).__name__ for v in st.values()})}
    except Exception as e:  # noqa: BLE001
        out = exc_obs(e)
        if isinstance(e, OSError) and e.errno is not None:
            out["errno_num"] = e.errno
        if isinstance(e, KeyError):
            out["key"] = e.args[0] if e.args and isinstance(e.args[0], int) else None
    finally:
        psutil.PROCFS_PATH = "/proc"
        _unscript("ioctl.txt")
        _unscript("ioctl.out")
    return out


def do_netifaddrs_front(c):
    """psutil.net_if_addrs() (the front end of psutil/__init__.py) over a scripted getifaddrs() list."""
    lines = []
    for e in c["entries"]:
        lines.append("%s %d %s %s %s" % (e["name"] or "00", e["flags"], e["addr"] or "-", e["netmask"] or "-", e["ifu"] or "-"))
    _script("ifaddrs.txt", "\n".join(lines) + "\n")
    try:
        d = psutil.net_if_addrs()
        out = {"kind": "ok", "dict": [[sval(k), [[int(a.family), sval(a.address), sval(a.netmask), sval(a.broadcast), sval(a.ptp)] for a in v]]
                                      for k, v in d.items()],
               "types": sorted({type(a).__name__ for v in d.values() for a in v}),
               "famtypes": sorted({type(a.family).__name__ for v in d.values() for a in v})}
    except Exception as e:  # noqa: BLE001
        out = exc_obs(e)
    finally:
        _unscript("ifaddrs.txt")
    return out



# ----------------------------------------------------------------------------- round 3: failure paths of the OS calls

def _exc_full(e):
    d = exc_obs(e)
    if isinstance(e, OSError):
        d["errno_num"] = e.errno
        d["strerror"] = e.strerror if isinstance(e.strerror, str) else None
    return d


def do_ifaddrs_fail(c):
    """cext_posix.net_if_addrs() when getifaddrs() itself fails (shim2: errno, and whether libc stored NULL into *ifap)."""
    _script("ifaddrs.txt", "FAIL %d %d\n" % (int(c["err"]), 1 if c["stores_null"] else 0))
    try:
        if c.get("errno") is not None:
            poison_errno(c["errno"])
        rows = cext_posix.net_if_addrs()
        out = {"kind": "ok", "rows": len(rows)}
    except Exception as e:  # noqa: BLE001
        out = _exc_full(e)
    finally:
        _unscript("ifaddrs.txt")
    return out


def do_ifr_sockfail(c):
    """the four ifreq entry points when socket() fails: OSError with that errno, no ioctl issued"""
    _script("socket.txt", "%d\n" % int(c["err"]))
    _script("ioctl.txt", "0 0 1500 0 0 0 0\n")
    _unscript("socket.out")
    _unscript("ioctl.out")
    name = os.fsdecode(bytes.fromhex(c["name"]))
    out = {}
    try:
        for key, fn in (("mtu", cext_posix.net_if_mtu), ("flags", cext_posix.net_if_flags), ("running", cext_posix.net_if_is_running),
                        ("duplex_speed", cext.net_if_duplex_speed)):
            try:
                if c.get("errno") is not None:
                    poison_errno(c["errno"])
                out[key] = {"kind": "value", "value": fn(name)}
            except Exception as e:  # noqa: BLE001
                out[key] = _exc_full(e)
        for k, f in (("sockets", "socket.out"), ("ioctls", "ioctl.out")):
            try:
                with open(os.path.join(SCRATCH, f)) as fh:
                    out[k] = len(fh.read().splitlines())
            except OSError:
                out[k] = 0
    finally:
        for f in ("socket.txt", "ioctl.txt", "socket.out", "ioctl.out"):
            _unscript(f)
    return out


def do_ifr_errmsg(c):
    """the ifreq entry points when the ioctl fails with an errno whose strerror() text is long: the message psutil formats into
    its fixed `fullmsg` buffer comes back as OSError.strerror"""
    _script("ioctl.txt", "-1 %d 0 0 0 0 0\n" % int(c["err"]))
    _unscript("ioctl.out")
    name = os.fsdecode(bytes.fromhex(c["name"]))
    out = {}
    try:
        for key, fn in (("mtu", cext_posix.net_if_mtu), ("flags", cext_posix.net_if_flags), ("running", cext_posix.net_if_is_running),
                        ("duplex_speed", cext.net_if_duplex_speed)):
            try:
                out[key] = {"kind": "value", "value": fn(name)}
            except Exception as e:  # noqa: BLE001
                out[key] = _exc_full(e)
    finally:
        _unscript("ioctl.txt")
        _unscript("ioctl.out")
    return out


def do_partitions_mtab(c):
    """psutil.disk_partitions() with PROCFS_PATH left at "/proc": which mounts file is read (os.path.isfile('/etc/mtab') and
    os.path.realpath scripted; the paths handed to cext.disk_partitions are recorded; /proc/filesystems is the real one)"""
    from unittest import mock
    mtab = os.path.join(SCRATCH, "mtab")
    selfm = os.path.join(SCRATCH, "selfmounts")
    with open(mtab, "wb") as f:
        f.write(bytes.fromhex(c["mtab"]))
    with open(selfm, "wb") as f:
        f.write(bytes.fromhex(c["selfmounts"]))
    real_isfile, real_realpath = os.path.isfile, os.path.realpath
    asked = []

    def fake_isfile(p):
        if p == "/etc/mtab":
            return bool(c["has_mtab"])
        return real_isfile(p)

    def fake_realpath(p, *a, **k):
        asked.append(p)
        if p == "/etc/mtab":
            return mtab
        if p == "/proc/self/mounts":
            return selfm
        return real_realpath(p, *a, **k)
    orig = _pslinux.RootFsDeviceFinder
    StubRootFinder.answer = None
    _pslinux.RootFsDeviceFinder = StubRootFinder
    out = {}
    try:
        assert psutil.PROCFS_PATH == "/proc"
        with mock.patch.object(_pslinux.os.path, "isfile", fake_isfile), mock.patch.object(_pslinux.os.path, "realpath", fake_realpath):
            try:
                rows = psutil.disk_partitions(all=True)
                out = {"kind": "ok", "rows": [[fs(p.device), fs(p.mountpoint), fs(p.fstype), fs(p.opts)] for p in rows],
                       "fields": list(rows[0]._fields) if rows else None}
            except Exception as e:  # noqa: BLE001
                out = exc_obs(e)
    finally:
        _pslinux.RootFsDeviceFinder = orig
    out["asked"] = asked
    return out


def raw_ioprio(pid):
    try:
        return list(cext.proc_ioprio_get(pid))
    except Exception as e:  # noqa: BLE001
        return exc_obs(e)


def do_call(c):
    fn = getattr(MODS[c["mod"]], c["fn"])
    try:
        args = [dec(a) for a in c["args"]]
    except Exception as e:  # noqa: BLE001
        return {"kind": "bad-arg", "why": repr(e)}
    out = {}
    post = c.get("post")
    if post == "affinity":
        # start from the full set so that the effect of the call is visible
        try:
            os.sched_setaffinity(child(), all_cpus())
        except OSError:
            pass
    if post == "ioprio":
        try:
            cext.proc_ioprio_set(child(), 0, 0)
        except Exception:  # noqa: BLE001
            pass
    if post == "nice":
        try:
            os.setpriority(os.PRIO_PROCESS, child(), 0)
        except OSError:
            pass
    try:
        if c.get("errno") is not None:
            poison_errno(c["errno"])
        r = fn(*args)
        out["kind"] = "value"
        if c.get("want"):
            out["value"] = json.loads(json.dumps(r, default=repr))
        else:
            out["type"] = type(r).__name__
    except BaseException as e:  # noqa: BLE001
        if isinstance(e, (KeyboardInterrupt, SystemExit)):
            raise
        out = exc_obs(e)
    if post == "affinity":
        out["affinity"] = sorted(os.sched_getaffinity(child()))
        out["all_cpus"] = all_cpus()
    if post == "ioprio":
        out["ioprio"] = raw_ioprio(child())
        try:
            cext.proc_ioprio_set(child(), 0, 0)          # restore
        except Exception:  # noqa: BLE001
            pass
    if post == "nice":
        try:
            out["nice"] = os.getpriority(os.PRIO_PROCESS, child())
            os.setpriority(os.PRIO_PROCESS, child(), 0)  # restore
        except OSError as e:
            out["nice"] = errno.errorcode.get(e.errno, str(e.errno))
    if post == "affinity":
        try:
            os.sched_setaffinity(child(), all_cpus())    # restore
        except OSError:
            pass
    if c["fn"] == "set_debug":
        cext.set_debug(False)
    return out


def do_ionice(c):
    p = psutil.Process(child())
    try:
        cext.proc_ioprio_set(child(), 0, 0)
    except Exception:  # noqa: BLE001
        pass
    try:
        value = None if c["value"] is None else int(c["value"])
        r = p.ionice(int(c["cls"]), value)
        out = {"kind": "value", "none": r is None}
    except Exception as e:  # noqa: BLE001
        out = exc_obs(e)
    out["ioprio"] = raw_ioprio(child())
    return out


def do_netif(c):
    out = {}
    try:
        addrs = psutil.net_if_addrs()
        out["addrs"] = {k: [[int(a.family), a.address, a.netmask, a.broadcast, a.ptp] for a in v] for k, v in addrs.items()}
    except Exception as e:  # noqa: BLE001
        out["addrs"] = exc_obs(e)
    try:
        st = psutil.net_if_stats()
        out["stats"] = {k: {"isup": v.isup, "mtu": v.mtu, "flags": v.flags, "speed": v.speed, "duplex": int(v.duplex)} for k, v in st.items()}
    except Exception as e:  # noqa: BLE001
        out["stats"] = exc_obs(e)
    out["flags"] = {}
    out["mtu"] = {}
    for name in c.get("names", []):
        try:
            out["flags"][name] = cext_posix.net_if_flags(name)
        except Exception as e:  # noqa: BLE001
            out["flags"][name] = exc_obs(e)
        try:
            out["mtu"][name] = cext_posix.net_if_mtu(name)
        except Exception as e:  # noqa: BLE001
            out["mtu"][name] = exc_obs(e)
    out["af_link"] = int(psutil.AF_LINK)
    return out


def do_entrypoints(c):
    out = {}
    for key, m in MODS.items():
        out[key] = sorted(n for n in dir(m) if type(getattr(m, n)).__name__ == "builtin_function_or_method")
    return out


HANDLERS = {"users": do_users, "partitions": do_partitions, "call": do_call, "ionice": do_ionice,
            "netif": do_netif, "ifaddrs": do_ifaddrs, "ifr": do_ifr, "sysinfo": do_sysinfo, "getprio": do_getprio,
            "entrypoints": do_entrypoints, "rootfs": do_rootfs, "netifstats": do_netifstats,
            "netifaddrs_front": do_netifaddrs_front, "ifaddrs_fail": do_ifaddrs_fail,
            "ifr_sockfail": do_ifr_sockfail, "ifr_errmsg": do_ifr_errmsg, "partitions_mtab": do_partitions_mtab, "mt_sched": do_mt_sched, "mt_stress": do_mt_stress, "ping": lambda c: {"pong": os.getpid()}}


def main():
    out = sys.stdout
    for line in sys.stdin:
        line = line.strip()
        if not line:
            continue
        c = json.loads(line)
        try:
            r = HANDLERS[c["cmd"]](c)
        except BaseException as e:  # noqa: BLE001  (a harness bug must be visible, not a crash)
            if isinstance(e, (KeyboardInterrupt, SystemExit)):
                raise
            import traceback
            r = {"worker_error": traceback.format_exc()[-1500:]}
        out.write(json.dumps(r) + "\n")
        out.flush()
    if _child is not None:
        _child.kill()


if __name__ == "__main__":
    main()
