"""C05 translator: facts about children()/parent()/parents()/ppid()/ppid_map() re-derived from the
current source with `ast` (see DESIGN.md §3.1). Every fact is consumed by `Model/C05Gen.lean`
(`cfg`, `scfg`) and through it by `cfg_good` / `scfg_good` in Props/C05.lean and by the driver."""
import ast

from harness.common import extract
from harness.common.extract import NotRecognised

_OPS = {ast.Lt: "<", ast.LtE: "<=", ast.Eq: "==", ast.NotEq: "!=", ast.Gt: ">", ast.GtE: ">="}
_FLIP = {"<": ">", "<=": ">=", "==": "==", "!=": "!=", ">": "<", ">=": "<="}


def _ctime_compares(node, left_names, right_names):
    """Operator texts (normalised to `left OP right`) of every comparison under `node`
    between something in left_names and something in right_names."""
    out = []
    for n in ast.walk(node):
        if isinstance(n, ast.Compare) and len(n.ops) == 1:
            l, r = extract.dotted(n.left), extract.dotted(n.comparators[0])
            op = _OPS.get(type(n.ops[0]))
            if op is None:
                continue
            if l in left_names and r in right_names:
                out.append(op)
            elif l in right_names and r in left_names:
                out.append(_FLIP[op])
    return out


def _children_branches(fn):
    """(non_recursive_body, recursive_body) of Process.children."""
    for st in fn.body:
        if isinstance(st, ast.If):
            t = st.test
            if isinstance(t, ast.UnaryOp) and isinstance(t.op, ast.Not) and extract.dotted(t.operand) == "recursive":
                return st.body, st.orelse
            if extract.dotted(t) == "recursive":
                return st.orelse, st.body
    return [], []                        # TOTAL: no such branch → no comparison / guard is found in it


def _one(ops, what):
    if len(ops) != 1:
        raise NotRecognised("%s: expected exactly one create-time comparison, found %d" % (what, len(ops)))
    return ops[0]


def _ctime_op(node, left_names, right_names, anchor):
    """TOTAL: the operator text of the one create-time comparison under `node` (normalised to `left OP right`).
    When the comparison is not between the expected operands (e.g. `self._create_time <= child.create_time()`,
    two comparisons, a chained one) the value DESCRIBES what was found instead of raising: the text is no
    operator, `Cmp.ofString` maps it to `.unknown`, and `cfg_good` fails with the new value in the message."""
    ops = _ctime_compares(node, left_names, right_names)
    if len(ops) == 1:
        return ops[0]
    found = [extract.unparse(n) for n in ast.walk(node) if isinstance(n, ast.Compare)
             and any(anchor in extract.unparse(x) for x in [n.left] + list(n.comparators))]
    return "unrecognised(%d): %s" % (len(ops), " ; ".join(found)[:160])


def _wrap(stmts):
    return ast.Module(body=list(stmts), type_ignores=[])


def _first_stmt_is_reuse_guard(fn):
    """TOTAL: comments are not in the AST; the first real statement must be the guard call"""
    body = list(fn.body)
    if body and isinstance(body[0], ast.Expr) and isinstance(body[0].value, ast.Constant) \
            and isinstance(body[0].value.value, str):
        body = body[1:]
    if not body:
        return False
    st = body[0]
    return isinstance(st, ast.Expr) and isinstance(st.value, ast.Call) \
        and extract.dotted(st.value.func) == "self._raise_if_pid_reused"


def _self_pid_ne(node, names):
    """is there a `X != self.pid` (or `self.pid != X`) with X in names under node?"""
    for n in ast.walk(node):
        if isinstance(n, ast.Compare) and len(n.ops) == 1 and isinstance(n.ops[0], ast.NotEq):
            l, r = extract.dotted(n.left), extract.dotted(n.comparators[0])
            if (l in names and r == "self.pid") or (r in names and l == "self.pid"):
                return True
    return False


def skip_self(fn):
    """Does children() drop the caller's own PID? Recognised shapes:
    (a) `ppid_map.pop(self.pid, …)` / `del ppid_map[self.pid]` before the branches;
    (b) a `pid != self.pid` / `child_pid != self.pid` test in BOTH branches."""
    nonrec, rec = _children_branches(fn)
    for st in fn.body:
        if isinstance(st, ast.If):
            break
        for n in ast.walk(st):
            if isinstance(n, ast.Call) and extract.dotted(n.func) == "ppid_map.pop" and n.args \
                    and extract.dotted(n.args[0]) == "self.pid":
                return True
            if isinstance(n, ast.Delete):
                for t in n.targets:
                    if isinstance(t, ast.Subscript) and extract.dotted(t.value) == "ppid_map" \
                            and extract.dotted(t.slice) == "self.pid":
                        return True
    names = {"pid", "child_pid"}
    return _self_pid_ne(_wrap(nonrec), names) and _self_pid_ne(_wrap(rec), names)


def seen_guard(fn):
    _, rec = _children_branches(fn)
    loops = [n for n in ast.walk(_wrap(rec)) if isinstance(n, ast.While)]
    if len(loops) != 1:
        return False                     # TOTAL: another loop structure is not the guarded walk the model has
    for n in ast.walk(loops[0]):
        if isinstance(n, ast.Compare) and len(n.ops) == 1 and isinstance(n.ops[0], (ast.In, ast.NotIn)) \
                and extract.dotted(n.comparators[0]) == "seen":
            return True
    return False


def parents_seen(fn):
    """TOTAL. True only for the PID-keyed cycle stop the model has: a collection seeded with `self.pid`,
    the loop condition (or a test in the loop that leaves it) asks `<cur>.pid [not] in <that collection>`, and the
    body adds `<cur>.pid` to it. A stop keyed by the Process OBJECT (`seen = {self}`, `proc not in seen`: same PID
    with another start time compares unequal) is NOT this fact: `C05_parents_dyn_links` (no PID twice) and
    `C05_parents_dyn_terminates` (PID-keyed measure) would no longer speak about the code."""
    loops = [n for n in ast.walk(fn) if isinstance(n, ast.While)]
    if len(loops) != 1:
        return False
    loop = loops[0]
    seeded = set()
    for n in ast.walk(fn):
        if isinstance(n, ast.Assign) and len(n.targets) == 1 and isinstance(n.targets[0], ast.Name):
            v = n.value
            elts = None
            if isinstance(v, (ast.Set, ast.List, ast.Tuple)):
                elts = v.elts
            elif isinstance(v, ast.Call) and extract.dotted(v.func) in ("set", "list") and len(v.args) == 1 \
                    and isinstance(v.args[0], (ast.Set, ast.List, ast.Tuple)):
                elts = v.args[0].elts
            if elts is not None and any(extract.dotted(e) == "self.pid" for e in elts):
                seeded.add(n.targets[0].id)
    if not seeded:
        return False
    tested = added = False
    for n in ast.walk(loop):
        if isinstance(n, ast.Compare) and len(n.ops) == 1 and isinstance(n.ops[0], (ast.In, ast.NotIn)) \
                and extract.dotted(n.comparators[0]) in seeded and extract.dotted(n.left).endswith(".pid") \
                and extract.dotted(n.left) != "self.pid":
            tested = True
        if isinstance(n, ast.Call) and isinstance(n.func, ast.Attribute) and n.func.attr in ("add", "append") \
                and extract.dotted(n.func.value) in seeded and len(n.args) == 1 \
                and extract.dotted(n.args[0]).endswith(".pid") and extract.dotted(n.args[0]) != "self.pid":
            added = True
    return tested and added


def _body(fn):
    body = list(fn.body)
    if body and isinstance(body[0], ast.Expr) and isinstance(body[0].value, ast.Constant) \
            and isinstance(body[0].value.value, str):
        body = body[1:]
    return body


def _is_guard_call(st):
    return isinstance(st, ast.Expr) and isinstance(st.value, ast.Call) \
        and extract.dotted(st.value.func) == "self._raise_if_pid_reused"


def root_guarded(fn):
    """TOTAL. parent(): is the caller's identity checked before the lowest-PID stop answers None? Recognised:
    `self._raise_if_pid_reused()` as the first statement of the `if self.pid == lowest_pid:` body, or as a
    statement of parent() placed before that `if`, or `self.ppid()` called before it (ppid() is guarded:
    fact ppidGuarded). False otherwise (psutil as found: the stop precedes every identity check)."""
    for i, st in enumerate(_body(fn)):
        if _is_guard_call(st):
            return True
        if not isinstance(st, ast.If) and extract.calls_in(st, "ppid"):
            return True
        if isinstance(st, ast.If) and isinstance(st.test, ast.Compare) and len(st.test.ops) == 1 \
                and isinstance(st.test.ops[0], ast.Eq) \
                and {extract.dotted(st.test.left), extract.dotted(st.test.comparators[0])} == {"self.pid", "lowest_pid"}:
            return bool(st.body) and _is_guard_call(st.body[0])
    return False


def ppid_uncached(fn):
    """TOTAL. ppid(): on POSIX the answer is `self._proc.ppid()` read afresh on every call — the branch taken
    when `POSIX` holds is a bare `return self._proc.ppid()` and no statement of the function outside the
    non-POSIX branch assigns to an attribute of `self` (a `self._ppid = self._ppid or …` cache, issue #321)."""
    body = _body(fn)
    posix_ret = False
    for st in body:
        if isinstance(st, ast.If) and extract.dotted(st.test) == "POSIX":
            branch, other = st.body, st.orelse
        elif isinstance(st, ast.If) and isinstance(st.test, ast.UnaryOp) and isinstance(st.test.op, ast.Not) \
                and extract.dotted(st.test.operand) == "POSIX":
            branch, other = st.orelse, st.body
        else:
            for n in ast.walk(st):
                if isinstance(n, (ast.Assign, ast.AugAssign, ast.AnnAssign)):
                    tg = n.targets if isinstance(n, ast.Assign) else [n.target]
                    if any(extract.dotted(t).startswith("self.") for t in tg):
                        return False
                if isinstance(n, ast.Return) and n.value is not None and extract.unparse(n.value) != "self._proc.ppid()":
                    return False
            if isinstance(st, ast.Return) and st.value is not None and extract.unparse(st.value) == "self._proc.ppid()":
                posix_ret = True
            continue
        if len(branch) == 1 and isinstance(branch[0], ast.Return) and branch[0].value is not None \
                and extract.unparse(branch[0].value) == "self._proc.ppid()":
            posix_ret = True
        else:
            return False
    return posix_ret


def ctime_cached(fn):
    """TOTAL. create_time(): `if self._create_time is None: self._create_time = self._proc.create_time()` and
    `return self._create_time` — the start time the object compares children and parents against is read ONCE."""
    body = _body(fn)
    if len(body) != 2:
        return False
    a, b = body
    if not (isinstance(a, ast.If) and extract.unparse(a.test) == "self._create_time is None" and not a.orelse
            and len(a.body) == 1 and isinstance(a.body[0], ast.Assign)
            and extract.unparse(a.body[0].targets[0]) == "self._create_time"
            and extract.unparse(a.body[0].value) == "self._proc.create_time()"):
        return False
    return isinstance(b, ast.Return) and b.value is not None and extract.unparse(b.value) == "self._create_time"


def lowest_stop(fn):
    """parent(): `if self.pid == lowest_pid: return None` placed before the `self.ppid()` call,
    with lowest_pid = `_LOWEST_PID if _LOWEST_PID is not None else pids()[0]`."""
    idx_stop = idx_ppid = None
    assigned = False
    for i, st in enumerate(fn.body):
        if isinstance(st, ast.Assign) and extract.dotted(st.targets[0]) == "lowest_pid":
            v = st.value
            if isinstance(v, ast.IfExp) and extract.dotted(v.body) == "_LOWEST_PID" \
                    and isinstance(v.orelse, ast.Subscript) and extract.dotted(v.orelse.value) == "pids()" \
                    and extract.const(v.orelse.slice) == 0:
                assigned = True
            else:
                return False             # TOTAL: lowest_pid computed another way (e.g. pids()[-1]) is not this stop
        if isinstance(st, ast.If) and isinstance(st.test, ast.Compare) and len(st.test.ops) == 1 \
                and isinstance(st.test.ops[0], ast.Eq) \
                and {extract.dotted(st.test.left), extract.dotted(st.test.comparators[0])} == {"self.pid", "lowest_pid"} \
                and any(isinstance(x, ast.Return) for x in st.body) and idx_stop is None:
            idx_stop = i
        if idx_ppid is None and extract.calls_in(st, "ppid") and not isinstance(st, ast.If):
            idx_ppid = i
    if idx_ppid is None:
        return False
    return bool(assigned and idx_stop is not None and idx_stop < idx_ppid)


def gone_raises(fn):
    """_raise_if_pid_reused(): after the `_pid_reused` test, an `if self._gone:` whose body raises
    NoSuchProcess."""
    idx_reused = None
    for i, st in enumerate(fn.body):
        if not isinstance(st, ast.If):
            continue
        names = {extract.dotted(n) for n in ast.walk(st.test) if isinstance(n, ast.Attribute)}
        raises = any(isinstance(x, ast.Raise) and x.exc is not None and "NoSuchProcess" in extract.unparse(x.exc)
                     for x in ast.walk(_wrap(st.body)))
        if "self._pid_reused" in names and raises and idx_reused is None:
            idx_reused = i
            continue
        if idx_reused is not None and extract.dotted(st.test) == "self._gone" and raises:
            return True
    return False                         # TOTAL (also when the `_pid_reused` test itself is gone)


def _find_flag(call):
    f = extract.dotted(call.func)
    if f.endswith(".rfind"):
        return True
    if f.endswith(".find"):
        return False
    raise NotRecognised("neither find nor rfind: %s" % f)


def _each(f):
    """run an extractor that raises on the first unknown shape once per requested key, so that one unknown
    shape only loses the fact it belongs to: → {key: value | NotRecognised}"""
    def g(tree):
        out = {}
        for key in f.KEYS:
            try:
                out[key] = f(tree, only=key)[key]
            except NotRecognised as e:
                out[key] = e
            except KeyError:
                out[key] = NotRecognised("%s: shape not recognised" % key)
        return out
    return g


def _get(d, key):
    v = d[key]
    if isinstance(v, Exception):
        raise v
    return v


def ppid_map_facts(tree, only=None):
    """{rfind, off, idx} of _pslinux.ppid_map(); with `only`, unknown shapes of the OTHER facts are ignored."""
    fn = extract.find_def(tree, "ppid_map")
    rfind = off = idx = None
    for n in ast.walk(fn):
        if isinstance(n, ast.Assign) and extract.dotted(n.targets[0]) == "rpar" and isinstance(n.value, ast.Call):
            if only not in (None, "rfind"):
                continue
            if extract.const(n.value.args[0]) != b")":
                raise NotRecognised("ppid_map(): rpar searches %r" % (extract.const(n.value.args[0]),))
            rfind = _find_flag(n.value)
        if isinstance(n, ast.Assign) and extract.dotted(n.targets[0]) == "dset" and only in (None, "off"):
            # data[rpar + 2:].split()
            c = n.value
            if not (isinstance(c, ast.Call) and isinstance(c.func, ast.Attribute) and c.func.attr == "split" and not c.args):
                raise NotRecognised("ppid_map(): dset = %s" % extract.unparse(c))
            sub = c.func.value
            if not (isinstance(sub, ast.Subscript) and isinstance(sub.slice, ast.Slice) and sub.slice.upper is None
                    and isinstance(sub.slice.lower, ast.BinOp) and isinstance(sub.slice.lower.op, ast.Add)
                    and extract.dotted(sub.slice.lower.left) == "rpar"):
                raise NotRecognised("ppid_map(): slice %s" % extract.unparse(sub))
            off = extract.const(sub.slice.lower.right)
        if isinstance(n, ast.Assign) and extract.dotted(n.targets[0]) == "ppid":
            c = n.value
            if isinstance(c, ast.Call) and extract.dotted(c.func) == "int" and isinstance(c.args[0], ast.Subscript) \
                    and extract.dotted(c.args[0].value) == "dset":
                idx = extract.const(c.args[0].slice)
    out = {k: v for k, v in (("rfind", rfind), ("off", off), ("idx", idx)) if v is not None}
    if only is None and len(out) != 3:
        raise NotRecognised("ppid_map(): shape not recognised")
    return out


ppid_map_facts.KEYS = ("rfind", "off", "idx")


def ppid_map_skips_gone(tree):
    """True iff the same `try:` has quiet handlers covering BOTH FileNotFoundError (ENOENT) and
    ProcessLookupError (ESRCH): a process that exits between pids() and the read is skipped."""
    return all(_ppid_map_quiet(tree, {name, "OSError", "EnvironmentError", "IOError", "Exception", "BaseException"})
               for name in ("FileNotFoundError", "ProcessLookupError"))


def ppid_map_skips_denied(tree):
    """True iff the `try:` around the open/read of /proc/<pid>/stat in ppid_map() has a handler that
    covers PermissionError (EACCES/EPERM) and whose body neither raises nor returns."""
    return _ppid_map_quiet(tree, {"PermissionError", "OSError", "EnvironmentError", "IOError", "Exception", "BaseException"})


def _ppid_map_quiet(tree, covering):
    fn = extract.find_def(tree, "ppid_map")
    tries = [n for n in ast.walk(fn) if isinstance(n, ast.Try)
             and any(isinstance(c, ast.Call) and extract.dotted(c.func) in ("open_binary", "bcat", "open")
                     for b in n.body for c in ast.walk(b))]
    if len(tries) != 1:
        raise NotRecognised("ppid_map(): expected one try around the stat read, found %d" % len(tries))
    for h in tries[0].handlers:
        if h.type is None:
            names = {"BaseException"}
        elif isinstance(h.type, ast.Tuple):
            names = {extract.dotted(e) for e in h.type.elts}
        else:
            names = {extract.dotted(h.type)}
        if names & covering:
            quiet = not any(isinstance(x, (ast.Raise, ast.Return)) for b in h.body for x in ast.walk(b))
            return quiet
    return False


def stat_file_facts(tree, only=None):
    """{rfind, off, ppid, ctime} of Process._parse_stat_file(); with `only`, unknown shapes of the OTHER facts are ignored."""
    fn = extract.find_def(tree, "_parse_stat_file", cls="Process")
    rfind = off = None
    idx = {}
    for n in ast.walk(fn):
        if isinstance(n, ast.Assign) and extract.dotted(n.targets[0]) == "rpar" and isinstance(n.value, ast.Call):
            if only not in (None, "rfind"):
                continue
            if extract.const(n.value.args[0]) != b")":
                raise NotRecognised("_parse_stat_file(): rpar searches %r" % (extract.const(n.value.args[0]),))
            rfind = _find_flag(n.value)
        if isinstance(n, ast.Assign) and extract.dotted(n.targets[0]) == "fields" and only in (None, "off"):
            c = n.value
            if not (isinstance(c, ast.Call) and isinstance(c.func, ast.Attribute) and c.func.attr == "split" and not c.args):
                raise NotRecognised("_parse_stat_file(): fields = %s" % extract.unparse(c))
            sub = c.func.value
            if not (isinstance(sub, ast.Subscript) and isinstance(sub.slice, ast.Slice) and sub.slice.upper is None
                    and isinstance(sub.slice.lower, ast.BinOp) and isinstance(sub.slice.lower.op, ast.Add)
                    and extract.dotted(sub.slice.lower.left) == "rpar"):
                raise NotRecognised("_parse_stat_file(): slice %s" % extract.unparse(sub))
            off = extract.const(sub.slice.lower.right)
        if isinstance(n, ast.Assign) and isinstance(n.targets[0], ast.Subscript) \
                and extract.dotted(n.targets[0].value) == "ret" and isinstance(n.value, ast.Subscript) \
                and extract.dotted(n.value.value) == "fields":
            try:
                idx.setdefault(extract.const(n.targets[0].slice), extract.const(n.value.slice))
            except NotRecognised:
                pass
    out = {k: v for k, v in (("rfind", rfind), ("off", off), ("ppid", idx.get("ppid")), ("ctime", idx.get("create_time")))
           if v is not None}
    if only is None and len(out) != 4:
        raise NotRecognised("_parse_stat_file(): shape not recognised")
    return out


stat_file_facts.KEYS = ("rfind", "off", "ppid", "ctime")


def facts(snap, F):
    init = extract.parse_module(snap, "__init__.py")
    linux = extract.parse_module(snap, "_pslinux.py")
    cache = {}

    def fn(name):
        if name not in cache:
            cache[name] = extract.find_def(init, name, cls="Process")
        return cache[name]

    me = {"self.create_time()"}
    kid = {"child.create_time()"}
    F.try_add("childOp", "String",
              lambda: extract.lean_str(_ctime_op(_wrap(_children_branches(fn("children"))[0]), me, kid, "child.create_time")),
              "children(): operator in `self.create_time() OP child.create_time()` (non-recursive branch)")
    F.try_add("descOp", "String",
              lambda: extract.lean_str(_ctime_op(_wrap(_children_branches(fn("children"))[1]), me, kid, "child.create_time")),
              "children(recursive=True): operator in `self.create_time() OP child.create_time()`")
    F.try_add("parentOp", "String",
              lambda: extract.lean_str(_ctime_op(fn("parent"), {"parent.create_time()"}, {"ctime", "self.create_time()"},
                                                 "parent.create_time")),
              "parent(): operator in `parent.create_time() OP ctime`")
    F.try_add("seenGuard", "Bool", lambda: extract.lean_bool(seen_guard(fn("children"))),
              "the recursive walk of children() tests `pid in seen`")
    F.try_add("skipSelf", "Bool", lambda: extract.lean_bool(skip_self(fn("children"))),
              "children() drops the caller's own PID (ppid_map.pop(self.pid, …) or `!= self.pid` tests in both branches)")
    F.try_add("parentsSeen", "Bool", lambda: extract.lean_bool(parents_seen(fn("parents"))),
              "the loop of parents() stops at a PID already on the chain: a collection seeded with self.pid, `<cur>.pid [not] in` it in the loop, `<cur>.pid` added in the body")
    F.try_add("childrenGuarded", "Bool", lambda: extract.lean_bool(_first_stmt_is_reuse_guard(fn("children"))),
              "children() starts with self._raise_if_pid_reused()")
    F.try_add("ppidGuarded", "Bool", lambda: extract.lean_bool(_first_stmt_is_reuse_guard(fn("ppid"))),
              "ppid() starts with self._raise_if_pid_reused()")
    F.try_add("lowestStop", "Bool", lambda: extract.lean_bool(lowest_stop(fn("parent"))),
              "parent() returns None for self.pid == (_LOWEST_PID or pids()[0]) before calling ppid()")
    F.try_add("goneRaises", "Bool", lambda: extract.lean_bool(gone_raises(fn("_raise_if_pid_reused"))),
              "_raise_if_pid_reused() also raises NoSuchProcess when self._gone is set (after the reused test)")
    F.try_add("rootGuarded", "Bool", lambda: extract.lean_bool(root_guarded(fn("parent"))),
              "parent(): the caller's identity is checked (self._raise_if_pid_reused(), or self.ppid()) before the lowest-PID stop answers None")
    F.try_add("ppidUncached", "Bool", lambda: extract.lean_bool(ppid_uncached(fn("ppid"))),
              "ppid(): on POSIX a bare `return self._proc.ppid()` — no per-object cache of the parent PID")
    F.try_add("ctimeCached", "Bool", lambda: extract.lean_bool(ctime_cached(fn("create_time"))),
              "create_time(): read once, then answered from self._create_time")
    pm = {}

    def pmf():
        if "v" not in pm:
            pm["v"] = _each(ppid_map_facts)(linux)
        return pm["v"]
    sf = {}

    def sff():
        if "v" not in sf:
            sf["v"] = _each(stat_file_facts)(linux)
        return sf["v"]
    F.try_add("ppidMapRfind", "Bool", lambda: extract.lean_bool(_get(pmf(), "rfind")), "ppid_map(): `data.rfind(b')')` (true) or find (false)")
    F.try_add("ppidMapOffset", "Nat", lambda: extract.lean_nat(_get(pmf(), "off")), "ppid_map(): `data[rpar + N:]`")
    F.try_add("ppidMapIdx", "Nat", lambda: extract.lean_nat(_get(pmf(), "idx")), "ppid_map(): `int(dset[N])`")
    F.try_add("ppidMapSkipsDenied", "Bool", lambda: extract.lean_bool(ppid_map_skips_denied(linux)),
              "ppid_map(): an unreadable /proc/<pid>/stat (PermissionError) is skipped, not raised")
    F.try_add("ppidMapSkipsGone", "Bool", lambda: extract.lean_bool(ppid_map_skips_gone(linux)),
              "ppid_map(): a listed PID whose /proc/<pid>/stat is gone (FileNotFoundError and ProcessLookupError) is skipped, not raised")
    F.try_add("statRfind", "Bool", lambda: extract.lean_bool(_get(sff(), "rfind")), "_parse_stat_file(): rfind (true) or find (false)")
    F.try_add("statOffset", "Nat", lambda: extract.lean_nat(_get(sff(), "off")), "_parse_stat_file(): `data[rpar + N:]`")
    F.try_add("statPpidIdx", "Nat", lambda: extract.lean_nat(_get(sff(), "ppid")), "_parse_stat_file(): ret['ppid'] = fields[N]")
    F.try_add("statCtimeIdx", "Nat", lambda: extract.lean_nat(_get(sff(), "ctime")), "_parse_stat_file(): ret['create_time'] = fields[N]")
