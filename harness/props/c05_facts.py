"""C05 translator: facts about children()/parent()/parents()/ppid()/ppid_map() re-derived from the
current source with `ast` (see DESIGN.md §3.1). Every fact is consumed by `Model/C05Gen.lean`
(`cfg`, `scfg`) and through it by `cfg_good` / `scfg_good` in Props/C05.lean and by the driver."""
import ast
import re
import sysconfig

from harness.common import extract
from harness.common.extract import NotRecognised

_OPS = {ast.Lt: "<", ast.LtE: "<=", ast.Eq: "==", ast.NotEq: "!=", ast.Gt: ">", ast.GtE: ">="}
_FLIP = {"<": ">", "<=": ">=", "==": "==", "!=": "!=", ">": "<", ">=": "<="}


def _ctime_compares(node, left_names, right_names):
    """Operator texts (normalised to `left OP right`) of every comparison under `node`
    between something in left_names and something in right_names."""
    out = []
    for n in ast.walk(node):
        if isinstance(n, ast.Compare) and len(n.ops) == 1:
            l, r = extract.dotted(n.left), extract.dotted(n.comparators[0])
            op = _OPS.get(type(n.ops[0]))
            if op is None:
                continue
            if l in left_names and r in right_names:
                out.append(op)
            elif l in right_names and r in left_names:
                out.append(_FLIP[op])
    return out


def _children_branches(fn):
    """(non_recursive_body, recursive_body) of Process.children."""
    for st in fn.body:
        if isinstance(st, ast.If):
            t = st.test
            if isinstance(t, ast.UnaryOp) and isinstance(t.op, ast.Not) and extract.dotted(t.operand) == "recursive":
                return st.body, st.orelse
            if extract.dotted(t) == "recursive":
                return st.orelse, st.body
    return [], []                        # TOTAL: no such branch → no comparison / guard is found in it


def _one(ops, what):
    if len(ops) != 1:
        raise NotRecognised("%s: expected exactly one create-time comparison, found %d" % (what, len(ops)))
    return ops[0]


def _ctime_op(node, left_names, right_names, anchor):
    """TOTAL: the operator text of the one create-time comparison under `node` (normalised to `left OP right`).
    When the comparison is not between the expected operands (e.g. `self._create_time <= child.create_time()`,
    two comparisons, a chained one) the value DESCRIBES what was found instead of raising: the text is no
    operator, `Cmp.ofString` maps it to `.unknown`, and `cfg_good` fails with the new value in the message."""
    ops = _ctime_compares(node, left_names, right_names)
    if len(ops) == 1:
        return ops[0]
    found = [extract.unparse(n) for n in ast.walk(node) if isinstance(n, ast.Compare)
             and any(anchor in extract.unparse(x) for x in [n.left] + list(n.comparators))]
    return "unrecognised(%d): %s" % (len(ops), " ; ".join(found)[:160])


def _wrap(stmts):
    return ast.Module(body=list(stmts), type_ignores=[])


def _first_stmt_is_reuse_guard(fn):
    """TOTAL: comments are not in the AST; the first real statement must be the guard call"""
    body = list(fn.body)
    if body and isinstance(body[0], ast.Expr) and isinstance(body[0].value, ast.Constant) \
            and isinstance(body[0].value.value, str):
        body = body[1:]
    if not body:
        return False
    st = body[0]
    return isinstance(st, ast.Expr) and isinstance(st.value, ast.Call) \
        and extract.dotted(st.value.func) == "self._raise_if_pid_reused"


def _self_pid_ne(node, names):
    """is there a `X != self.pid` (or `self.pid != X`) with X in names under node?"""
    for n in ast.walk(node):
        if isinstance(n, ast.Compare) and len(n.ops) == 1 and isinstance(n.ops[0], ast.NotEq):
            l, r = extract.dotted(n.left), extract.dotted(n.comparators[0])
            if (l in names and r == "self.pid") or (r in names and l == "self.pid"):
                return True
    return False


def skip_self(fn):
    """Does children() drop the caller's own PID? Recognised shapes:
    (a) `ppid_map.pop(self.pid, …)` / `del ppid_map[self.pid]` before the branches;
    (b) a `pid != self.pid` / `child_pid != self.pid` test in BOTH branches."""
    nonrec, rec = _children_branches(fn)
    for st in fn.body:
        if isinstance(st, ast.If):
            break
        for n in ast.walk(st):
            if isinstance(n, ast.Call) and extract.dotted(n.func) == "ppid_map.pop" and n.args \
                    and extract.dotted(n.args[0]) == "self.pid":
                return True
            if isinstance(n, ast.Delete):
                for t in n.targets:
                    if isinstance(t, ast.Subscript) and extract.dotted(t.value) == "ppid_map" \
                            and extract.dotted(t.slice) == "self.pid":
                        return True
    names = {"pid", "child_pid"}
    return _self_pid_ne(_wrap(nonrec), names) and _self_pid_ne(_wrap(rec), names)


def seen_guard(fn):
    _, rec = _children_branches(fn)
    loops = [n for n in ast.walk(_wrap(rec)) if isinstance(n, ast.While)]
    if len(loops) != 1:
        return False                     # TOTAL: another loop structure is not the guarded walk the model has
    for n in ast.walk(loops[0]):
        if isinstance(n, ast.Compare) and len(n.ops) == 1 and isinstance(n.ops[0], (ast.In, ast.NotIn)) \
                and extract.dotted(n.comparators[0]) == "seen":
            return True
    return False


def parents_seen(fn):
    """TOTAL. True only for the PID-keyed cycle stop the model has: a collection seeded with `self.pid`,
    the loop condition (or a test in the loop that leaves it) asks `<cur>.pid [not] in <that collection>`, and the
    body adds `<cur>.pid` to it. A stop keyed by the Process OBJECT (`seen = {self}`, `proc not in seen`: same PID
    with another start time compares unequal) is NOT this fact: `C05_parents_dyn_links` (no PID twice) and
    `C05_parents_dyn_terminates` (PID-keyed measure) would no longer speak about the code."""
    loops = [n for n in ast.walk(fn) if isinstance(n, ast.While)]
    if len(loops) != 1:
        return False
    loop = loops[0]
    seeded = set()
    for n in ast.walk(fn):
        if isinstance(n, ast.Assign) and len(n.targets) == 1 and isinstance(n.targets[0], ast.Name):
            v = n.value
            elts = None
            if isinstance(v, (ast.Set, ast.List, ast.Tuple)):
                elts = v.elts
            elif isinstance(v, ast.Call) and extract.dotted(v.func) in ("set", "list") and len(v.args) == 1 \
                    and isinstance(v.args[0], (ast.Set, ast.List, ast.Tuple)):
                elts = v.args[0].elts
            if elts is not None and any(extract.dotted(e) == "self.pid" for e in elts):
                seeded.add(n.targets[0].id)
    if not seeded:
        return False
    tested = added = False
    for n in ast.walk(loop):
        if isinstance(n, ast.Compare) and len(n.ops) == 1 and isinstance(n.ops[0], (ast.In, ast.NotIn)) \
                and extract.dotted(n.comparators[0]) in seeded and extract.dotted(n.left).endswith(".pid") \
                and extract.dotted(n.left) != "self.pid":
            tested = True
        if isinstance(n, ast.Call) and isinstance(n.func, ast.Attribute) and n.func.attr in ("add", "append") \
                and extract.dotted(n.func.value) in seeded and len(n.args) == 1 \
                and extract.dotted(n.args[0]).endswith(".pid") and extract.dotted(n.args[0]) != "self.pid":
            added = True
    return tested and added


def _body(fn):
    body = list(fn.body)
    if body and isinstance(body[0], ast.Expr) and isinstance(body[0].value, ast.Constant) \
            and isinstance(body[0].value.value, str):
        body = body[1:]
    return body


def _is_guard_call(st):
    return isinstance(st, ast.Expr) and isinstance(st.value, ast.Call) \
        and extract.dotted(st.value.func) == "self._raise_if_pid_reused"


def root_guarded(fn):
    """TOTAL. parent(): is the caller's identity checked before the lowest-PID stop answers None? Recognised:
    `self._raise_if_pid_reused()` as the first statement of the `if self.pid == lowest_pid:` body, or as a
    statement of parent() placed before that `if`, or `self.ppid()` called before it (ppid() is guarded:
    fact ppidGuarded). False otherwise (psutil as found: the stop precedes every identity check)."""
    for i, st in enumerate(_body(fn)):
        if _is_guard_call(st):
            return True
        if not isinstance(st, ast.If) and extract.calls_in(st, "ppid"):
            return True
        if isinstance(st, ast.If) and isinstance(st.test, ast.Compare) and len(st.test.ops) == 1 \
                and isinstance(st.test.ops[0], ast.Eq) \
                and {extract.dotted(st.test.left), extract.dotted(st.test.comparators[0])} == {"self.pid", "lowest_pid"}:
            return bool(st.body) and _is_guard_call(st.body[0])
    return False


def ppid_uncached(fn):
    """TOTAL. ppid(): on POSIX the answer is `self._proc.ppid()` read afresh on every call — the branch taken
    when `POSIX` holds is a bare `return self._proc.ppid()` and no statement of the function outside the
    non-POSIX branch assigns to an attribute of `self` (a `self._ppid = self._ppid or …` cache, issue #321)."""
    body = _body(fn)
    posix_ret = False
    for st in body:
        if isinstance(st, ast.If) and extract.dotted(st.test) == "POSIX":
            branch, other = st.body, st.orelse
        elif isinstance(st, ast.If) and isinstance(st.test, ast.UnaryOp) and isinstance(st.test.op, ast.Not) \
                and extract.dotted(st.test.operand) == "POSIX":
            branch, other = st.orelse, st.body
        else:
            for n in ast.walk(st):
                if isinstance(n, (ast.Assign, ast.AugAssign, ast.AnnAssign)):
                    tg = n.targets if isinstance(n, ast.Assign) else [n.target]
                    if any(extract.dotted(t).startswith("self.") for t in tg):
                        return False
                if isinstance(n, ast.Return) and n.value is not None and extract.unparse(n.value) != "self._proc.ppid()":
                    return False
            if isinstance(st, ast.Return) and st.value is not None and extract.unparse(st.value) == "self._proc.ppid()":
                posix_ret = True
            continue
        if len(branch) == 1 and isinstance(branch[0], ast.Return) and branch[0].value is not None \
                and extract.unparse(branch[0].value) == "self._proc.ppid()":
            posix_ret = True
        else:
            return False
    return posix_ret


def ctime_cached(fn):
    """TOTAL. create_time(): `if self._create_time is None: self._create_time = self._proc.create_time()` and
    `return self._create_time` — the start time the object compares children and parents against is read ONCE."""
    body = _body(fn)
    if len(body) != 2:
        return False
    a, b = body
    if not (isinstance(a, ast.If) and extract.unparse(a.test) == "self._create_time is None" and not a.orelse
            and len(a.body) == 1 and isinstance(a.body[0], ast.Assign)
            and extract.unparse(a.body[0].targets[0]) == "self._create_time"
            and extract.unparse(a.body[0].value) == "self._proc.create_time()"):
        return False
    return isinstance(b, ast.Return) and b.value is not None and extract.unparse(b.value) == "self._create_time"


def lowest_stop(fn):
    """parent(): `if self.pid == lowest_pid: return None` placed before the `self.ppid()` call,
    with lowest_pid = `_LOWEST_PID if _LOWEST_PID is not None else pids()[0]`."""
    idx_stop = idx_ppid = None
    assigned = False
    for i, st in enumerate(fn.body):
        if isinstance(st, ast.Assign) and extract.dotted(st.targets[0]) == "lowest_pid":
            v = st.value
            if isinstance(v, ast.IfExp) and extract.dotted(v.body) == "_LOWEST_PID" \
                    and isinstance(v.orelse, ast.Subscript) and extract.dotted(v.orelse.value) == "pids()" \
                    and extract.const(v.orelse.slice) == 0:
                assigned = True
            else:
                return False             # TOTAL: lowest_pid computed another way (e.g. pids()[-1]) is not this stop
        if isinstance(st, ast.If) and isinstance(st.test, ast.Compare) and len(st.test.ops) == 1 \
                and isinstance(st.test.ops[0], ast.Eq) \
                and {extract.dotted(st.test.left), extract.dotted(st.test.comparators[0])} == {"self.pid", "lowest_pid"} \
                and any(isinstance(x, ast.Return) for x in st.body) and idx_stop is None:
            idx_stop = i
        if idx_ppid is None and extract.calls_in(st, "ppid") and not isinstance(st, ast.If):
            idx_ppid = i
    if idx_ppid is None:
        return False
    return bool(assigned and idx_stop is not None and idx_stop < idx_ppid)


def gone_raises(fn):
    """_raise_if_pid_reused(): after the `_pid_reused` test, an `if self._gone:` whose body raises
    NoSuchProcess."""
    idx_reused = None
    for i, st in enumerate(fn.body):
        if not isinstance(st, ast.If):
            continue
        names = {extract.dotted(n) for n in ast.walk(st.test) if isinstance(n, ast.Attribute)}
        raises = any(isinstance(x, ast.Raise) and x.exc is not None and "NoSuchProcess" in extract.unparse(x.exc)
                     for x in ast.walk(_wrap(st.body)))
        if "self._pid_reused" in names and raises and idx_reused is None:
            idx_reused = i
            continue
        if idx_reused is not None and extract.dotted(st.test) == "self._gone" and raises:
            return True
    return False                         # TOTAL (also when the `_pid_reused` test itself is gone)


def _find_flag(call):
    f = extract.dotted(call.func)
    if f.endswith(".rfind"):
        return True
    if f.endswith(".find"):
        return False
    raise NotRecognised("neither find nor rfind: %s" % f)


def _each(f):
    """run an extractor that raises on the first unknown shape once per requested key, so that one unknown
    shape only loses the fact it belongs to: → {key: value | NotRecognised}"""
    def g(tree):
        out = {}
        for key in f.KEYS:
            try:
                out[key] = f(tree, only=key)[key]
            except NotRecognised as e:
                out[key] = e
            except KeyError:
                out[key] = NotRecognised("%s: shape not recognised" % key)
        return out
    return g


def _get(d, key):
    v = d[key]
    if isinstance(v, Exception):
        raise v
    return v


def ppid_map_facts(tree, only=None):
    """{rfind, off, idx} of _pslinux.ppid_map(); with `only`, unknown shapes of the OTHER facts are ignored."""
    fn = extract.find_def(tree, "ppid_map")
    rfind = off = idx = None
    for n in ast.walk(fn):
        if isinstance(n, ast.Assign) and extract.dotted(n.targets[0]) == "rpar" and isinstance(n.value, ast.Call):
            if only not in (None, "rfind"):
                continue
            if extract.const(n.value.args[0]) != b")":
                raise NotRecognised("ppid_map(): rpar searches %r" % (extract.const(n.value.args[0]),))
            rfind = _find_flag(n.value)
        if isinstance(n, ast.Assign) and extract.dotted(n.targets[0]) == "dset" and only in (None, "off"):
            # data[rpar + 2:].split()
            c = n.value
            if not (isinstance(c, ast.Call) and isinstance(c.func, ast.Attribute) and c.func.attr == "split" and not c.args):
                raise NotRecognised("ppid_map(): dset = %s" % extract.unparse(c))
            sub = c.func.value
            if not (isinstance(sub, ast.Subscript) and isinstance(sub.slice, ast.Slice) and sub.slice.upper is None
                    and isinstance(sub.slice.lower, ast.BinOp) and isinstance(sub.slice.lower.op, ast.Add)
                    and extract.dotted(sub.slice.lower.left) == "rpar"):
                raise NotRecognised("ppid_map(): slice %s" % extract.unparse(sub))
            off = extract.const(sub.slice.lower.right)
        if isinstance(n, ast.Assign) and extract.dotted(n.targets[0]) == "ppid":
            c = n.value
            if isinstance(c, ast.Call) and extract.dotted(c.func) == "int" and isinstance(c.args[0], ast.Subscript) \
                    and extract.dotted(c.args[0].value) == "dset":
                idx = extract.const(c.args[0].slice)
    out = {k: v for k, v in (("rfind", rfind), ("off", off), ("idx", idx)) if v is not None}
    if only is None and len(out) != 3:
        raise NotRecognised("ppid_map(): shape not recognised")
    return out


ppid_map_facts.KEYS = ("rfind", "off", "idx")


def ppid_map_skips_gone(tree):
    """True iff the same `try:` has quiet handlers covering BOTH FileNotFoundError (ENOENT) and
    ProcessLookupError (ESRCH): a process that exits between pids() and the read is skipped."""
    return all(_ppid_map_quiet(tree, {name, "OSError", "EnvironmentError", "IOError", "Exception", "BaseException"})
               for name in ("FileNotFoundError", "ProcessLookupError"))


def ppid_map_skips_denied(tree):
    """True iff the `try:` around the open/read of /proc/<pid>/stat in ppid_map() has a handler that
    covers PermissionError (EACCES/EPERM) and whose body neither raises nor returns."""
    return _ppid_map_quiet(tree, {"PermissionError", "OSError", "EnvironmentError", "IOError", "Exception", "BaseException"})


def _ppid_map_quiet(tree, covering):
    fn = extract.find_def(tree, "ppid_map")
    tries = [n for n in ast.walk(fn) if isinstance(n, ast.Try)
             and any(isinstance(c, ast.Call) and extract.dotted(c.func) in ("open_binary", "bcat", "open")
                     for b in n.body for c in ast.walk(b))]
    if len(tries) != 1:
        raise NotRecognised("ppid_map(): expected one try around the stat read, found %d" % len(tries))
    for h in tries[0].handlers:
        if h.type is None:
            names = {"BaseException"}
        elif isinstance(h.type, ast.Tuple):
            names = {extract.dotted(e) for e in h.type.elts}
        else:
            names = {extract.dotted(h.type)}
        if names & covering:
            quiet = not any(isinstance(x, (ast.Raise, ast.Return)) for b in h.body for x in ast.walk(b))
            return quiet
    return False


def stat_file_facts(tree, only=None):
    """{rfind, off, ppid, ctime} of Process._parse_stat_file(); with `only`, unknown shapes of the OTHER facts are ignored."""
    fn = extract.find_def(tree, "_parse_stat_file", cls="Process")
    rfind = off = None
    idx = {}
    for n in ast.walk(fn):
        if isinstance(n, ast.Assign) and extract.dotted(n.targets[0]) == "rpar" and isinstance(n.value, ast.Call):
            if only not in (None, "rfind"):
                continue
            if extract.const(n.value.args[0]) != b")":
                raise NotRecognised("_parse_stat_file(): rpar searches %r" % (extract.const(n.value.args[0]),))
            rfind = _find_flag(n.value)
        if isinstance(n, ast.Assign) and extract.dotted(n.targets[0]) == "fields" and only in (None, "off"):
            c = n.value
            if not (isinstance(c, ast.Call) and isinstance(c.func, ast.Attribute) and c.func.attr == "split" and not c.args):
                raise NotRecognised("_parse_stat_file(): fields = %s" % extract.unparse(c))
            sub = c.func.value
            if not (isinstance(sub, ast.Subscript) and isinstance(sub.slice, ast.Slice) and sub.slice.upper is None
                    and isinstance(sub.slice.lower, ast.BinOp) and isinstance(sub.slice.lower.op, ast.Add)
                    and extract.dotted(sub.slice.lower.left) == "rpar"):
                raise NotRecognised("_parse_stat_file(): slice %s" % extract.unparse(sub))
            off = extract.const(sub.slice.lower.right)
        if isinstance(n, ast.Assign) and isinstance(n.targets[0], ast.Subscript) \
                and extract.dotted(n.targets[0].value) == "ret" and isinstance(n.value, ast.Subscript) \
                and extract.dotted(n.value.value) == "fields":
            try:
                idx.setdefault(extract.const(n.targets[0].slice), extract.const(n.value.slice))
            except NotRecognised:
                pass
    out = {k: v for k, v in (("rfind", rfind), ("off", off), ("ppid", idx.get("ppid")), ("ctime", idx.get("create_time")))
           if v is not None}
    if only is None and len(out) != 4:
        raise NotRecognised("_parse_stat_file(): shape not recognised")
    return out


stat_file_facts.KEYS = ("rfind", "off", "ppid", "ctime")


# ------------------------------------------------------------------------------ the range gate of Process(pid)
# (seeded round 5: Model/C05Range.lean). Two TOTAL extractors: a shape they do not know gives the value that makes
# the obligation `rcfg_good` fail (limit 0 / false), never an exception.

_C_LINUX_DEFINED = {"PSUTIL_LINUX", "PSUTIL_POSIX", "__linux__", "__linux", "linux", "__unix__", "PSUTIL_HAVE_IOPRIO"}


def _c_strip_comments(src):
    src = re.sub(r"/\*.*?\*/", lambda m: "\n" * m.group(0).count("\n"), src, flags=re.S)
    return re.sub(r"//[^\n]*", " ", src)


def _c_int(expr, env):
    """value of a small integer constant expression of C (literals, known macros, + - * << >> | & parentheses, casts)"""
    e = re.sub(r"\(\s*(?:unsigned\s+|signed\s+)?(?:int|long|long\s+long|pid_t|size_t|unsigned)\s*\)", "", expr)
    e = re.sub(r"\b(0[xX][0-9a-fA-F]+|\d+)[uUlL]+\b", r"\1", e)

    def ident(m):
        w = m.group(0)
        if re.fullmatch(r"0[xX][0-9a-fA-F]+|\d+", w):
            return w
        if w not in env:
            raise NotRecognised("unknown identifier %s in %r" % (w, expr))
        return "(%d)" % env[w]
    e = re.sub(r"\b\w+\b", ident, e)
    if not re.fullmatch(r"[0-9a-fA-FxX\s()+\-*<>|&]+", e) or "**" in e:
        raise NotRecognised("not a constant expression: %r" % expr)
    try:
        v = eval(e, {"__builtins__": {}}, {})  # noqa: S307 (sanitised above)
    except Exception as exc:
        raise NotRecognised("cannot evaluate %r: %s" % (expr, exc))
    if not isinstance(v, int) or isinstance(v, bool):
        raise NotRecognised("not an int: %r" % expr)
    return v


def _c_preprocess_linux(src, env):
    """The text of a C file as the Linux build sees it: `#if`/`#ifdef`/`#ifndef`/`#elif`/`#else`/`#endif` evaluated with
    the Linux macros defined, object-like `#define NAME <int expr>` collected into `env`. A condition that cannot be
    decided keeps BOTH branches (the function shape test below then sees every test on `pid` there is)."""
    out, stack = [], []        # stack of [active_here, any_branch_taken, undecided]

    def cond(text):
        t = text.strip()
        t2 = re.sub(r"defined\s*\(\s*(\w+)\s*\)|defined\s+(\w+)",
                    lambda m: "1" if ((m.group(1) or m.group(2)) in _C_LINUX_DEFINED or (m.group(1) or m.group(2)) in env) else "0", t)
        t2 = t2.replace("&&", " and ").replace("||", " or ").replace("!", " not ").replace(" not =", "!=")
        try:
            names = {w: env[w] for w in re.findall(r"\b[A-Za-z_]\w*\b", t2) if w not in ("and", "or", "not")}
        except KeyError:
            return None
        if not re.fullmatch(r"[\w\s()<>=!+\-*]+", t2):
            return None
        try:
            return bool(eval(t2, {"__builtins__": {}}, names))  # noqa: S307
        except Exception:
            return None
    for line in src.split("\n"):
        m = re.match(r"\s*#\s*(\w+)\s*(.*)$", line)
        active = all(f[0] for f in stack)
        if not m:
            if active:
                out.append(line)
            continue
        d, rest = m.group(1), m.group(2)
        if d in ("ifdef", "ifndef", "if"):
            if d == "if":
                v = cond(rest)
            else:
                v = (rest.strip() in _C_LINUX_DEFINED or rest.strip() in env)
                v = v if d == "ifdef" else not v
            stack.append([True, True, True] if v is None else [v, v, False])
        elif d == "elif" and stack:
            f = stack[-1]
            if not f[2]:
                v = cond(rest)
                if v is None:
                    f[0], f[2] = True, True
                else:
                    f[0] = (not f[1]) and v
                    f[1] = f[1] or f[0]
        elif d == "else" and stack:
            f = stack[-1]
            if not f[2]:
                f[0] = not f[1]
                f[1] = True
        elif d == "endif" and stack:
            stack.pop()
        elif d == "define" and active:
            dm = re.match(r"(\w+)\s+(.+?)\s*$", rest)
            if dm and "(" not in dm.group(1):
                try:
                    env[dm.group(1)] = _c_int(dm.group(2), env)
                except NotRecognised:
                    pass
    return "\n".join(out)


def _c_body(src, name):
    m = re.search(r"\b%s\s*\([^)]*\)\s*\{" % re.escape(name), src)
    if not m:
        return None
    i, depth = m.end(), 1
    while i < len(src) and depth:
        depth += {"{": 1, "}": -1}.get(src[i], 0)
        i += 1
    return src[m.end():i - 1] if depth == 0 else None


def _c_if_conditions(body):
    """→ (texts of every `if (…)` condition, the body with those conditions blanked)"""
    conds, rest, i = [], [], 0
    for m in re.finditer(r"\bif\s*\(", body):
        if m.start() < i:
            continue
        j, depth = m.end(), 1
        while j < len(body) and depth:
            depth += {"(": 1, ")": -1}.get(body[j], 0)
            j += 1
        conds.append(body[m.end():j - 1])
        rest.append(body[i:m.start()])
        i = j
    rest.append(body[i:])
    return conds, " ".join(rest)


def check_pid_range_facts(common_c, pid_t_bytes):
    """TOTAL → (limit, shape_known). `limit`: smallest non-negative PID psutil_check_pid_range() refuses in the Linux build
    as far as the source can be read: the `_Py_PARSE_PID` conversion into a `pid_t` overflows from 2^(8·sizeof(pid_t) − 1)
    on; every `if` of the body that compares `pid` with a constant upwards (`pid >= N`, `pid > N`, `N <= pid`, `N < pid`,
    also inside `||`) lowers it. `pid < 0` is the ValueError for negatives (no PID). `shape_known` is False when `pid` is
    used in ANY other way — another comparison shape, `&&`, a bit test, a helper called with it, a loop, a switch, `?:`,
    another conversion — i.e. when the helper may refuse PIDs the limit does not account for: the obligation `rcfg_good`
    then fails (the model keeps running with the limit that could be read)."""
    env = {}
    src = _c_preprocess_linux(_c_strip_comments(common_c), env)
    body = _c_body(src, "psutil_check_pid_range")
    base_default = 2 ** (8 * pid_t_bytes - 1)
    if body is None:
        return base_default, False
    known = bool(re.search(r"\bpid_t\s+pid\s*;", body))
    conds, rest = _c_if_conditions(body)
    fmt = None
    limit = None
    for c in conds:
        t = " ".join(c.split())
        if "PyArg_ParseTuple" in t:
            m = re.fullmatch(r"!\s*PyArg_ParseTuple\s*\(\s*args\s*,\s*(_Py_PARSE_PID|\"[ilL]\")\s*,\s*&\s*pid\s*\)", t)
            if not m or fmt is not None:
                known = False
            else:
                fmt = m.group(1)
            continue
        if not re.search(r"\bpid\b", t):
            continue
        for part in t.split("||"):
            part = part.strip()
            while part.startswith("(") and part.endswith(")") and part.count("(") == part.count(")") == 1:
                part = part[1:-1].strip()
            if not re.search(r"\bpid\b", part):
                continue
            if re.fullmatch(r"pid\s*<\s*0|pid\s*<=\s*-\s*1|0\s*>\s*pid|-\s*1\s*>=\s*pid", part):
                continue
            m = re.fullmatch(r"pid\s*(>=|>)\s*(.+)", part)
            m2 = re.fullmatch(r"(.+?)\s*(<=|<)\s*pid", part)
            try:
                if m and "&&" not in part:
                    v = _c_int(m.group(2), env) + (1 if m.group(1) == ">" else 0)
                elif m2 and "&&" not in part:
                    v = _c_int(m2.group(1), env) + (1 if m2.group(2) == "<" else 0)
                else:
                    known = False
                    continue
            except NotRecognised:
                known = False
                continue
            v = max(v, 0)
            limit = v if limit is None else min(limit, v)
    if fmt is None:
        known = False
    rest = re.sub(r'"(?:\\.|[^"\\])*"', '""', rest)          # the texts of the error messages are not code
    # outside the `if` conditions `pid` may only be declared
    rest_wo_decl = re.sub(r"\bpid_t\s+pid\s*;", " ", rest)
    if re.search(r"\bpid\b", rest_wo_decl) or re.search(r"\b(while|for|switch|goto)\b|\?", rest):
        known = False
    width = {"_Py_PARSE_PID": 8 * pid_t_bytes, '"i"': 32, '"l"': 64, '"L"': 64}.get(fmt, 8 * pid_t_bytes)
    width = min(width, 8 * pid_t_bytes)
    base = 2 ** (width - 1)
    return (base if limit is None else min(base, limit)), known


def init_range_only_c(fn):
    """TOTAL. Process._init(): up to the construction of the platform object (`self._proc = …Process(pid)`) the only
    things that can refuse a PID are `if pid < 0: raise ValueError…`, `if not isinstance(pid, int): raise TypeError…` and
    `try: <…>.check_pid_range(pid)  except OverflowError: raise NoSuchProcess(…)`; `pid` is passed to nothing else and
    is compared with nothing else."""
    stmts = []
    for st in fn.body:
        tgt = st.targets[0] if isinstance(st, ast.Assign) else None
        stmts.append(st)
        if tgt is not None and extract.dotted(tgt) == "self._proc":
            break
    else:
        return False
    ok_calls = {"os.getpid", "isinstance", "ValueError", "TypeError", "NoSuchProcess", "threading.RLock"}
    seen_check = 0
    for st in stmts:
        for n in ast.walk(st):
            if isinstance(n, ast.Compare) and any(extract.dotted(x) == "pid" for x in [n.left] + list(n.comparators)):
                l, r = n.left, n.comparators[0]
                is_none = len(n.ops) == 1 and isinstance(n.ops[0], (ast.Is, ast.IsNot)) and isinstance(r, ast.Constant) and r.value is None
                neg = len(n.ops) == 1 and extract.dotted(l) == "pid" and isinstance(n.ops[0], ast.Lt) \
                    and isinstance(r, ast.Constant) and r.value == 0
                if not (is_none or neg):
                    return False
            if isinstance(n, ast.Call):
                name = extract.dotted(n.func) or ""
                uses_pid = any(extract.dotted(a) == "pid" for a in list(n.args) + [k.value for k in n.keywords])
                if name.endswith("check_pid_range"):
                    seen_check += 1
                elif uses_pid and name not in ok_calls and not name.endswith("_psplatform.Process"):
                    return False
            if isinstance(n, (ast.While, ast.For, ast.Match)):
                return False
        if isinstance(st, ast.Assign) and extract.dotted(st.targets[0]) == "pid":
            return False                                    # `pid` rebound at top level
    if seen_check != 1:
        return False
    # the helper's OverflowError must become NoSuchProcess, nothing else is caught or raised around it
    for n in ast.walk(_wrap(stmts)):
        if isinstance(n, ast.Try):
            calls = [extract.dotted(c.func) or "" for b in n.body for c in ast.walk(b) if isinstance(c, ast.Call)]
            if not any(c.endswith("check_pid_range") for c in calls):
                continue
            if len(n.body) != 1 or len(n.handlers) != 1 or n.orelse or n.finalbody:
                return False
            h = n.handlers[0]
            if extract.dotted(h.type) != "OverflowError":
                return False
            raises = [x for b in h.body for x in ast.walk(b) if isinstance(x, ast.Raise)]
            if len(raises) != 1 or not isinstance(raises[0].exc, ast.Call) or extract.dotted(raises[0].exc.func) != "NoSuchProcess":
                return False
            return True
    return False


def facts(snap, F):
    init = extract.parse_module(snap, "__init__.py")
    linux = extract.parse_module(snap, "_pslinux.py")
    cache = {}

    def fn(name):
        if name not in cache:
            cache[name] = extract.find_def(init, name, cls="Process")
        return cache[name]

    me = {"self.create_time()"}
    kid = {"child.create_time()"}
    F.try_add("childOp", "String",
              lambda: extract.lean_str(_ctime_op(_wrap(_children_branches(fn("children"))[0]), me, kid, "child.create_time")),
              "children(): operator in `self.create_time() OP child.create_time()` (non-recursive branch)")
    F.try_add("descOp", "String",
              lambda: extract.lean_str(_ctime_op(_wrap(_children_branches(fn("children"))[1]), me, kid, "child.create_time")),
              "children(recursive=True): operator in `self.create_time() OP child.create_time()`")
    F.try_add("parentOp", "String",
              lambda: extract.lean_str(_ctime_op(fn("parent"), {"parent.create_time()"}, {"ctime", "self.create_time()"},
                                                 "parent.create_time")),
              "parent(): operator in `parent.create_time() OP ctime`")
    F.try_add("seenGuard", "Bool", lambda: extract.lean_bool(seen_guard(fn("children"))),
              "the recursive walk of children() tests `pid in seen`")
    F.try_add("skipSelf", "Bool", lambda: extract.lean_bool(skip_self(fn("children"))),
              "children() drops the caller's own PID (ppid_map.pop(self.pid, …) or `!= self.pid` tests in both branches)")
    F.try_add("parentsSeen", "Bool", lambda: extract.lean_bool(parents_seen(fn("parents"))),
              "the loop of parents() stops at a PID already on the chain: a collection seeded with self.pid, `<cur>.pid [not] in` it in the loop, `<cur>.pid` added in the body")
    F.try_add("childrenGuarded", "Bool", lambda: extract.lean_bool(_first_stmt_is_reuse_guard(fn("children"))),
              "children() starts with self._raise_if_pid_reused()")
    F.try_add("ppidGuarded", "Bool", lambda: extract.lean_bool(_first_stmt_is_reuse_guard(fn("ppid"))),
              "ppid() starts with self._raise_if_pid_reused()")
    F.try_add("lowestStop", "Bool", lambda: extract.lean_bool(lowest_stop(fn("parent"))),
              "parent() returns None for self.pid == (_LOWEST_PID or pids()[0]) before calling ppid()")
    F.try_add("goneRaises", "Bool", lambda: extract.lean_bool(gone_raises(fn("_raise_if_pid_reused"))),
              "_raise_if_pid_reused() also raises NoSuchProcess when self._gone is set (after the reused test)")
    F.try_add("rootGuarded", "Bool", lambda: extract.lean_bool(root_guarded(fn("parent"))),
              "parent(): the caller's identity is checked (self._raise_if_pid_reused(), or self.ppid()) before the lowest-PID stop answers None")
    F.try_add("ppidUncached", "Bool", lambda: extract.lean_bool(ppid_uncached(fn("ppid"))),
              "ppid(): on POSIX a bare `return self._proc.ppid()` — no per-object cache of the parent PID")
    F.try_add("ctimeCached", "Bool", lambda: extract.lean_bool(ctime_cached(fn("create_time"))),
              "create_time(): read once, then answered from self._create_time")
    pm = {}

    def pmf():
        if "v" not in pm:
            pm["v"] = _each(ppid_map_facts)(linux)
        return pm["v"]
    sf = {}

    def sff():
        if "v" not in sf:
            sf["v"] = _each(stat_file_facts)(linux)
        return sf["v"]
    F.try_add("ppidMapRfind", "Bool", lambda: extract.lean_bool(_get(pmf(), "rfind")), "ppid_map(): `data.rfind(b')')` (true) or find (false)")
    F.try_add("ppidMapOffset", "Nat", lambda: extract.lean_nat(_get(pmf(), "off")), "ppid_map(): `data[rpar + N:]`")
    F.try_add("ppidMapIdx", "Nat", lambda: extract.lean_nat(_get(pmf(), "idx")), "ppid_map(): `int(dset[N])`")
    F.try_add("ppidMapSkipsDenied", "Bool", lambda: extract.lean_bool(ppid_map_skips_denied(linux)),
              "ppid_map(): an unreadable /proc/<pid>/stat (PermissionError) is skipped, not raised")
    F.try_add("ppidMapSkipsGone", "Bool", lambda: extract.lean_bool(ppid_map_skips_gone(linux)),
              "ppid_map(): a listed PID whose /proc/<pid>/stat is gone (FileNotFoundError and ProcessLookupError) is skipped, not raised")
    F.try_add("statRfind", "Bool", lambda: extract.lean_bool(_get(sff(), "rfind")), "_parse_stat_file(): rfind (true) or find (false)")
    F.try_add("statOffset", "Nat", lambda: extract.lean_nat(_get(sff(), "off")), "_parse_stat_file(): `data[rpar + N:]`")
    F.try_add("statPpidIdx", "Nat", lambda: extract.lean_nat(_get(sff(), "ppid")), "_parse_stat_file(): ret['ppid'] = fields[N]")
    F.try_add("statCtimeIdx", "Nat", lambda: extract.lean_nat(_get(sff(), "ctime")), "_parse_stat_file(): ret['create_time'] = fields[N]")
    pid_t_bytes = sysconfig.get_config_var("SIZEOF_PID_T") or 4
    cr = {}

    def crf():
        if "v" not in cr:
            cr["v"] = check_pid_range_facts(snap.source("_psutil_common.c"), pid_t_bytes)
        return cr["v"]
    F.try_add("checkPidRangeLimit", "Nat", lambda: extract.lean_nat(crf()[0]),
              "psutil_check_pid_range() (Linux build of psutil/_psutil_common.c): smallest non-negative PID it refuses "
              "(OverflowError): 2^(bits of pid_t - 1) from the _Py_PARSE_PID conversion, lowered by every `pid >= N` / `pid > N` test "
              "of the body")
    F.try_add("checkPidRangeShapeKnown", "Bool", lambda: extract.lean_bool(crf()[1]),
              "psutil_check_pid_range(): `pid` is only declared (pid_t), converted with _Py_PARSE_PID and compared with constants "
              "(`pid < 0`, `pid >= N`, `pid > N`): nothing else can refuse a PID")
    F.try_add("initRangeOnlyC", "Bool", lambda: extract.lean_bool(init_range_only_c(fn("_init"))),
              "Process._init(): before the platform object is built a PID is refused only by `pid < 0` (ValueError) and by "
              "cext.check_pid_range(pid) -> OverflowError -> NoSuchProcess")
