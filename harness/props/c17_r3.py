"""C17 round 3 (audit-driven): failure paths and plumbing on the REAL code path.

  ifaddrs_fail   getifaddrs() itself fails (shim2: errno; NULL stored into *ifap like glibc, or *ifap left untouched like musl)
  ifr_sockfail   socket() fails in the four ifreq entry points
  ifr_errmsg     the ioctl fails with the errnos whose strerror() text is longest: the message formatted into the fixed
                 `fullmsg[…]` local comes back whole (OSError.strerror), model = Lean `renderPieces` over the extracted format
  parts_mtab     psutil.disk_partitions() with PROCFS_PATH = "/proc": which mounts file is read, namedtuple field order
  parts_e2e      /proc/filesystems text + mounts lines through the Lean end-to-end model (diskPartitionsPy)
"""
import os

from harness.props import c17_facts_r3
from harness.props import c17_util as U

FINDING_UNINIT = "C17-ifaddr-uninit"


# ------------------------------------------------------------------------------- getifaddrs() fails

def fail_cases():
    return [{"err": e, "stores_null": st, "errno": pe} for e, pe in ((12, 0), (24, 3), (105, 22), (13, 12)) for st in (True, False)]


def fail_line(c):
    return {"op": "ifaddrs_fail", "err": c["err"], "stores_null": bool(c["stores_null"])}


def compare_ifaddrs_fail(run, c, m):
    res = run.res
    inp = {"kind": "ifaddrs_fail", "case": c}
    mo, sp = m["model"], m["spec"]
    undefined = mo.get("kind") == "ub"
    note_ub = ("model of the current source: getifaddrs() failed (errno %d) without storing into *ifap (getifaddrs(3) does not promise "
               "a value there; musl leaves it untouched) and psutil_net_if_addrs() frees its UNINITIALISED `ifaddr` on the error path: "
               "undefined behaviour instead of OSError(%d)" % (c["err"], c["err"]))
    rep = run.ask({"cmd": "ifaddrs_fail", "err": c["err"], "stores_null": c["stores_null"], "errno": c.get("errno")}, inp,
                  finding=FINDING_UNINIT if undefined else None, note=note_ub if undefined else None)
    res.count("ifaddrs_fail:" + ("stores_null" if c["stores_null"] else "untouched"))
    res.case(("ifaddrs_fail", c["err"], bool(c["stores_null"])), nontrivial=True)
    if undefined:
        if rep is not None:          # survived by luck (the stack slot happened to hold NULL): still undefined
            res.disagree("spec", inp, rep, mo, sp, note=note_ub, finding=FINDING_UNINIT)
            res.known_seen[FINDING_UNINIT] = res.known_seen.get(FINDING_UNINIT, 0) + 1
        return
    if rep is None:
        return
    got = {"kind": "exc", "exc": "OSError", "errno": rep.get("errno_num")} if rep.get("oserror") else rep
    if got != sp:
        res.disagree("spec", inp, rep, mo, sp, note="net_if_addrs() after a failing getifaddrs(): expected OSError with the errno getifaddrs() set")


# ------------------------------------------------------------------------------- socket() fails

def sockfail_cases():
    return [{"err": e, "name": n.hex(), "errno": pe} for e, pe in ((24, 0), (23, 2), (12, 95), (97, 0), (13, 22)) for n in (b"eth0", b"z" * 300)]


def compare_sockfail(run, c):
    res = run.res
    inp = {"kind": "ifr_sockfail", "case": c}
    rep = run.ask(dict(c, cmd="ifr_sockfail"), inp)
    if rep is None:
        return
    res.count("ifr_sockfail")
    res.case(("ifr_sockfail", c["err"], c["name"]), nontrivial=True)
    want = {"kind": "exc", "exc": "OSError", "errno": c["err"]}
    for k in ("mtu", "flags", "running", "duplex_speed"):
        o = rep[k]
        got = {"kind": "exc", "exc": "OSError", "errno": o.get("errno_num")} if o.get("oserror") else o
        if got != want:
            res.disagree("spec", inp, rep, None, want, note="net_if_%s with a failing socket(): expected OSError with socket()'s errno" % k)
            return
    if rep["ioctls"] != 0 or rep["sockets"] != 4:
        res.disagree("spec", inp, rep, None, {"sockets": 4, "ioctls": 0}, note="an ioctl was issued on the descriptor of a FAILED socket() (or socket() was not asked)")


# ------------------------------------------------------------------------------- long strerror() texts

LITS = {"flags": "ioctl(SIOCGIFFLAGS)", "duplex_speed": "ioctl(SIOCETHTOOL)"}


def errmsg_cases():
    best, arg = c17_facts_r3.strerror_maxlen()
    errs = []
    for e in (arg, 82, 75, 131, 84, 19, 133):
        if e not in errs:
            errs.append(e)
    return [{"err": e, "name": b"eth0".hex()} for e in errs]


def errmsg_lines(c):
    return [{"op": "errmsg", "fn": "psutil_PyErr_SetFromOSErrnoWithSyscall", "args": [os.strerror(c["err"]), lit]} for lit in LITS.values()]


def compare_errmsg(run, c, ms):
    res = run.res
    inp = {"kind": "ifr_errmsg", "case": c}
    for (key, lit), m in zip(LITS.items(), ms):
        mo = m["model"]
        want = "%s (originated from %s)" % (os.strerror(c["err"]), lit)
        if mo.get("text") != want or not mo.get("fits"):
            res.disagree("spec", inp, None, mo, {"text": want, "fits": True},
                         note="model of the current source: the message psutil formats with sprintf() for errno %d does not fit / is not the "
                              "documented '<strerror> (originated from <syscall>)' (buffer of %s bytes, %d characters + NUL)" % (c["err"], mo.get("size"), len(want)))
            return
    rep = run.ask(dict(c, cmd="ifr_errmsg"), inp)
    if rep is None:
        return
    res.count("ifr_errmsg")
    res.case(("ifr_errmsg", c["err"]), nontrivial=True)
    for (key, lit), m in zip(LITS.items(), ms):
        o = rep[key]
        if key == "duplex_speed" and c["err"] in (95, 22):
            continue
        if not o.get("oserror") or o.get("errno_num") != c["err"] or o.get("strerror") != m["model"]["text"]:
            res.disagree("spec", inp, o, m["model"], {"errno": c["err"], "strerror": m["model"]["text"]},
                         note="net_if_%s: OSError after a failing ioctl does not carry the kernel's errno and the whole formatted message" % key)
            return


# ------------------------------------------------------------------------------- which mounts file

def mtab_cases(rng):
    out = []
    for has in (True, False):
        a = b"/dev/sda%d / ext4 rw 0 0\nnone /m\\040x tmpfs rw 0 0\n" % rng.randrange(1, 9)
        b = b"/dev/vdb%d /data xfs ro,noatime 0 0\n# c\n/dev/root /r btrfs rw 0 0\n" % rng.randrange(1, 9)
        out.append({"mtab": a.hex(), "selfmounts": b.hex(), "has_mtab": has})
    return out


def compare_mtab(run, c):
    res = run.res
    inp = {"kind": "parts_mtab", "case": c}
    rep = run.ask(dict(c, cmd="partitions_mtab"), inp)
    if rep is None:
        return
    res.count("parts_mtab:" + ("mtab" if c["has_mtab"] else "self_mounts"))
    res.case(("parts_mtab", c["mtab"], c["selfmounts"], c["has_mtab"]), nontrivial=True)
    src = bytes.fromhex(c["mtab"] if c["has_mtab"] else c["selfmounts"])
    want = [[(b"" if d == b"none" else d).hex(), m.hex(), t.hex(), o.hex()] for d, m, t, o in U.getmntent_decode(src)]
    if rep.get("kind") != "ok" or rep["rows"] != want or rep.get("fields") != ["device", "mountpoint", "fstype", "opts"]:
        res.disagree("spec", inp, rep, None, {"rows": want, "fields": ["device", "mountpoint", "fstype", "opts"]},
                     note="disk_partitions(all=True) with the default procfs path does not return (device, mountpoint, fstype, opts) of the entries of the "
                          "mount table (%s)" % ("/etc/mtab, which exists" if c["has_mtab"] else "/proc/self/mounts, /etc/mtab being absent"))
        return
    if rep.get("asked") != (["/etc/mtab"] if c["has_mtab"] else ["/proc/self/mounts"]):
        res.disagree("model", inp, rep.get("asked"), ["/etc/mtab"] if c["has_mtab"] else ["/proc/self/mounts"], None,
                     note="disk_partitions(): path resolved for the mounts file differs from the extracted logic (fact mountsPathLogic)")


# ------------------------------------------------------------------------------- end-to-end lines

E2E_MAX = 6000          # mounts files up to this size also go through the Lean text -> rows model


def e2e_lines(case, mnt_line_for):
    base = mnt_line_for(case["mounts"])
    root = None if case["root"] is None else case["root"].hex()
    return [{"op": "parts_e2e", "all": al, "fs": case["filesystems"].hex(), "lines": base["lines"], "last_term": base["last_term"], "root": root}
            for al in (False, True)]
