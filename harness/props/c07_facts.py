"""C07 translator: facts about the CPU-times/percent code re-derived from the current source (ast only).

Every extractor raises NotRecognised when the shape of the code is not the one it knows; the
fact is then skipped (baseline kept) and the tie for it rests on the correspondence check.
"""
import ast

from harness.common import extract
from harness.common.extract import NotRecognised

L = extract.lean_list
S = extract.lean_str


def _num_nat(node):
    v = extract.const(node)
    if isinstance(v, bool) or not isinstance(v, (int, float)):
        raise NotRecognised("not a number: %r" % (v,))
    if float(v) != int(v) or v < 0:
        raise NotRecognised("not a natural number: %r" % (v,))
    return int(v)


def _nested_def(fn, name):
    for n in fn.body:
        if isinstance(n, ast.FunctionDef) and n.name == name:
            return n
    raise NotRecognised("nested function %s not found in %s" % (name, fn.name))


# ------------------------------------------------------------------ _pslinux.py

def scputimes_fields(tree):
    fn = extract.find_def(tree, "set_scputimes_ntuple")
    base, opt = None, []
    for st in fn.body:
        if isinstance(st, ast.Assign) and len(st.targets) == 1 and extract.dotted(st.targets[0]) == "fields" \
                and isinstance(st.value, ast.List):
            base = [extract.const(e) for e in st.value.elts]
        elif isinstance(st, ast.If):
            t = st.test
            if not (isinstance(t, ast.Compare) and extract.dotted(t.left) == "vlen" and len(t.ops) == 1
                    and isinstance(t.ops[0], ast.GtE)):
                raise NotRecognised("unexpected test in set_scputimes_ntuple: %s" % extract.unparse(t))
            thr = _num_nat(t.comparators[0])
            if st.orelse or len(st.body) != 1:
                raise NotRecognised("unexpected if body in set_scputimes_ntuple")
            c = st.body[0]
            if not (isinstance(c, ast.Expr) and isinstance(c.value, ast.Call)
                    and extract.dotted(c.value.func) == "fields.append" and len(c.value.args) == 1):
                raise NotRecognised("unexpected statement under vlen test")
            opt.append((thr, extract.const(c.value.args[0])))
    if base is None:
        raise NotRecognised("fields = [...] not found")
    # vlen = len(values); values = f.readline().split()[1:]
    src = extract.unparse(fn)
    if "vlen = len(values)" not in src or "f.readline().split()[1:]" not in src:
        raise NotRecognised("vlen/values derivation changed")
    return base, opt


def _slice_and_div(fn):
    """(from, extra, divides_by_CLOCK_TICKS) of `fields = values[a : len(scputimes._fields) + b]`."""
    sl = None
    div = 0
    for n in ast.walk(fn):
        if isinstance(n, ast.Assign) and extract.dotted(n.targets[0]) == "fields":
            v = n.value
            if isinstance(v, ast.Subscript) and extract.dotted(v.value) == "values" and isinstance(v.slice, ast.Slice):
                lo, hi = v.slice.lower, v.slice.upper
                if v.slice.step is not None or lo is None or hi is None:
                    raise NotRecognised("slice shape")
                if not (isinstance(hi, ast.BinOp) and isinstance(hi.op, ast.Add)
                        and extract.unparse(hi.left) == "len(scputimes._fields)"):
                    raise NotRecognised("slice upper bound: %s" % extract.unparse(hi))
                if sl is not None:
                    raise NotRecognised("two slices")
                sl = (_num_nat(lo), _num_nat(hi.right))
            elif isinstance(v, ast.ListComp):
                if extract.unparse(v) == "[float(x) / CLOCK_TICKS for x in fields]":
                    div += 1
                else:
                    raise NotRecognised("conversion is %s" % extract.unparse(v))
    if sl is None or div != 1:
        raise NotRecognised("slice/conversion not found in %s" % fn.name)
    if "scputimes(*fields)" not in extract.unparse(fn):
        raise NotRecognised("scputimes(*fields) not found")
    return sl[0], sl[1], True


def percpu_prefix(fn):
    found = []
    for n in ast.walk(fn):
        if isinstance(n, ast.If) and isinstance(n.test, ast.Call) and extract.dotted(n.test.func) == "line.startswith":
            found.append(extract.const(n.test.args[0]))
    if len(found) != 1 or not isinstance(found[0], bytes):
        raise NotRecognised("line.startswith(b'…') not found exactly once")
    src = extract.unparse(fn)
    if "f.readline()" not in src or "line.split()" not in src:
        raise NotRecognised("per_cpu_times no longer skips the first line / splits on blanks")
    return found[0]


# ------------------------------------------------------------------ __init__.py

def _getattr_default0(node, obj):
    """name if node is `getattr(obj, 'name', 0)`."""
    if isinstance(node, ast.Call) and extract.dotted(node.func) == "getattr" and len(node.args) == 3 \
            and extract.dotted(node.args[0]) == obj and extract.const(node.args[2]) == 0:
        return extract.const(node.args[1])
    return None


def _sub_lists(fn, acc, obj):
    """AugAssign `acc -= …` statements of fn (also inside `if LINUX:`): (required attrs, optional attrs)."""
    req, opt = [], []
    for n in ast.walk(fn):
        if isinstance(n, ast.AugAssign) and extract.dotted(n.target) == acc:
            if not isinstance(n.op, ast.Sub):
                raise NotRecognised("%s is updated with %s" % (acc, type(n.op).__name__))
            g = _getattr_default0(n.value, obj)
            if g is not None:
                opt.append(g)
            elif isinstance(n.value, ast.Attribute) and extract.dotted(n.value.value) == obj:
                req.append(n.value.attr)
            else:
                raise NotRecognised("unexpected subtraction %s" % extract.unparse(n))
    return req, opt


def tot_sub(tree):
    fn = extract.find_def(tree, "_cpu_tot_time")
    req, opt = _sub_lists(fn, "tot", "times")
    src = extract.unparse(fn)
    if req or "tot = sum(times)" not in src or "return tot" not in src:
        raise NotRecognised("_cpu_tot_time shape")
    for n in ast.walk(fn):
        if isinstance(n, ast.If) and extract.dotted(n.test) != "LINUX":
            raise NotRecognised("unexpected condition in _cpu_tot_time")
    return opt


def busy_sub(tree):
    fn = extract.find_def(tree, "_cpu_busy_time")
    req, opt = _sub_lists(fn, "busy", "times")
    src = extract.unparse(fn)
    if "busy = _cpu_tot_time(times)" not in src or "return busy" not in src:
        raise NotRecognised("_cpu_busy_time shape")
    return req, opt


def clip_zero(tree):
    fn = extract.find_def(tree, "_cpu_times_deltas")
    src = extract.unparse(fn)
    if "field_delta = getattr(t2, field) - getattr(t1, field)" not in src \
            or "for field in _psplatform.scputimes._fields" not in src \
            or "field_deltas.append(field_delta)" not in src:
        raise NotRecognised("_cpu_times_deltas shape")
    clips = [n for n in ast.walk(fn) if isinstance(n, ast.Assign) and extract.dotted(n.targets[0]) == "field_delta"
             and isinstance(n.value, ast.Call) and extract.dotted(n.value.func) in ("max", "min")]
    if not clips:
        return False
    if len(clips) == 1 and extract.unparse(clips[0].value) == "max(0, field_delta)":
        return True
    raise NotRecognised("clipping is %s" % [extract.unparse(c) for c in clips])


def _round_call(fn, var):
    out = []
    for n in ast.walk(fn):
        if isinstance(n, ast.Call) and extract.dotted(n.func) == "round" and len(n.args) == 2 \
                and extract.dotted(n.args[0]) == var:
            out.append(_num_nat(n.args[1]))
    if len(out) != 1:
        raise NotRecognised("round(%s, d) not found exactly once" % var)
    return out[0]


def _zero_div_returns_zero(fn):
    for n in ast.walk(fn):
        if isinstance(n, ast.ExceptHandler) and extract.dotted(n.type) == "ZeroDivisionError":
            if len(n.body) >= 1 and isinstance(n.body[-1], ast.Return) and extract.const(n.body[-1].value) == 0.0:
                return True
    return False


def percent_calc(tree):
    fn = _nested_def(extract.find_def(tree, "cpu_percent"), "calculate")
    src = extract.unparse(fn)
    for want in ("times_delta = _cpu_times_deltas(t1, t2)", "all_delta = _cpu_tot_time(times_delta)",
                 "busy_delta = _cpu_busy_time(times_delta)"):
        if want not in src:
            raise NotRecognised("cpu_percent.calculate: %s missing" % want)
    factor = None
    for n in ast.walk(fn):
        if isinstance(n, ast.Assign) and extract.dotted(n.targets[0]) == "busy_perc":
            v = n.value
            if isinstance(v, ast.BinOp) and isinstance(v.op, ast.Mult) \
                    and extract.unparse(v.left) == "busy_delta / all_delta":
                factor = _num_nat(v.right)
            else:
                raise NotRecognised("busy_perc = %s" % extract.unparse(v))
    if factor is None:
        raise NotRecognised("busy_perc assignment not found")
    if not _zero_div_returns_zero(fn):
        raise NotRecognised("ZeroDivisionError no longer returns 0.0")
    return factor, _round_call(fn, "busy_perc")


def times_percent_calc(tree):
    """(numer, maxOne, digits, lo, hi)"""
    fn = _nested_def(extract.find_def(tree, "cpu_times_percent"), "calculate")
    src = extract.unparse(fn)
    for want in ("times_delta = _cpu_times_deltas(t1, t2)", "all_delta = _cpu_tot_time(times_delta)",
                 "for field_delta in times_delta", "field_perc = field_delta * scale"):
        if want not in src:
            raise NotRecognised("cpu_times_percent.calculate: %s missing" % want)
    numer = max_one = None
    lo = hi = None
    for n in ast.walk(fn):
        if isinstance(n, ast.Assign) and extract.dotted(n.targets[0]) == "scale":
            v = n.value
            if isinstance(v, ast.BinOp) and isinstance(v.op, ast.Div) and extract.unparse(v.right) == "max(1, all_delta)":
                numer, max_one = _num_nat(v.left), True
            elif isinstance(v, ast.IfExp) and extract.unparse(v.test) == "all_delta > 0" \
                    and isinstance(v.body, ast.BinOp) and isinstance(v.body.op, ast.Div) \
                    and extract.dotted(v.body.right) == "all_delta" and extract.const(v.orelse) == 0.0:
                numer, max_one = _num_nat(v.body.left), False
            else:
                raise NotRecognised("scale = %s" % extract.unparse(v))
        if isinstance(n, ast.Assign) and extract.dotted(n.targets[0]) == "field_perc" \
                and isinstance(n.value, ast.Call) and extract.dotted(n.value.func) == "min":
            a = n.value.args
            if len(a) == 2 and isinstance(a[0], ast.Call) and extract.dotted(a[0].func) == "max" \
                    and len(a[0].args) == 2 and extract.dotted(a[0].args[1]) == "field_perc":
                lo, hi = _num_nat(a[0].args[0]), _num_nat(a[1])
            else:
                raise NotRecognised("clamp is %s" % extract.unparse(n.value))
    if numer is None:
        raise NotRecognised("scale assignment not found")
    if lo is None:
        raise NotRecognised("clamp not found")
    return numer, max_one, _round_call(fn, "field_perc"), lo, hi


def dict_use(tree):
    """For each front end and branch: the dictionary read with .get(tid), written with [tid] = and re-read."""
    want = {"cpu_percent": ("_last_cpu_times", "_last_per_cpu_times"),
            "cpu_times_percent": ("_last_cpu_times_2", "_last_per_cpu_times_2")}
    seen = []
    for fname, (sysd, perd) in want.items():
        fn = extract.find_def(tree, fname)
        src = extract.unparse(fn)
        for d, call in ((sysd, "cpu_times()"), (perd, "cpu_times(percpu=True)")):
            for pat in ("%s.get(tid) or %s" % (d, call), "%s[tid] = %s" % (d, call)):
                if pat not in src:
                    raise NotRecognised("%s: `%s` not found" % (fname, pat))
        if "return calculate(t1, %s[tid])" % sysd not in src or "zip(tot1, %s[tid])" % perd not in src:
            raise NotRecognised("%s: result no longer computed against the stored sample" % fname)
        names = {extract.dotted(n.value) for n in ast.walk(fn)
                 if isinstance(n, ast.Subscript) and extract.dotted(n.slice) == "tid"}
        names |= {extract.dotted(n.func.value) for n in ast.walk(fn)
                  if isinstance(n, ast.Call) and isinstance(n.func, ast.Attribute) and n.func.attr == "get"}
        if names != {sysd, perd}:
            raise NotRecognised("%s uses dictionaries %s" % (fname, sorted(names)))
        if "tid = threading.current_thread().ident" not in src:
            raise NotRecognised("%s: tid derivation changed" % fname)
        seen += [sysd, perd]
    # the _2 dictionaries must be copies (distinct objects), not aliases
    msrc = extract.unparse(tree)
    for a, b in (("_last_cpu_times_2", "_last_cpu_times"), ("_last_per_cpu_times_2", "_last_per_cpu_times")):
        if "%s = %s.copy()" % (a, b) not in msrc:
            raise NotRecognised("%s is not %s.copy()" % (a, b))
    return len(set(seen)) == 4


def blocking_stores(tree):
    """In each of the four branches the statement `_last_X[tid] = cpu_times(…)` that files the NEWEST sample under the
    calling thread stands after the `if blocking: … else: …` statement, not inside it: the blocking form stores its
    post-sleep sample exactly like the non-blocking form. True: all four are unconditional; False: at least one is
    nested under a test on `blocking`/`interval`; anything else: NotRecognised."""
    want = {"cpu_percent": ("_last_cpu_times", "_last_per_cpu_times"),
            "cpu_times_percent": ("_last_cpu_times_2", "_last_per_cpu_times_2")}
    all_uncond = True
    for fname, (sysd, perd) in want.items():
        fn = extract.find_def(tree, fname)
        top = [n for n in fn.body if isinstance(n, ast.If) and extract.unparse(n.test) == "not percpu"]
        if len(top) != 1:
            raise NotRecognised("%s: `if not percpu:` not found exactly once at function level" % fname)
        for d, call, block in ((sysd, "cpu_times()", top[0].body), (perd, "cpu_times(percpu=True)", top[0].orelse)):
            pat = "%s[tid] = %s" % (d, call)
            direct = [n for n in block if isinstance(n, ast.Assign) and extract.unparse(n) == pat]
            anywhere = [n for b in block for n in ast.walk(b) if isinstance(n, ast.Assign) and extract.unparse(n) == pat]
            if len(anywhere) != 1:
                raise NotRecognised("%s: `%s` occurs %d times in its branch" % (fname, pat, len(anywhere)))
            guards = [n for n in block if isinstance(n, ast.If) and extract.unparse(n.test) == "blocking"]
            if len(guards) != 1:
                raise NotRecognised("%s: `if blocking:` not found exactly once in the branch of %s" % (fname, d))
            if not direct:
                all_uncond = False
            elif block.index(direct[0]) < block.index(guards[0]):
                raise NotRecognised("%s: `%s` precedes the `if blocking:` statement" % (fname, pat))
    return all_uncond


def interval_guard(fn):
    src = extract.unparse(fn)
    return ("blocking = interval is not None and interval > 0.0" in src
            and "if interval is not None and interval < 0:" in src and "raise ValueError(msg)" in src)


def proc_scale_delta(tree):
    """How Process.cpu_percent measures the wall clock between two samples.
    False: `timer()` = `_timer() * num_cpus` is what is remembered, `delta_time = st2 - st1` (as found);
    True : the raw `_timer()` is remembered, `delta_time = (st2 - st1) * num_cpus` (repaired shape).
    Anything else: NotRecognised."""
    fn = extract.find_def(tree, "cpu_percent", cls="Process")
    src = extract.unparse(fn)
    nested = [n for n in fn.body if isinstance(n, ast.FunctionDef)]
    stamps = [extract.unparse(n.value) for n in ast.walk(fn)
              if isinstance(n, ast.Assign) and extract.dotted(n.targets[0]) in ("st1", "st2")]
    deltas = [extract.unparse(n.value) for n in ast.walk(fn)
              if isinstance(n, ast.Assign) and extract.dotted(n.targets[0]) == "delta_time"]
    if len(deltas) != 1:
        raise NotRecognised("delta_time assigned %d times" % len(deltas))
    old = (len(nested) == 1 and nested[0].name == "timer"
           and extract.unparse(nested[0]).strip().endswith("return _timer() * num_cpus")
           and sorted(stamps) == sorted(["timer()", "timer()", "self._last_sys_cpu_times", "timer()"])
           and deltas[0] == "st2 - st1" and src.count("_timer()") == 1)
    new = (not nested
           and sorted(stamps) == sorted(["_timer()", "_timer()", "self._last_sys_cpu_times", "_timer()"])
           and deltas[0] == "(st2 - st1) * num_cpus" and src.count("_timer()") == 3)
    if old == new:
        raise NotRecognised("Process.cpu_percent: time stamps %s, delta_time = %s" % (stamps, deltas[0]))
    return new


def proc_percent(tree):
    """(factor, digits, shape_ok)"""
    fn = extract.find_def(tree, "cpu_percent", cls="Process")
    src = extract.unparse(fn)
    try:
        proc_scale_delta(tree)
        stamp_shape_known = True
    except NotRecognised:
        stamp_shape_known = False
    shape = stamp_shape_known and all(p in src for p in (
        "num_cpus = cpu_count() or 1",
        "delta_proc = pt2.user - pt1.user + (pt2.system - pt1.system)",
        "if st1 is None or pt1 is None:",
        "single_cpu_percent = overall_cpus_percent * num_cpus",
        "self._last_sys_cpu_times = st2",
        "self._last_proc_cpu_times = pt2",
    ))
    factor = None
    for n in ast.walk(fn):
        if isinstance(n, ast.Assign) and extract.dotted(n.targets[0]) == "overall_cpus_percent":
            v = n.value
            if isinstance(v, ast.BinOp) and isinstance(v.op, ast.Mult) \
                    and extract.unparse(v.left) == "delta_proc / delta_time":
                factor = _num_nat(v.right)
            else:
                raise NotRecognised("overall_cpus_percent = %s" % extract.unparse(v))
    if factor is None:
        raise NotRecognised("overall_cpus_percent not found")
    first_zero = False
    for n in ast.walk(fn):
        if isinstance(n, ast.If) and extract.unparse(n.test) == "st1 is None or pt1 is None":
            first_zero = isinstance(n.body[-1], ast.Return) and extract.const(n.body[-1].value) == 0.0
    shape = shape and first_zero and _zero_div_returns_zero(fn) and interval_guard(fn)
    return factor, _round_call(fn, "single_cpu_percent"), shape


def facts(snap, F):
    init = extract.parse_module(snap, "__init__.py")
    linux = extract.parse_module(snap, "_pslinux.py")
    memo = {}

    def m(key, fn):
        if key not in memo:
            memo[key] = fn()
        return memo[key]

    sf = lambda: m("sf", lambda: scputimes_fields(linux))
    F.try_add("baseFields", "List String", lambda: L(sf()[0], S),
              "`fields = [...]` of set_scputimes_ntuple")
    F.try_add("optFields", "List (Nat × String)",
              lambda: L(sf()[1], lambda p: extract.lean_pair(extract.lean_nat(p[0]), S(p[1]))),
              "`if vlen >= N: fields.append(name)` in source order")
    ct = lambda: m("ct", lambda: _slice_and_div(extract.find_def(linux, "cpu_times")))
    pc = lambda: m("pc", lambda: _slice_and_div(extract.find_def(linux, "per_cpu_times")))
    F.try_add("cpuTimesSlice", "Nat × Nat", lambda: extract.lean_pair(str(ct()[0]), str(ct()[1])),
              "cpu_times: values[a : len(scputimes._fields) + b] as (a, b)")
    F.try_add("perCpuSlice", "Nat × Nat", lambda: extract.lean_pair(str(pc()[0]), str(pc()[1])),
              "per_cpu_times: values[a : len(scputimes._fields) + b] as (a, b)")
    F.try_add("divTicks", "Bool", lambda: extract.lean_bool(ct()[2] and pc()[2]),
              "both conversions are float(x) / CLOCK_TICKS")
    F.try_add("perCpuPrefix", "List Nat",
              lambda: extract.lean_bytes(percpu_prefix(extract.find_def(linux, "per_cpu_times"))),
              "per_cpu_times keeps the lines that start with these bytes (after skipping the first line)")
    F.try_add("clipZero", "Bool", lambda: extract.lean_bool(clip_zero(init)),
              "_cpu_times_deltas: field_delta = max(0, field_delta)")
    F.try_add("totSub", "List String", lambda: L(tot_sub(init), S),
              "_cpu_tot_time: tot -= getattr(times, name, 0)")
    bs = lambda: m("bs", lambda: busy_sub(init))
    F.try_add("busySubReq", "List String", lambda: L(bs()[0], S), "_cpu_busy_time: busy -= times.name")
    F.try_add("busySubOpt", "List String", lambda: L(bs()[1], S), "_cpu_busy_time: busy -= getattr(times, name, 0)")
    pcalc = lambda: m("pcalc", lambda: percent_calc(init))
    F.try_add("pctFactor", "Nat", lambda: str(pcalc()[0]), "cpu_percent: (busy_delta / all_delta) * N")
    F.try_add("pctDigits", "Nat", lambda: str(pcalc()[1]), "cpu_percent: round(busy_perc, N)")
    tp = lambda: m("tp", lambda: times_percent_calc(init))
    F.try_add("tpNumer", "Nat", lambda: str(tp()[0]), "cpu_times_percent: scale = N / …")
    F.try_add("tpMaxOne", "Bool", lambda: extract.lean_bool(tp()[1]),
              "scale divides by max(1, all_delta) (true) or by all_delta when positive, else 0.0 (false)")
    F.try_add("tpDigits", "Nat", lambda: str(tp()[2]), "cpu_times_percent: round(field_perc, N)")
    F.try_add("tpClamp", "Nat × Nat", lambda: extract.lean_pair(str(tp()[3]), str(tp()[4])),
              "cpu_times_percent: min(max(lo, field_perc), hi)")
    F.try_add("dictsDistinct", "Bool", lambda: extract.lean_bool(dict_use(init)),
              "each front-end branch reads/writes its own _last_* dictionary, the _2 ones being copies")
    F.try_add("blockingStores", "Bool", lambda: extract.lean_bool(blocking_stores(init)),
              "in all four branches `_last_X[tid] = cpu_times(…)` follows the `if blocking: … else: …` statement "
              "(the blocking form files its post-sleep sample as the thread's last sample too)")
    pp = lambda: m("pp", lambda: proc_percent(init))
    F.try_add("procFactor", "Nat", lambda: str(pp()[0]), "Process.cpu_percent: (delta_proc / delta_time) * N")
    F.try_add("procDigits", "Nat", lambda: str(pp()[1]), "Process.cpu_percent: round(single_cpu_percent, N)")
    F.try_add("procScaleDelta", "Bool", lambda: extract.lean_bool(proc_scale_delta(init)),
              "Process.cpu_percent remembers _timer() * num_cpus and subtracts (false) or remembers the raw _timer() and "
              "scales the difference by the current num_cpus (true)")
    F.try_add("shapeOk", "Bool",
              lambda: extract.lean_bool(pp()[2] and interval_guard(extract.find_def(init, "cpu_percent"))
                                        and interval_guard(extract.find_def(init, "cpu_times_percent"))),
              "Process.cpu_percent statement shape (user+system, cpu_count() or 1, one of the two known time-stamp shapes, first call 0.0, ZeroDivisionError → 0.0) and the three interval guards")
