"""C07 translator: facts about the CPU-times/percent code re-derived from the current source (ast only).

Round 3 (audit-driven): every fact has its OWN extractor (a shape one extractor no longer knows skips that fact only,
never its neighbours) and extractors are TOTAL wherever the Lean type allows it: Bool facts answer `false`, string /
list facts describe the shape they found (`"?<source text>"` items, which `Fld.ofName?` maps to `none`), so that the
obligation theorem itself fails with the new value. Only numeric facts whose statement is gone raise NotRecognised
(skipped; since the runner counts a skipped fact as a broken obligation that ends in the failing-input search too).
"""
import ast

from harness.common import extract
from harness.common.extract import NotRecognised

L = extract.lean_list
S = extract.lean_str


def _num_nat(node):
    v = extract.const(node)
    if isinstance(v, bool) or not isinstance(v, (int, float)):
        raise NotRecognised("not a number: %r" % (v,))
    if float(v) != int(v) or v < 0:
        raise NotRecognised("not a natural number: %r" % (v,))
    return int(v)


def _nested_def(fn, name):
    for n in fn.body:
        if isinstance(n, ast.FunctionDef) and n.name == name:
            return n
    raise NotRecognised("nested function %s not found in %s" % (name, fn.name))


def _src(n):
    try:
        return extract.unparse(n)
    except Exception:  # noqa: BLE001
        return "<unparsable>"


def _try(fn, default):
    """value of fn(), `default` when the enclosing function/class is gone (used by the TOTAL extractors)."""
    try:
        return fn()
    except NotRecognised:
        return default


FRONT = {"cpu_percent": ("_last_cpu_times", "_last_per_cpu_times"),
         "cpu_times_percent": ("_last_cpu_times_2", "_last_per_cpu_times_2")}


# ------------------------------------------------------------------ _pslinux.py

def scputimes_fields(tree):
    """(base, opt) — TOTAL below the function: an `if` of another shape becomes the item (0, "?<test>: <body>")."""
    fn = extract.find_def(tree, "set_scputimes_ntuple")
    base, opt = None, []
    for st in fn.body:
        if isinstance(st, ast.Assign) and len(st.targets) == 1 and extract.dotted(st.targets[0]) == "fields":
            if isinstance(st.value, ast.List) and all(isinstance(e, ast.Constant) and isinstance(e.value, str)
                                                      for e in st.value.elts):
                base = [e.value for e in st.value.elts]
            else:
                base = ["?" + _src(st.value)]
        elif isinstance(st, ast.If):
            t = st.test
            ok = (isinstance(t, ast.Compare) and extract.dotted(t.left) == "vlen" and len(t.ops) == 1
                  and isinstance(t.ops[0], ast.GtE) and not st.orelse and len(st.body) == 1)
            c = st.body[0] if st.body else None
            ok = ok and isinstance(c, ast.Expr) and isinstance(c.value, ast.Call) \
                and extract.dotted(c.value.func) == "fields.append" and len(c.value.args) == 1 \
                and isinstance(c.value.args[0], ast.Constant) and isinstance(c.value.args[0].value, str)
            try:
                thr = _num_nat(t.comparators[0]) if ok else 0
            except NotRecognised:
                ok, thr = False, 0
            if ok:
                opt.append((thr, c.value.args[0].value))
            else:
                opt.append((0, "?" + _src(st).replace("\n", " ")[:120]))
    if base is None:
        base = ["?no `fields = [...]`"]
    return base, opt


def _conv_and_slice(fn):
    """the assignments to `fields` in a parser: (slice nodes, list-comprehension sources)"""
    slices, convs = [], []
    for n in ast.walk(fn):
        if isinstance(n, ast.Assign) and extract.dotted(n.targets[0]) == "fields":
            if isinstance(n.value, ast.Subscript):
                slices.append(n.value)
            else:
                convs.append(_src(n.value))
    return slices, convs


def slice_of(fn):
    """(a, b) of `fields = values[a : len(scputimes._fields) + b]`"""
    slices, _ = _conv_and_slice(fn)
    if len(slices) != 1:
        raise NotRecognised("%s: %d slices assigned to `fields`" % (fn.name, len(slices)))
    v = slices[0]
    if not (extract.dotted(v.value) == "values" and isinstance(v.slice, ast.Slice)):
        raise NotRecognised("slice shape: %s" % _src(v))
    lo, hi = v.slice.lower, v.slice.upper
    if v.slice.step is not None or lo is None or hi is None:
        raise NotRecognised("slice shape: %s" % _src(v))
    if not (isinstance(hi, ast.BinOp) and isinstance(hi.op, ast.Add)
            and extract.unparse(hi.left) == "len(scputimes._fields)"):
        raise NotRecognised("slice upper bound: %s" % extract.unparse(hi))
    return _num_nat(lo), _num_nat(hi.right)


CONV = "[float(x) / CLOCK_TICKS for x in fields]"


def conv_exprs(tree):
    """TOTAL: what is assigned to `fields` besides the slice, per parser, in source order."""
    out = []
    for name in ("cpu_times", "per_cpu_times"):
        fn = _try(lambda: extract.find_def(tree, name), None)
        if fn is None:
            out.append("%s:?missing" % name)
            continue
        _, convs = _conv_and_slice(fn)
        out += ["%s:%s" % (name, c) for c in convs] or ["%s:?no conversion" % name]
        if "scputimes(*fields)" not in _src(fn):
            out.append("%s:?no scputimes(*fields)" % name)
    return out


CONV_WANT = ["cpu_times:" + CONV, "per_cpu_times:" + CONV]


def percpu_prefix(fn):
    found = []
    for n in ast.walk(fn):
        if isinstance(n, ast.If) and isinstance(n.test, ast.Call) and extract.dotted(n.test.func) == "line.startswith" \
                and len(n.test.args) == 1 and isinstance(n.test.args[0], ast.Constant) \
                and isinstance(n.test.args[0].value, bytes):
            found.append(n.test.args[0].value)
    if len(found) != 1:
        return ("?%d" % len(found)).encode()          # TOTAL: a prefix no kernel line has
    return found[0]


def module_assignments(tree, name):
    """TOTAL: source of every value bound to the global `name` anywhere in the module (module level, or inside a
    function that declares it `global`), in source order."""
    out = []
    for n in ast.walk(tree):
        tg = []
        if isinstance(n, ast.Assign):
            for t in n.targets:
                tg += t.elts if isinstance(t, (ast.Tuple, ast.List)) else [t]
        elif isinstance(n, (ast.AugAssign, ast.AnnAssign)):
            tg = [n.target]
        if any(isinstance(t, ast.Name) and t.id == name for t in tg):
            if n in tree.body:
                out.append(_src(n.value) if getattr(n, "value", None) is not None else "?" + _src(n))
            else:
                # only counts when it can reach the global: inside a function with `global name`
                for f in ast.walk(tree):
                    if isinstance(f, (ast.FunctionDef, ast.AsyncFunctionDef)) and n in list(ast.walk(f)) and \
                            any(isinstance(g, ast.Global) and name in g.names for g in ast.walk(f)):
                        out.append("?in %s: %s" % (f.name, _src(n)))
                        break
                else:
                    if not any(isinstance(f, (ast.FunctionDef, ast.AsyncFunctionDef, ast.ClassDef, ast.Lambda))
                               and n in list(ast.walk(f)) for f in tree.body):
                        out.append("?nested: " + _src(n))
    return out


# ------------------------------------------------------------------ __init__.py

def _getattr_default0(node, obj):
    """name if node is `getattr(obj, 'name', 0)`."""
    if isinstance(node, ast.Call) and extract.dotted(node.func) == "getattr" and len(node.args) == 3 \
            and extract.dotted(node.args[0]) == obj and isinstance(node.args[2], ast.Constant) \
            and node.args[2].value == 0 and not isinstance(node.args[2].value, bool) \
            and isinstance(node.args[1], ast.Constant) and isinstance(node.args[1].value, str):
        return node.args[1].value
    return None


def _sub_lists(fn, acc, obj):
    """TOTAL: every statement that updates `acc` after its first assignment → (required attrs, optional attrs);
    anything that is not `acc -= obj.name` / `acc -= getattr(obj, 'name', 0)` becomes the item "?<source>"."""
    req, opt = [], []
    first = True
    for n in ast.walk(fn):
        if isinstance(n, ast.AugAssign) and extract.dotted(n.target) == acc:
            g = _getattr_default0(n.value, obj)
            if not isinstance(n.op, ast.Sub):
                opt.append("?" + _src(n))
            elif g is not None:
                opt.append(g)
            elif isinstance(n.value, ast.Attribute) and extract.dotted(n.value.value) == obj:
                req.append(n.value.attr)
            else:
                opt.append("?" + _src(n))
        elif isinstance(n, ast.Assign) and any(extract.dotted(t) == acc for t in n.targets):
            if not first:
                opt.append("?" + _src(n))
            first = False
    return req, opt


def tot_sub(tree):
    fn = extract.find_def(tree, "_cpu_tot_time")
    req, opt = _sub_lists(fn, "tot", "times")
    opt += ["?required: " + r for r in req]
    for n in ast.walk(fn):
        if isinstance(n, ast.If) and extract.dotted(n.test) != "LINUX":
            opt.append("?if " + _src(n.test))
    return opt


def busy_sub(tree):
    fn = extract.find_def(tree, "_cpu_busy_time")
    return _sub_lists(fn, "busy", "times")


def clip_zero(tree):
    """TOTAL Bool: the one clipping statement of _cpu_times_deltas is `field_delta = max(0, field_delta)`."""
    fn = _try(lambda: extract.find_def(tree, "_cpu_times_deltas"), None)
    if fn is None:
        return False
    clips = [n for n in ast.walk(fn) if isinstance(n, ast.Assign) and extract.dotted(n.targets[0]) == "field_delta"
             and not _src(n.value).startswith("getattr(t2, field)")]
    return len(clips) == 1 and _src(clips[0].value) == "max(0, field_delta)"


def _round_call(fn, var):
    out = []
    for n in ast.walk(fn):
        if isinstance(n, ast.Call) and extract.dotted(n.func) == "round" and len(n.args) == 2 \
                and extract.dotted(n.args[0]) == var and not n.keywords:
            out.append(_num_nat(n.args[1]))
    if len(out) != 1:
        raise NotRecognised("round(%s, d) not found exactly once" % var)
    return out[0]


def _zero_div_returns_zero(fn):
    for n in ast.walk(fn):
        if isinstance(n, ast.ExceptHandler) and n.type is not None and extract.dotted(n.type) == "ZeroDivisionError":
            if len(n.body) >= 1 and isinstance(n.body[-1], ast.Return) and isinstance(n.body[-1].value, ast.Constant) \
                    and n.body[-1].value.value == 0.0:
                return True
    return False


def _pct_calc(tree):
    return _nested_def(extract.find_def(tree, "cpu_percent"), "calculate")


def pct_factor(tree):
    fn = _pct_calc(tree)
    found = [n.value for n in ast.walk(fn) if isinstance(n, ast.Assign) and extract.dotted(n.targets[0]) == "busy_perc"]
    if len(found) != 1:
        raise NotRecognised("busy_perc assigned %d times" % len(found))
    v = found[0]
    if isinstance(v, ast.BinOp) and isinstance(v.op, ast.Mult) and extract.unparse(v.left) == "busy_delta / all_delta":
        return _num_nat(v.right)
    raise NotRecognised("busy_perc = %s" % extract.unparse(v))


def pct_digits(tree):
    return _round_call(_pct_calc(tree), "busy_perc")


def _tp_calc(tree):
    return _nested_def(extract.find_def(tree, "cpu_times_percent"), "calculate")


def tp_scale(tree):
    """(numer, maxOne) — both read off the ONE statement `scale = …`."""
    fn = _tp_calc(tree)
    found = [n.value for n in ast.walk(fn) if isinstance(n, ast.Assign) and extract.dotted(n.targets[0]) == "scale"]
    if len(found) != 1:
        raise NotRecognised("scale assigned %d times" % len(found))
    v = found[0]
    if isinstance(v, ast.BinOp) and isinstance(v.op, ast.Div) and extract.unparse(v.right) == "max(1, all_delta)":
        return _num_nat(v.left), True
    if isinstance(v, ast.IfExp) and extract.unparse(v.test) == "all_delta > 0" \
            and isinstance(v.body, ast.BinOp) and isinstance(v.body.op, ast.Div) \
            and extract.dotted(v.body.right) == "all_delta" and isinstance(v.orelse, ast.Constant) \
            and v.orelse.value == 0.0:
        return _num_nat(v.body.left), False
    raise NotRecognised("scale = %s" % extract.unparse(v))


def tp_digits(tree):
    return _round_call(_tp_calc(tree), "field_perc")


def tp_clamp(tree):
    fn = _tp_calc(tree)
    found = [n.value for n in ast.walk(fn) if isinstance(n, ast.Assign) and extract.dotted(n.targets[0]) == "field_perc"
             and isinstance(n.value, ast.Call) and extract.dotted(n.value.func) in ("min", "max")]
    if len(found) != 1:
        raise NotRecognised("clamp statements: %d" % len(found))
    a = found[0].args
    if extract.dotted(found[0].func) == "min" and len(a) == 2 and isinstance(a[0], ast.Call) \
            and extract.dotted(a[0].func) == "max" and len(a[0].args) == 2 \
            and extract.dotted(a[0].args[1]) == "field_perc":
        return _num_nat(a[0].args[0]), _num_nat(a[1])
    raise NotRecognised("clamp is %s" % extract.unparse(found[0]))


def dict_use(tree):
    """TOTAL Bool. For each front end and branch: the dictionary read with .get(tid), written with [tid] = and re-read;
    the _2 dictionaries are copies."""
    seen = []
    for fname, (sysd, perd) in FRONT.items():
        fn = _try(lambda: extract.find_def(tree, fname), None)
        if fn is None:
            return False
        src = extract.unparse(fn)
        for d, call in ((sysd, "cpu_times()"), (perd, "cpu_times(percpu=True)")):
            for pat in ("%s.get(tid) or %s" % (d, call), "%s[tid] = %s" % (d, call)):
                if pat not in src:
                    return False
        if "return calculate(t1, %s[tid])" % sysd not in src or "zip(tot1, %s[tid])" % perd not in src:
            return False
        names = {extract.dotted(n.value) for n in ast.walk(fn)
                 if isinstance(n, ast.Subscript) and extract.dotted(n.slice) == "tid"}
        names |= {extract.dotted(n.func.value) for n in ast.walk(fn)
                  if isinstance(n, ast.Call) and isinstance(n.func, ast.Attribute) and n.func.attr == "get"}
        if names != {sysd, perd}:
            return False
        if "tid = threading.current_thread().ident" not in src:
            return False
        seen += [sysd, perd]
    msrc = extract.unparse(tree)
    for a, b in (("_last_cpu_times_2", "_last_cpu_times"), ("_last_per_cpu_times_2", "_last_per_cpu_times")):
        if "%s = %s.copy()" % (a, b) not in msrc:
            return False
    return len(set(seen)) == 4


LAST_NAMES = ("_last_cpu_times", "_last_per_cpu_times", "_last_cpu_times_2", "_last_per_cpu_times_2")


def _last_bindings(tree, name):
    """[(context, value node or None, statement)] of every binding of the global `name`: at module level, inside a
    module-level compound statement (`try:` / `except:` / `if` …, context says which), or inside a function."""
    out = []

    def targets(n):
        tg = []
        if isinstance(n, ast.Assign):
            for t in n.targets:
                tg += t.elts if isinstance(t, (ast.Tuple, ast.List)) else [t]
        elif isinstance(n, (ast.AugAssign, ast.AnnAssign)):
            tg = [n.target]
        elif isinstance(n, (ast.For, ast.AsyncFor)):
            tg = [n.target]
        elif isinstance(n, (ast.With, ast.AsyncWith)):
            tg = [i.optional_vars for i in n.items if i.optional_vars is not None]
        elif isinstance(n, (ast.Import, ast.ImportFrom)):
            return [a.asname or a.name.split(".")[0] for a in n.names]
        elif isinstance(n, (ast.FunctionDef, ast.AsyncFunctionDef, ast.ClassDef)):
            return [n.name]
        return [t.id for t in tg if isinstance(t, ast.Name)]

    def walk(stmts, ctx, infn):
        for st in stmts:
            if name in targets(st):
                plain = isinstance(st, ast.Assign) and len(st.targets) == 1 and isinstance(st.targets[0], ast.Name)
                out.append((ctx, st.value if plain else None, st))
            if isinstance(st, (ast.FunctionDef, ast.AsyncFunctionDef)):
                glob = any(isinstance(g, (ast.Global, ast.Nonlocal)) and name in g.names for g in ast.walk(st))
                walk(st.body, "?in %s%s: " % (st.name, "" if glob else " (local)"), True)
            elif isinstance(st, ast.ClassDef):
                walk(st.body, "?in class %s: " % st.name, True)
            elif isinstance(st, ast.Try):
                walk(st.body, ctx + "try: ", infn)
                for h in st.handlers:
                    walk(h.body, ctx + "except %s: " % (_src(h.type) if h.type is not None else ""), infn)
                walk(st.orelse, ctx + "else: ", infn)
                walk(st.finalbody, ctx + "finally: ", infn)
            elif isinstance(st, ast.If):
                walk(st.body, ctx + "if %s: " % _src(st.test), infn)
                walk(st.orelse, ctx + "if not (%s): " % _src(st.test), infn)
            elif isinstance(st, (ast.For, ast.AsyncFor, ast.While, ast.With, ast.AsyncWith)):
                walk(st.body, ctx + "loop/with: ", infn)
                walk(getattr(st, "orelse", []), ctx + "loop-else: ", infn)
    walk(tree.body, "", False)
    return out


def last_dict_defs(tree):
    """TOTAL: `name: [context] source` of every value bound to one of the four `_last_*` names anywhere in the
    module, by name, in source order. On the tree the proofs were made on: a dict display with the importing thread's
    sample in a `try:`, `{}` in its `except Exception:` branch, and `.copy()` of the first two for the `_2` names —
    builtin `dict`s all."""
    out = []
    for name in LAST_NAMES:
        bs = _last_bindings(tree, name)
        out += ["%s: %s%s" % (name, ctx, _src(v) if v is not None else "?" + _src(st).replace("\n", " ")[:120])
                for ctx, v, st in bs] or ["%s: ?never bound" % name]
    return out


def _plain_dict_defs(tree):
    """is every binding of the four names the binding of a builtin dict — a dict display (no `**` unpacking), or
    `.copy()` of another of the four — made at module level (possibly inside a module-level try/except)?"""
    for name in LAST_NAMES:
        bs = _last_bindings(tree, name)
        if not bs:
            return False
        for ctx, node, _st in bs:
            if "?" in ctx or node is None:
                return False
            if isinstance(node, ast.Dict):
                if any(k is None for k in node.keys):
                    return False
                continue
            if not (isinstance(node, ast.Call) and not node.args and not node.keywords
                    and isinstance(node.func, ast.Attribute) and node.func.attr == "copy"
                    and isinstance(node.func.value, ast.Name) and node.func.value.id in LAST_NAMES
                    and node.func.value.id != name):
                return False
    return True


def last_dict_other_uses(tree):
    """TOTAL: every occurrence of one of the four `_last_*` names that is NOT one of the accesses the model
    transcribes — the target of a binding (listed by `lastDictDefs`), `X.get(tid)`, `X[tid]` read, `X[tid] = …`,
    `X.copy()` as the value bound to another of the four at module level — as `where: source of the statement`.
    A deletion, `pop`/`popitem`/`clear`, `len(X)`, iteration, passing the object to a helper, aliasing it, a
    key that is not `tid` … all land here (empty on the tree the proofs were made on)."""
    parent = {}
    for n in ast.walk(tree):
        for ch in ast.iter_child_nodes(n):
            parent[ch] = n
    out = []
    for n in ast.walk(tree):
        if not (isinstance(n, ast.Name) and n.id in LAST_NAMES):
            continue
        p = parent.get(n)
        pp = parent.get(p)
        ppp = parent.get(pp)
        ok = False
        if isinstance(p, (ast.Assign, ast.AnnAssign)) and isinstance(n.ctx, ast.Store):
            ok = True                                               # a binding: lastDictDefs
        elif isinstance(p, ast.Attribute) and p.value is n and p.attr == "get" and isinstance(pp, ast.Call) \
                and pp.func is p and len(pp.args) == 1 and not pp.keywords and extract.dotted(pp.args[0]) == "tid":
            ok = True
        elif isinstance(p, ast.Subscript) and p.value is n and extract.dotted(p.slice) == "tid" \
                and isinstance(p.ctx, (ast.Load, ast.Store)):
            ok = isinstance(p.ctx, ast.Load) or (isinstance(pp, ast.Assign) and pp.targets == [p])
        elif isinstance(p, ast.Attribute) and p.value is n and p.attr == "copy" and isinstance(pp, ast.Call) \
                and pp.func is p and not pp.args and not pp.keywords and isinstance(ppp, ast.Assign) \
                and ppp in tree.body and len(ppp.targets) == 1 and isinstance(ppp.targets[0], ast.Name) \
                and ppp.targets[0].id in LAST_NAMES:
            ok = True
        if ok:
            continue
        st = n
        while st in parent and not isinstance(st, ast.stmt):
            st = parent[st]
        fn = st
        while fn in parent and not isinstance(fn, (ast.FunctionDef, ast.AsyncFunctionDef, ast.ClassDef)):
            fn = parent[fn]
        where = fn.name if isinstance(fn, (ast.FunctionDef, ast.AsyncFunctionDef, ast.ClassDef)) else "module"
        out.append("%s: %s" % (where, _src(st).replace("\n", " ")[:160]))
    return out


def last_store_bound(tree):
    """`none` (Option Nat) when the four objects are builtin dicts that are only read and written by key (see the two
    facts above): nothing is ever dropped. Any other container / access: NotRecognised (the fact is skipped, the
    baseline value kept, and the obligation `cfg_store_plain_dict` fails on the two list facts)."""
    uses = last_dict_other_uses(tree)
    if not _plain_dict_defs(tree) or uses:
        raise NotRecognised("the _last_* containers are not plain dicts accessed by key only: %s %s"
                            % (last_dict_defs(tree)[:4], uses[:3]))
    return None


def _branches(tree):
    """[(label, statements of that branch)] for the four (function, percpu) branches; None when `if not percpu:` is gone."""
    out = []
    for fname, (sysd, perd) in FRONT.items():
        fn = _try(lambda: extract.find_def(tree, fname), None)
        top = [n for n in fn.body if isinstance(n, ast.If) and extract.unparse(n.test) == "not percpu"] if fn else []
        if len(top) != 1:
            out += [(fname, sysd, "cpu_times()", None), (fname, perd, "cpu_times(percpu=True)", None)]
        else:
            out += [(fname, sysd, "cpu_times()", top[0].body), (fname, perd, "cpu_times(percpu=True)", top[0].orelse)]
    return out


def blocking_stores(tree):
    """TOTAL Bool: in each of the four branches the ONE statement `_last_X[tid] = cpu_times(…)` stands directly in the
    branch, after its one `if blocking: … else: …` statement."""
    for fname, d, call, block in _branches(tree):
        if block is None:
            return False
        pat = "%s[tid] = %s" % (d, call)
        direct = [n for n in block if isinstance(n, ast.Assign) and extract.unparse(n) == pat]
        anywhere = [n for b in block for n in ast.walk(b) if isinstance(n, ast.Assign) and extract.unparse(n) == pat]
        guards = [n for n in block if isinstance(n, ast.If) and extract.unparse(n.test) == "blocking"]
        if len(anywhere) != 1 or len(guards) != 1 or not direct:
            return False
        if block.index(direct[0]) < block.index(guards[0]):
            return False
    return True


def blocking_bodies(tree):
    """TOTAL: the statements of the `if blocking:` body of each of the four branches and of Process.cpu_percent, in
    source order — first sample, THEN time.sleep(interval) (audit item 1: the order and the argument of the sleep)."""
    out = []
    for fname, d, call, block in _branches(tree):
        guards = [n for n in (block or []) if isinstance(n, ast.If) and extract.unparse(n.test) == "blocking"]
        out.append([_src(s) for s in guards[0].body] if len(guards) == 1 else ["?%d `if blocking:`" % len(guards)])
    fn = _try(lambda: extract.find_def(tree, "cpu_percent", cls="Process"), None)
    guards = [n for n in (fn.body if fn else []) if isinstance(n, ast.If) and extract.unparse(n.test) == "blocking"]
    out.append([_src(s) for s in guards[0].body] if len(guards) == 1 else ["?%d `if blocking:`" % len(guards)])
    return out


def sleep_sites(tree):
    """TOTAL: every call whose callee mentions `sleep` in the three front ends (helpers nested in them included), as
    `function: source`, in source order."""
    out = []
    for label, getter in (("cpu_percent", lambda: extract.find_def(tree, "cpu_percent")),
                          ("cpu_times_percent", lambda: extract.find_def(tree, "cpu_times_percent")),
                          ("Process.cpu_percent", lambda: extract.find_def(tree, "cpu_percent", cls="Process"))):
        fn = _try(getter, None)
        if fn is None:
            out.append("%s: ?missing" % label)
            continue
        calls = [n for n in ast.walk(fn) if isinstance(n, ast.Call) and "sleep" in _src(n.func)]
        calls.sort(key=lambda n: (n.lineno, n.col_offset))
        out += ["%s: %s" % (label, _src(n)) for n in calls]
    return out


def interval_guard(fn):
    src = extract.unparse(fn)
    return ("blocking = interval is not None and interval > 0.0" in src
            and "if interval is not None and interval < 0:" in src and "raise ValueError(msg)" in src)


def _proc_fn(tree):
    return extract.find_def(tree, "cpu_percent", cls="Process")


def proc_scale_delta(tree):
    """How Process.cpu_percent measures the wall clock between two samples.
    False: `timer()` = `_timer() * num_cpus` is what is remembered, `delta_time = st2 - st1` (as found);
    True : the raw `_timer()` is remembered, `delta_time = (st2 - st1) * num_cpus` (repaired shape).
    Anything else: NotRecognised."""
    fn = _proc_fn(tree)
    src = extract.unparse(fn)
    nested = [n for n in fn.body if isinstance(n, ast.FunctionDef)]
    stamps = [extract.unparse(n.value) for n in ast.walk(fn)
              if isinstance(n, ast.Assign) and extract.dotted(n.targets[0]) in ("st1", "st2")]
    deltas = [extract.unparse(n.value) for n in ast.walk(fn)
              if isinstance(n, ast.Assign) and extract.dotted(n.targets[0]) == "delta_time"]
    if len(deltas) != 1:
        raise NotRecognised("delta_time assigned %d times" % len(deltas))
    old = (len(nested) == 1 and nested[0].name == "timer"
           and extract.unparse(nested[0]).strip().endswith("return _timer() * num_cpus")
           and sorted(stamps) == sorted(["timer()", "timer()", "self._last_sys_cpu_times", "timer()"])
           and deltas[0] == "st2 - st1" and src.count("_timer()") == 1)
    new = (not nested
           and sorted(stamps) == sorted(["_timer()", "_timer()", "self._last_sys_cpu_times", "_timer()"])
           and deltas[0] == "(st2 - st1) * num_cpus" and src.count("_timer()") == 3)
    if old == new:
        raise NotRecognised("Process.cpu_percent: time stamps %s, delta_time = %s" % (stamps, deltas[0]))
    return new


def proc_factor(tree):
    fn = _proc_fn(tree)
    found = [n.value for n in ast.walk(fn) if isinstance(n, ast.Assign)
             and extract.dotted(n.targets[0]) == "overall_cpus_percent"]
    if len(found) != 1:
        raise NotRecognised("overall_cpus_percent assigned %d times" % len(found))
    v = found[0]
    if isinstance(v, ast.BinOp) and isinstance(v.op, ast.Mult) and extract.unparse(v.left) == "delta_proc / delta_time":
        return _num_nat(v.right)
    raise NotRecognised("overall_cpus_percent = %s" % extract.unparse(v))


def proc_digits(tree):
    return _round_call(_proc_fn(tree), "single_cpu_percent")


def proc_handlers(tree):
    """TOTAL: the exception classes Process.cpu_percent catches itself, in source order (audit item 6: a
    `try: self._proc.cpu_times() except NoSuchProcess: return 0.0` would hide a vanished process)."""
    fn = _try(lambda: _proc_fn(tree), None)
    if fn is None:
        return ["?missing"]
    hs = [n for n in ast.walk(fn) if isinstance(n, ast.ExceptHandler)]
    hs.sort(key=lambda n: (n.lineno, n.col_offset))
    return [_src(n.type) if n.type is not None else "?bare except" for n in hs]


def proc_stores(tree):
    """TOTAL: every assignment to an attribute of `self` in Process.cpu_percent, in source order, prefixed with the
    tests of the `if` statements it is nested in (both stores happen twice: in the first-call branch and after the
    arithmetic — deleting either one is visible here)."""
    fn = _try(lambda: _proc_fn(tree), None)
    if fn is None:
        return ["?missing"]
    out = []

    def walk(stmts, ctx):
        for s in stmts:
            if isinstance(s, (ast.Assign, ast.AugAssign, ast.AnnAssign)):
                tg = s.targets if isinstance(s, ast.Assign) else [s.target]
                if any(extract.dotted(t).startswith("self.") for t in tg):
                    out.append(ctx + _src(s))
            elif isinstance(s, ast.If):
                walk(s.body, ctx + "if %s: " % _src(s.test))
                walk(s.orelse, ctx + "if not (%s): " % _src(s.test))
            elif isinstance(s, ast.Try):
                walk(s.body, ctx + "try: ")
                for h in s.handlers:
                    walk(h.body, ctx + "except: ")
                walk(s.orelse, ctx + "else: ")
                walk(s.finalbody, ctx + "finally: ")
            elif isinstance(s, (ast.For, ast.While, ast.With)):
                walk(s.body, ctx + "loop/with: ")
    walk(fn.body, "")
    return out


PROC_STORES_WANT = [
    "if not (blocking): if st1 is None or pt1 is None: self._last_sys_cpu_times = st2",
    "if not (blocking): if st1 is None or pt1 is None: self._last_proc_cpu_times = pt2",
    "self._last_sys_cpu_times = st2",
    "self._last_proc_cpu_times = pt2",
]


def shape_missing(tree, linux):
    """TOTAL: names of the fixed statement shapes (no degree of freedom in the model) that are NOT in the source."""
    miss = []

    def need(label, getter, pats=(), pred=None):
        fn = _try(getter, None)
        if fn is None:
            miss.append(label + ": function missing")
            return
        src = extract.unparse(fn)
        for p in pats:
            if p not in src:
                miss.append("%s: `%s`" % (label, p))
        if pred is not None:
            for name, ok in pred(fn):
                if not ok:
                    miss.append("%s: %s" % (label, name))

    need("set_scputimes_ntuple", lambda: extract.find_def(linux, "set_scputimes_ntuple"),
         ("vlen = len(values)", "f.readline().split()[1:]"))
    need("cpu_times", lambda: extract.find_def(linux, "cpu_times"),
         ("values = f.readline().split()", "return scputimes(*fields)"))
    need("per_cpu_times", lambda: extract.find_def(linux, "per_cpu_times"),
         ("f.readline()", "values = line.split()", "entry = scputimes(*fields)", "cpus.append(entry)", "for line in f"))
    need("_cpu_tot_time", lambda: extract.find_def(tree, "_cpu_tot_time"), ("tot = sum(times)", "return tot"))
    need("_cpu_busy_time", lambda: extract.find_def(tree, "_cpu_busy_time"),
         ("busy = _cpu_tot_time(times)", "return busy"))
    need("_cpu_times_deltas", lambda: extract.find_def(tree, "_cpu_times_deltas"),
         ("field_delta = getattr(t2, field) - getattr(t1, field)", "for field in _psplatform.scputimes._fields",
          "field_deltas.append(field_delta)", "return _psplatform.scputimes(*field_deltas)"))
    need("cpu_percent.calculate", lambda: _pct_calc(tree),
         ("times_delta = _cpu_times_deltas(t1, t2)", "all_delta = _cpu_tot_time(times_delta)",
          "busy_delta = _cpu_busy_time(times_delta)", "return round(busy_perc, "),
         lambda fn: [("except ZeroDivisionError: return 0.0", _zero_div_returns_zero(fn))])
    need("cpu_times_percent.calculate", lambda: _tp_calc(tree),
         ("times_delta = _cpu_times_deltas(t1, t2)", "all_delta = _cpu_tot_time(times_delta)",
          "for field_delta in times_delta", "field_perc = field_delta * scale", "nums.append(field_perc)",
          "return _psplatform.scputimes(*nums)"))
    for f in ("cpu_percent", "cpu_times_percent"):
        need(f, lambda f=f: extract.find_def(tree, f), (), lambda fn: [("interval guard", interval_guard(fn))])

    def proc_pred(fn):
        first_zero = False
        for n in ast.walk(fn):
            if isinstance(n, ast.If) and extract.unparse(n.test) == "st1 is None or pt1 is None":
                first_zero = isinstance(n.body[-1], ast.Return) and isinstance(n.body[-1].value, ast.Constant) \
                    and n.body[-1].value.value == 0.0
        try:
            proc_scale_delta(tree)
            stamps = True
        except NotRecognised:
            stamps = False
        return [("first call returns 0.0", first_zero), ("except ZeroDivisionError: return 0.0", _zero_div_returns_zero(fn)),
                ("interval guard", interval_guard(fn)), ("one of the two known time-stamp shapes", stamps)]
    need("Process.cpu_percent", lambda: _proc_fn(tree),
         ("num_cpus = cpu_count() or 1", "delta_proc = pt2.user - pt1.user + (pt2.system - pt1.system)",
          "if st1 is None or pt1 is None:", "single_cpu_percent = overall_cpus_percent * num_cpus",
          "return round(single_cpu_percent, "), proc_pred)
    return miss


def facts(snap, F):
    init = extract.parse_module(snap, "__init__.py")
    linux = extract.parse_module(snap, "_pslinux.py")
    LS = lambda xs: L(xs, S)

    F.try_add("baseFields", "List String", lambda: LS(scputimes_fields(linux)[0]),
              "`fields = [...]` of set_scputimes_ntuple")
    F.try_add("optFields", "List (Nat × String)",
              lambda: L(scputimes_fields(linux)[1], lambda p: extract.lean_pair(extract.lean_nat(p[0]), S(p[1]))),
              "`if vlen >= N: fields.append(name)` in source order (an `if` of another shape: (0, \"?source\"))")
    F.try_add("cpuTimesSlice", "Nat × Nat",
              lambda: extract.lean_pair(*map(str, slice_of(extract.find_def(linux, "cpu_times")))),
              "cpu_times: values[a : len(scputimes._fields) + b] as (a, b)")
    F.try_add("perCpuSlice", "Nat × Nat",
              lambda: extract.lean_pair(*map(str, slice_of(extract.find_def(linux, "per_cpu_times")))),
              "per_cpu_times: values[a : len(scputimes._fields) + b] as (a, b)")
    F.try_add("divTicks", "Bool", lambda: extract.lean_bool(conv_exprs(linux) == CONV_WANT),
              "both conversions are float(x) / CLOCK_TICKS (and nothing else is assigned to `fields` besides the slice)")
    F.try_add("perCpuPrefix", "List Nat",
              lambda: extract.lean_bytes(percpu_prefix(extract.find_def(linux, "per_cpu_times"))),
              "per_cpu_times keeps the lines that start with these bytes (after skipping the first line)")
    F.try_add("clipZero", "Bool", lambda: extract.lean_bool(clip_zero(init)),
              "_cpu_times_deltas: field_delta = max(0, field_delta)")
    F.try_add("totSub", "List String", lambda: LS(tot_sub(init)),
              "_cpu_tot_time: tot -= getattr(times, name, 0) (any other update of `tot`: \"?source\")")
    F.try_add("busySubReq", "List String", lambda: LS(busy_sub(init)[0]), "_cpu_busy_time: busy -= times.name")
    F.try_add("busySubOpt", "List String", lambda: LS(busy_sub(init)[1]),
              "_cpu_busy_time: busy -= getattr(times, name, 0) (any other update of `busy`: \"?source\")")
    F.try_add("pctFactor", "Nat", lambda: str(pct_factor(init)), "cpu_percent: (busy_delta / all_delta) * N")
    F.try_add("pctDigits", "Nat", lambda: str(pct_digits(init)), "cpu_percent: round(busy_perc, N)")
    F.try_add("tpNumer", "Nat", lambda: str(tp_scale(init)[0]), "cpu_times_percent: scale = N / …")
    F.try_add("tpMaxOne", "Bool", lambda: extract.lean_bool(tp_scale(init)[1]),
              "scale divides by max(1, all_delta) (true) or by all_delta when positive, else 0.0 (false)")
    F.try_add("tpDigits", "Nat", lambda: str(tp_digits(init)), "cpu_times_percent: round(field_perc, N)")
    F.try_add("tpClamp", "Nat × Nat", lambda: extract.lean_pair(*map(str, tp_clamp(init))),
              "cpu_times_percent: min(max(lo, field_perc), hi)")
    F.try_add("dictsDistinct", "Bool", lambda: extract.lean_bool(dict_use(init)),
              "each front-end branch reads/writes its own _last_* dictionary, the _2 ones being copies")
    F.try_add("procFactor", "Nat", lambda: str(proc_factor(init)), "Process.cpu_percent: (delta_proc / delta_time) * N")
    F.try_add("procDigits", "Nat", lambda: str(proc_digits(init)), "Process.cpu_percent: round(single_cpu_percent, N)")
    F.try_add("shapeOk", "Bool", lambda: extract.lean_bool(not shape_missing(init, linux)),
              "every fixed statement shape is present (= shapeMissing is empty): Process.cpu_percent (user+system, cpu_count() or 1, one of the two known time-stamp shapes, first call 0.0, ZeroDivisionError → 0.0), the three interval guards, tot = sum(times), busy = _cpu_tot_time(times), the parser's readline/split/scputimes(*fields)")
    F.try_add("procScaleDelta", "Bool", lambda: extract.lean_bool(proc_scale_delta(init)),
              "Process.cpu_percent remembers _timer() * num_cpus and subtracts (false) or remembers the raw _timer() and "
              "scales the difference by the current num_cpus (true)")
    F.try_add("blockingStores", "Bool", lambda: extract.lean_bool(blocking_stores(init)),
              "in all four branches `_last_X[tid] = cpu_times(…)` follows the `if blocking: … else: …` statement "
              "(the blocking form files its post-sleep sample as the thread's last sample too)")
    # ---- round 3
    F.try_add("shapeMissing", "List String", lambda: LS(shape_missing(init, linux)),
              "the fixed statement shapes that are NOT in the source (empty on the tree the proofs were made on)")
    F.try_add("blockingBodies", "List (List String)", lambda: L(blocking_bodies(init), LS),
              "statements of the `if blocking:` body of cpu_percent (system-wide, per-CPU), cpu_times_percent (system-wide, "
              "per-CPU) and Process.cpu_percent, in source order: first sample, THEN time.sleep(interval)")
    F.try_add("sleepSites", "List String", lambda: LS(sleep_sites(init)),
              "every call of a `…sleep…` callee in the three front ends, as `function: source`")
    F.try_add("clockTicksDef", "List String", lambda: LS(module_assignments(linux, "CLOCK_TICKS")),
              "every value bound to _pslinux.CLOCK_TICKS (the divisor of every counter)")
    F.try_add("timerDef", "List String", lambda: LS(module_assignments(init, "_timer")),
              "every value bound to psutil._timer (the wall clock of Process.cpu_percent)")
    F.try_add("procHandlers", "List String", lambda: LS(proc_handlers(init)),
              "exception classes Process.cpu_percent catches itself")
    F.try_add("procStores", "List String", lambda: LS(proc_stores(init)),
              "assignments to attributes of self in Process.cpu_percent with the `if` tests they are nested in")
    # ---- seeded round 5: what kind of container the per-thread samples are filed in
    F.try_add("lastDictDefs", "List String", lambda: LS(last_dict_defs(init)),
              "every value bound to _last_cpu_times / _last_per_cpu_times / _last_cpu_times_2 / _last_per_cpu_times_2, as "
              "`name: source` (dict displays and .copy() of them: builtin dicts)")
    F.try_add("lastDictOtherUses", "List String", lambda: LS(last_dict_other_uses(init)),
              "every use of the four _last_* objects other than binding, X.get(tid), X[tid], X[tid] = …, X.copy() bound to a "
              "_2 name (a deletion, pop, clear, len, iteration, aliasing, another key … would be listed here)")
    F.try_add("lastStoreBound", "Option Nat", lambda: extract.lean_opt(last_store_bound(init), str),
              "how many entries the _last_* containers hold at most: none = builtin dicts accessed by key only, nothing "
              "is ever dropped")
