"""C08 — virtual_memory() and swap_memory() follow the documented formulas.

Model: lean/PsutilModel/Model/C08.lean (+C08Gen), Spec: Spec/C08.lean, theorems: Props/C08.lean.
Correspondence: a kernel state (list of meminfo entries, zoneinfo lines, vmstat lines, sysinfo
triple) is rendered by the Lean renderers into a fake procfs; the real `psutil.virtual_memory()`
/ `psutil.swap_memory()` run over it (warnings recorded, `cext.linux_sysinfo` and `PAGESIZE`
scripted) and are compared with the Lean model run on the same text and with the specification
evaluated on the abstract maps. Every subset of the 14 optional meminfo keys is enumerated.
"""
import concurrent.futures
import errno
import itertools
import os
import re
import warnings
from fractions import Fraction

from harness.common import fakeproc
from harness.common.build import InfraError
from harness.props.c08_facts import facts  # noqa: F401  (translator entry point)

PROP = "C08"
DRIVER_MODULES = ["PsutilModel.Model.C08Gen", "PsutilModel.Spec.C08", "PsutilModel.Proofs.C08Text"]
NEEDS_EXT = True
TRUSTED = [
    "C08 renderers (Spec/C08.lean): /proc/meminfo `Name:<blanks>value[ kB]`, /proc/vmstat `name value`, /proc/zoneinfo as `low` watermark lines among arbitrary other lines that do not start with `low` once stripped — transcriptions of the kernel's formats, checked against the live files of the sandbox kernel by the harness on every run",
    "C08 floats: `pagecache / 2`, `float(used) / total * 100` and `round(x, 1)` are modelled by exact integer/rational arithmetic; exact for magnitudes below 2^53 bytes (8 PiB). percent: C08_percent_stable_within_eps (ε explicit) — the double result may differ from the exactly rounded value by one unit in the last place only within ε of a rounding boundary; the harness takes ε = |exact|·2^-51 (two correctly rounded IEEE operations), COUNTS those cases and demands bit-equality with the nearest double of the exactly rounded decimal everywhere else; `round(x, 1)` is taken to be correctly rounded (CPython's dtoa-based float.__round__)",
    "C08 int(): CPython's base-10 literal grammar on arbitrary bytes (blanks, sign, single underscores between digits; Model/C08Int.lean, compared on ~30 literal shapes in three positions each run). Not modelled: the interpreter-wide 4300-digit limit of int() (sys.set_int_max_str_digits; a figure of more than 4300 digits raises ValueError under the default setting — no kernel prints more than 20). A NEGATIVE literal is where the model stops explicitly (outcome `declined`: the implementation carries on with a negative figure, the kernel prints %lu)",
    "C08 native record: `cext.linux_sysinfo` is scripted with a 7-tuple laid out as arch/linux/mem.c does (facts sysinfoCMembers/sysinfoCFormat, pinned by cfg_good); the real C function is compared once per run with sysinfo(2) read through ctypes (member order, totalswap × mem_unit = SwapTotal of the live /proc/meminfo)",
]
ASSUMPTIONS = [
    "/proc/meminfo exists and is readable. The refinement theorems assume MemTotal and MemFree present (the kernel prints them unconditionally); what happens otherwise is now claimed too: KeyError for the first missing of the two (C08_never_fails_iff), and on ARBITRARY bytes the outcome is exactly vmFail (C08_vm_fails_iff / C08_vm_ok_iff / C08_parse_total_outcomes: IndexError for a line with < 2 fields, ValueError for a non-literal second field, never another class)",
    "for the refinement of sin/sout: no /proc/vmstat counter other than pswpin / pswpout has a name starting with `pswpin` / `pswpout`, names are distinct (true of every kernel up to 6.18, checked on the live file each run); the hypothesis is shown NECESSARY (C08_swap_prefix_clash_reads_other_counter, witness replayed on the real code) and the loop is characterised without it (C08_vmstat_break_on_out/_in/_no_pair/_error: the last matching line before the line completing the pair wins). pswpin and pswpout listed both or neither — when only one is listed both metrics are reported 0 with the warning",
    "magnitudes below 2^53 bytes so that the implementation's float arithmetic is exact",
]
MANIFEST = {
    "level_text": "Machine-checked Lean 4 proofs over a model of virtual_memory()/calculate_avail_vmem()/swap_memory()/usage_percent() that starts from the TEXT of /proc/meminfo, /proc/zoneinfo and /proc/vmstat: round-trip theorems (parser ∘ kernel renderer = abstract map, for every entry list, padding, unit suffix, zone layout) and refinement of the documented formulas (C08_vm_refines, C08_swap_refines) for EVERY subset of the optional keys and all magnitudes, with corollaries fields_exact, used, avail_rule (absent or zero MemAvailable, watermark fallback exact incl. int() truncation), avail_in_range, percent (rounded to one decimal of the exact quotient), percent_range, never_fails, missing_warns_exactly, swap formulas/sysinfo fallback/zero totals. Extension: the text layer is total over ARBITRARY bytes with CPython's int() literal grammar — C08_meminfo_line_outcomes, C08_parse_meminfo_outcomes, C08_vm_fails_iff / C08_vm_ok_iff (exact converse of never_fails: which exception, exactly when, incl. the zoneinfo `low` lines only when the estimate reads them), C08_parse_total_outcomes / C08_swap_total_outcomes (never another exception class; swap_memory never KeyError), C08_never_fails_iff; the vmstat loop without the no-clash hypothesis (C08_vmstat_break_on_out/_in, _no_pair, _error; C08_swap_prefix_clash_reads_other_counter proves the hypothesis necessary), C08_swap_vmstat_unreadable (OSError branch for any parseable meminfo), the native sysinfo record (C08_sysinfo_native, C08_swap_sysinfo_bytes: counts × mem_unit, facts from arch/linux/mem.c), floats (C08_percent_stable_within_eps / C08_swap_percent_float_stable, ε explicit) and the module cache (C08_vm_sets_total_phymem, C08_memory_percent_uses_primed_total). Tied to the code by 30 translator facts (keys per variable, factors, guards, prefixes, record layouts, the C tuple layout and its unpacking, `_TOTAL_PHYMEM = ret.total`) feeding the proof obligation cfg_good, and by a differential run of the real front-end functions over a fake procfs rendered by the Lean renderers, exhaustive over all 16384 subsets of the optional keys; malformed and arbitrary text is compared against the theorem-backed characterisation (vmFail evaluated by the driver); percent compared bit-exactly away from rounding boundaries; memory_percent() exercised after virtual_memory() on a changed meminfo.",
    "level_note": "Trusted: Lean kernel + {propext, Classical.choice, Quot.sound}; the translator; the correspondence harness; kernel-format renderers; float arithmetic modelled exactly (valid below 2^53 bytes). Hypotheses (refinement theorems only): MemTotal/MemFree present; vmstat names distinct and prefix-clash free (proved necessary). Not modelled: int()'s 4300-digit limit; negative literals (explicit `declined` outcome).",
    "technique": "Lean 4 round-trip + refinement proofs (case analysis over key presence, linear arithmetic over Int/Rat) + translator-fed proof obligation + differential correspondence exhaustive over key subsets",
    "design_ref": "DESIGN.md §5 C08",
}

REQUIRED = ["MemTotal", "MemFree"]
OPTIONAL = ["Buffers", "Cached", "SReclaimable", "Shmem", "MemShared", "Active", "Inactive",
            "Inact_dirty", "Inact_clean", "Inact_laundry", "Slab", "MemAvailable",
            "Active(file)", "Inactive(file)"]
NOISE = [("SwapCached", True), ("Active(anon)", True), ("Inactive(anon)", True), ("Unevictable", True),
         ("Mlocked", True), ("Dirty", True), ("Writeback", True), ("AnonPages", True), ("Mapped", True),
         ("KReclaimable", True), ("SUnreclaim", True), ("KernelStack", True), ("PageTables", True),
         ("CommitLimit", True), ("Committed_AS", True), ("VmallocTotal", True), ("HugePages_Total", False),
         ("HugePages_Free", False), ("Hugepagesize", True), ("DirectMap4k", True), ("MemAvailableX", True),
         ("xMemTotal", True), ("Cached2", True), ("SwapTotal", True), ("SwapFree", True)]
PAGESIZES = [4096, 16384, 65536]
UNREADABLE = ["ENOENT", "EISDIR", "EACCES", "EIO"]
FINDING_SWAP_PAGESIZE = "C08-swap-pagesize"
WARN_RE = re.compile(r"^(.*) memory stats couldn't be determined and (was|were) set to 0$")
SWAP_WARN_RE = re.compile(r"^'sin' and 'sout' swap memory stats couldn't be determined and were set to 0")


def hx(s):
    return (s if isinstance(s, bytes) else s.encode()).hex()


# ------------------------------------------------------------------------------ implementation side


class Impl:
    def __init__(self, ctx):
        self.ps = ctx.psutil
        self.plat = self.ps._psplatform
        self.fp = fakeproc.FakeProc(self.ps, prefix="psv-c08-")
        self.saved_pagesize = self.plat.PAGESIZE
        self.saved_sysinfo = self.plat.cext.linux_sysinfo
        self.saved_open_binary = self.plat.open_binary

    def close(self):
        self.plat.PAGESIZE = self.saved_pagesize
        self.plat.cext.linux_sysinfo = self.saved_sysinfo
        self.plat.open_binary = self.saved_open_binary
        self.fp.close()

    def _put(self, rel, data, unreadable=None):
        """`data is None`: the file cannot be read — in the way `unreadable` says: ENOENT (absent,
        the default), EISDIR (a directory sits there: open() itself raises IsADirectoryError),
        EACCES / EIO (open_binary of `_pslinux` answers PermissionError / OSError(EIO) for exactly
        this path: hardened kernels, LSMs and lxcfs do that for /proc/zoneinfo and /proc/vmstat)"""
        self.plat.open_binary = self.saved_open_binary
        if data is not None:
            self.fp.remove(rel)
            self.fp.write(rel, data)
            return
        self.fp.remove(rel)
        how = unreadable or "ENOENT"
        if how == "EISDIR":
            self.fp.mkdir(rel)
        elif how in ("EACCES", "EIO"):
            self.fp.write(rel, b"low 1\npswpin 1\npswpout 1\n")     # readable content nobody may see
            target, real, code = self.fp.path(rel), self.saved_open_binary, getattr(errno, how)

            def open_binary(fname):
                if fname == target:
                    raise OSError(code, os.strerror(code), fname)
                return real(fname)
            self.plat.open_binary = open_binary

    def vm(self, meminfo, zoneinfo, pagesize, unreadable=None):
        self._put("meminfo", meminfo)
        self._put("zoneinfo", zoneinfo, unreadable)
        self.plat.PAGESIZE = pagesize
        self.ps._TOTAL_PHYMEM = None
        with warnings.catch_warnings(record=True) as ws:
            warnings.simplefilter("always")
            try:
                r = self.ps.virtual_memory()
            except BaseException as e:  # noqa: BLE001 — the class is the observable
                if isinstance(e, (KeyboardInterrupt, SystemExit)):
                    raise
                return {"kind": "exc", "exc": type(e).__name__}
            finally:
                self.plat.open_binary = self.saved_open_binary
        out = {"kind": "ok", "fields": dict(r._asdict()), "missing": [], "odd": []}
        for w in ws:
            m = WARN_RE.match(str(w.message))
            if m and w.category is RuntimeWarning:
                names = m.group(1).split(", ")
                if (m.group(2) == "was") != (len(names) == 1):
                    out["odd"].append("was/were: " + str(w.message))
                out["missing"].extend(names)
            else:
                out["odd"].append("%s: %s" % (w.category.__name__, w.message))
        if len(ws) > 1:
            out["odd"].append("%d warnings" % len(ws))
        if self.ps._TOTAL_PHYMEM != r.total:
            out["odd"].append("_TOTAL_PHYMEM=%r" % (self.ps._TOTAL_PHYMEM,))
        return out

    def swap(self, meminfo, sysinfo, vmstat, pagesize=4096, unreadable=None):
        self._put("meminfo", meminfo)
        self._put("vmstat", vmstat, unreadable)
        self.plat.PAGESIZE = pagesize
        calls = []

        def fake_sysinfo():
            # stands in for psutil_linux_sysinfo(): the members of struct sysinfo in the order
            # arch/linux/mem.c passes them to Py_BuildValue (fact sysinfoCMembers, pinned by cfg_good)
            calls.append(1)
            return tuple(sysinfo)
        self.plat.cext.linux_sysinfo = fake_sysinfo
        with warnings.catch_warnings(record=True) as ws:
            warnings.simplefilter("always")
            try:
                r = self.ps.swap_memory()
            except BaseException as e:  # noqa: BLE001
                if isinstance(e, (KeyboardInterrupt, SystemExit)):
                    raise
                return {"kind": "exc", "exc": type(e).__name__}
            finally:
                self.plat.cext.linux_sysinfo = self.saved_sysinfo
                self.plat.open_binary = self.saved_open_binary
        out = {"kind": "ok", "fields": dict(r._asdict()), "warned": False, "sysinfo": bool(calls), "odd": []}
        for w in ws:
            if SWAP_WARN_RE.match(str(w.message)) and w.category is RuntimeWarning:
                out["warned"] = True
            else:
                out["odd"].append("%s: %s" % (w.category.__name__, w.message))
        if len(ws) > 1 or len(calls) > 1:
            out["odd"].append("%d warnings, %d sysinfo calls" % (len(ws), len(calls)))
        return out


    PID = 4242

    def phymem(self, meminfo1, meminfo2, st0, rss_pages):
        """virtual_memory() on world 1, then /proc/meminfo becomes world 2 and
        Process.memory_percent() is asked: which total did it divide by?"""
        self._put("meminfo", meminfo1)
        self._put("zoneinfo", None)
        self.plat.PAGESIZE = 4096
        self.fp.write("stat", "cpu  1 2 3 4 5 6 7 8 9 10\ncpu0 1 2 3 4 5 6 7 8 9 10\nbtime 1700000000\n")
        rest = "1 {0} {0} 0 -1 4194304 0 0 0 0 0 0 0 0 20 0 1 0 100 0 0 18446744073709551615 " \
               "0 0 0 0 0 0 0 0 0 0 0 0 17 0 0 0 0 0 0 0 0 0 0 0 0 0 0".format(self.PID)
        self.fp.write("%d/stat" % self.PID, "%d (psv c08) S %s\n" % (self.PID, rest))
        self.fp.write("%d/statm" % self.PID, "%d %d 3 4 0 5 0\n" % (rss_pages + 7, rss_pages))
        self.ps._TOTAL_PHYMEM = st0
        out = {"kind": "ok", "odd": []}
        with warnings.catch_warnings(record=True):
            warnings.simplefilter("always")
            try:
                r = self.ps.virtual_memory()
                out["run1"] = {"kind": "ok", "total": r.total}
            except BaseException as e:  # noqa: BLE001
                if isinstance(e, (KeyboardInterrupt, SystemExit)):
                    raise
                out["run1"] = {"kind": "exc", "exc": type(e).__name__}
            out["primed"] = self.ps._TOTAL_PHYMEM
            self._put("meminfo", meminfo2)
            try:
                p = self.ps.Process(self.PID)
                out["percent"] = p.memory_percent()
            except BaseException as e:  # noqa: BLE001
                if isinstance(e, (KeyboardInterrupt, SystemExit)):
                    raise
                out["percent_exc"] = type(e).__name__
            out["after"] = self.ps._TOTAL_PHYMEM
        self.ps._TOTAL_PHYMEM = None
        return out


# ------------------------------------------------------------------------------ comparison


def _frac(pair):
    return Fraction(pair[0], pair[1])


def float_eps(exact):
    """bound on |x - exact| for x = fl(fl(float(used) / total) * 100): two correctly rounded
    operations on exact operands (magnitudes < 2^53), each of relative error <= 2^-53. When the
    quotient and the product are representable doubles both operations are exact: ε = 0, and then
    even an exact tie (81.25) is compared strictly (round-half-even on the exact value)."""
    r = exact / 100
    if Fraction(r.numerator / r.denominator) == r and Fraction(exact.numerator / exact.denominator) == exact:
        return Fraction(0)
    return abs(exact) * Fraction(1, 2 ** 51)


def _near_boundary(exact):
    """is the exact percent within the float error bound of a rounding boundary (an odd multiple of
    1/20)? — the only place where C08_percent_stable_within_eps allows the double computation to round
    the other way (by one unit in the last place)"""
    y = exact * 20
    k = y.numerator // y.denominator          # floor
    cands = (k, k + 2) if k % 2 else (k - 1, k + 1)     # the odd integers around y
    d = min(abs(y - c) for c in cands) / 20
    return d <= float_eps(exact)


def round1(exact):
    """exact rational rounded half-even to one decimal, as a Fraction"""
    y = exact * 10
    fl = y.numerator // y.denominator
    r = y - fl
    if r < Fraction(1, 2):
        k = fl
    elif r > Fraction(1, 2):
        k = fl + 1
    else:
        k = fl if fl % 2 == 0 else fl + 1
    return Fraction(k, 10)


def _percent_note(p, want, exact, res, tag, what):
    """strict: away from a rounding boundary the double must be THE double nearest to the exactly
    rounded decimal; on a boundary (counted) it may be one unit in the last place away"""
    if p == want.numerator / want.denominator:
        return None
    if exact is not None and float_eps(exact) > 0 and _near_boundary(exact) \
            and abs(Fraction(p) - want) <= Fraction(1, 10) + Fraction(1, 10 ** 9):
        res.count(tag + ":percent_on_rounding_boundary_differs")
        return None
    return "percent %r is not %s (%s; exact value %s)" % (p, float(want), what, None if exact is None else float(exact))


def cmp_record(impl, ref, exact, is_spec, res, tag):
    """Compare the implementation's record with a reference (`spec`: exact percent; `model`:
    rounded percent). Returns a note string when they differ, else None."""
    fi, fr = impl["fields"], ref["fields"]
    if sorted(fi) != sorted(fr):
        return "field names differ: %s vs %s" % (sorted(fi), sorted(fr))
    for k in fr:
        if k == "percent":
            p = fi[k]
            if not isinstance(p, float):
                return "percent is %r, not a float" % (p,)
            if abs(p * 10 - round(p * 10)) > 1e-6:
                return "percent %r is not rounded to one decimal" % p
            if exact is not None and _near_boundary(exact):
                res.count(tag + (":percent_boundary_cases" if float_eps(exact) > 0 else ":percent_exact_ties_strict")
                          + ("" if is_spec else "_model"))
            if is_spec:
                note = _percent_note(p, round1(_frac(fr[k])), exact, res, tag, "(…)/total*100 rounded to one decimal")
            else:
                note = _percent_note(p, _frac(fr[k]), exact, res, tag, "the model's value")
            if note:
                return note
        else:
            if not isinstance(fi[k], int) or isinstance(fi[k], bool):
                return "%s is %r, not an int" % (k, fi[k])
            if fi[k] != fr[k]:
                return "%s = %r, expected %r" % (k, fi[k], fr[k])
    return None


def _raw_outcome(case, impl, out, res, inp):
    """outcome class against the model AND (raw ops) against the characterisation the theorems are
    about (`fail` = vmFail / meminfoFail evaluated by the driver: C08_vm_fails_iff, C08_vm_ok_iff,
    C08_swap_fails_on_meminfo). Returns "model" on a disagreement, "" when the case is settled
    (exception / declined), None when the records remain to be compared."""
    model, spec = out["model"], out.get("spec")
    if model["kind"] == "declined":
        # int() returned a negative number: the implementation carries on, the model stops (explicit)
        res.count("raw:declined_negative_literal")
        return ""
    if "fail" in out:
        f = out["fail"]
        res.count("raw:theorem_backed_outcome")
        if case["op"] == "vmraw":
            want = "ok" if f is None else f["kind"]
            got = model["kind"]
            if (want, (f or {}).get("exc")) != (got, model.get("exc")):
                res.disagree("model", inp, impl, model, spec, note="model outcome differs from vmFail (C08_vm_fails_iff): %r" % (f,))
                return "model"
        elif f is not None and (f["kind"], f.get("exc")) != (model["kind"], model.get("exc")):
            res.disagree("model", inp, impl, model, spec, note="model outcome differs from meminfoFail: %r" % (f,))
            return "model"
    if impl["kind"] != model["kind"]:
        res.disagree("model", inp, impl, model, spec, note="outcome kind differs from the model")
        return "model"
    if impl["kind"] == "exc":
        if impl["exc"] != model["exc"]:
            res.disagree("model", inp, impl, model, spec, note="exception class differs from the model")
            return "model"
        res.count("raw:exc:" + impl["exc"])
        return ""
    return None


def compare_phymem(case, impl, out, res, source):
    inp = dict(case, source=source)
    model = {k: out[k] for k in ("run1", "primed", "used_total", "after")}
    spec_total = out.get("spec_total1")
    kind = None
    if out["run1"]["kind"] == "ok":
        if impl["run1"]["kind"] != "ok":
            res.disagree("spec", inp, impl, model, spec_total, note="virtual_memory() raised")
            return "spec"
        if spec_total is not None and impl["primed"] != spec_total:
            res.disagree("spec", inp, impl, model, spec_total,
                         note="_TOTAL_PHYMEM is %r after virtual_memory(), expected MemTotal in bytes = %r (C08_vm_sets_total_phymem)"
                         % (impl["primed"], spec_total))
            return "spec"
        res.count("phymem:primed")
    elif impl["run1"]["kind"] == "ok":
        res.disagree("model", inp, impl, model, spec_total, note="model raises, implementation does not")
        return "model"
    else:
        res.count("phymem:failed_call_leaves_cache")
    if impl["primed"] != out["primed"]:
        res.disagree("model", inp, impl, model, spec_total, note="_TOTAL_PHYMEM %r, model %r" % (impl["primed"], out["primed"]))
        return "model"
    used = out["used_total"]
    rss = case["rss_pages"] * 4096
    if used is None:
        ok = "percent_exc" in impl
        res.count("phymem:fresh_call_raises")
    elif used <= 0:
        ok = impl.get("percent_exc") == "ValueError"
        res.count("phymem:total_not_positive")
    else:
        ok = "percent" in impl and impl["percent"] == (rss / float(used)) * 100
        res.count("phymem:cached_total_used" if out["primed"] and used == out["primed"] else "phymem:recomputed")
    if not ok:
        res.disagree("model", inp, impl, model, spec_total,
                     note="memory_percent() did not divide by the total the model says (%r)" % (used,))
        return "model"
    if impl["after"] != out["after"]:
        res.disagree("model", inp, impl, model, spec_total, note="_TOTAL_PHYMEM afterwards %r, model %r" % (impl["after"], out["after"]))
        return "model"
    return kind


def compare_vm(case, impl, out, res, source):
    """Record disagreements for one virtual_memory case; return 'spec' / 'model' / None."""
    model, spec = out["model"], out.get("spec")
    inp = dict(case, source=source)
    if impl["kind"] == "ok" and impl.get("odd"):
        res.disagree("spec", inp, impl, model, spec, note="unexpected warning(s)/state: %s" % impl["odd"])
        return "spec"
    exact = None
    if spec and spec.get("kind") == "ok":
        exact = _frac(spec["fields"]["percent"])
        if impl["kind"] != "ok":
            res.disagree("spec", inp, impl, model, spec, note="the call must succeed when MemTotal and MemFree are present")
            return "spec"
        note = cmp_record(impl, spec, exact, True, res, "vm")
        if note is None and sorted(impl["missing"]) != sorted(spec["missing"]):
            note = "warned about %s, expected %s" % (sorted(impl["missing"]), sorted(spec["missing"]))
        if note:
            res.disagree("spec", inp, impl, model, spec, note=note)
            return "spec"
    bad = _raw_outcome(case, impl, out, res, inp)
    if bad is not None:
        return bad or None
    if exact is None and model["fields"].get("total"):
        t, a = model["fields"]["total"], model["fields"].get("available")
        if isinstance(a, int):
            exact = Fraction(t - a, t) * 100
    note = cmp_record(impl, model, exact, False, res, "vm")
    if note is None and impl["missing"] != model["missing"]:
        note = "missing_fields %s, model %s" % (impl["missing"], model["missing"])
    if note:
        res.disagree("model", inp, impl, model, spec, note=note)
        return "model"
    return None


def compare_swap(case, impl, out, res, source):
    model, spec = out["model"], out.get("spec")
    inp = dict(case, source=source)
    if case.get("expect_sin") is not None:
        res.count("witness:prefix_clash_replayed")
        if impl["kind"] != "ok" or impl["fields"]["sin"] != case["expect_sin"] or model["fields"]["sin"] != case["expect_sin"]:
            res.disagree("model", inp, impl, model, spec, note="the witness of C08_swap_prefix_clash_reads_other_counter "
                         "no longer replays (sin expected %d)" % case["expect_sin"])
            return "model"
    if impl["kind"] == "ok" and impl.get("odd"):
        res.disagree("spec", inp, impl, model, spec, note="unexpected warning(s): %s" % impl["odd"])
        return "spec"
    exact = None
    tagged = False
    if spec and spec.get("kind") == "ok":
        exact = _frac(spec["fields"]["percent"])
        if impl["kind"] != "ok":
            res.disagree("spec", inp, impl, model, spec, note="swap_memory() must succeed")
            return "spec"
        note = cmp_record(impl, spec, exact, True, res, "swap")
        if note is not None and out.get("codepage") not in (None, case["pagesize"]) and model.get("kind") == "ok":
            # Region of finding C08-swap-pagesize: the code (per fact swapPages) multiplies the page
            # counters by `codepage` = 4096 while the kernel's pages are `pagesize` bytes. The input is
            # inside the region iff the ONLY difference with the promise is sin/sout and the
            # implementation reports exactly pages × 4096 (what the model of the code as found says).
            patched = {"fields": dict(spec["fields"], sin=model["fields"]["sin"], sout=model["fields"]["sout"])}
            cp, ps = out["codepage"], case["pagesize"]
            if (cmp_record(impl, patched, exact, True, res, "swap") is None
                    and spec["fields"]["sin"] * cp == model["fields"]["sin"] * ps
                    and spec["fields"]["sout"] * cp == model["fields"]["sout"] * ps):
                res.known_seen[FINDING_SWAP_PAGESIZE] = res.known_seen.get(FINDING_SWAP_PAGESIZE, 0) + 1
                res.count("swap:finding_region_pagesize_ne_4096")
                res.disagree("spec", inp, impl, model, spec, finding=FINDING_SWAP_PAGESIZE,
                             note="sin/sout = pages × %d on a kernel with %d-byte pages (%s)" % (cp, ps, note))
                note = None
                tagged = True
        if note is None and impl["warned"] != spec["warned"]:
            note = "warned=%s, expected %s" % (impl["warned"], spec["warned"])
        if note is None and impl["sysinfo"] != spec["sysinfo"]:
            note = "sysinfo() consulted=%s, expected %s" % (impl["sysinfo"], spec["sysinfo"])
        if note:
            res.disagree("spec", inp, impl, model, spec, note=note)
            return "spec"
    bad = _raw_outcome(case, impl, out, res, inp)
    if bad is not None:
        return bad or None
    if exact is None and model["fields"].get("total"):
        exact = Fraction(model["fields"]["used"], model["fields"]["total"]) * 100
    note = cmp_record(impl, model, exact, False, res, "swap")
    if note is None and (impl["warned"], impl["sysinfo"]) != (model["warned"], model["sysinfo"]):
        note = "warned/sysinfo %s, model %s" % ((impl["warned"], impl["sysinfo"]), (model["warned"], model["sysinfo"]))
    if note:
        res.disagree("model", inp, impl, model, spec, note=note)
        return "model"
    return "known" if tagged else None


# ------------------------------------------------------------------------------ running cases


def drive(ctx, lines, workers=8, chunk=1500):
    """Send the lines to several model drivers in parallel; keep the order."""
    chunks = [lines[i:i + chunk] for i in range(0, len(lines), chunk)]
    if len(chunks) <= 1:
        return ctx.driver().batch(lines) if lines else []
    with concurrent.futures.ThreadPoolExecutor(max_workers=workers) as ex:
        outs = list(ex.map(lambda c: ctx.driver().batch(c), chunks))
    return [o for part in outs for o in part]


def _spaces(n):
    return b" " * n


def py_render(case):
    """The same three renderers as Spec/C08.lean, in Python, so that the implementation can run
    while the model drivers are still busy; byte equality with the Lean rendering is required
    afterwards (the Lean renderers stay the reference)."""
    op = case["op"]
    if op == "phymem":
        def mi_of(es):
            return b"".join(bytes.fromhex(n) + b":" + _spaces(p + 1) + str(v).encode() + (b" kB" if u else b"") + b"\n"
                            for n, v, p, u in es)
        return mi_of(case["entries1"]), mi_of(case["entries2"])
    if op in ("vmraw", "swapraw"):
        second = case.get("zoneinfo") if op == "vmraw" else case.get("vmstat")
        return bytes.fromhex(case["meminfo"]), None if second is None else bytes.fromhex(second)
    mi = b"".join(bytes.fromhex(n) + b":" + _spaces(p + 1) + str(v).encode() + (b" kB" if u else b"") + b"\n"
                  for n, v, p, u in case["entries"])
    if op == "vm":
        zs = case["zones"]
        if zs is None:
            return mi, None
        out = []
        for l in zs:
            if l[0] == "low":
                out.append(_spaces(l[1]) + b"low" + _spaces(l[2] + 1) + str(l[3]).encode() + b"\n")
            else:
                out.append(_spaces(l[1]) + bytes.fromhex(l[2]) + b"\n")
        return mi, b"".join(out)
    vs = case["vmstat"]
    if vs is None:
        return mi, None
    return mi, b"".join(bytes.fromhex(n) + b" " + str(v).encode() + b"\n" for n, v in vs)


def run_cases(ctx, impl, cases):
    """cases: driver lines (op vm / vmraw / swap / swapraw). Returns [(case, impl_out, driver_out)].
    The model drivers run in background threads while the implementation is exercised here."""
    for case in cases:
        if case["op"] in ("swap", "swapraw"):
            case.setdefault("pagesize", 4096)
    with concurrent.futures.ThreadPoolExecutor(max_workers=1) as bg:
        fut = bg.submit(drive, ctx, cases)
        ims, files = [], []
        for case in cases:
            a, b = py_render(case)
            files.append((a, b))
            if case["op"] in ("vm", "vmraw"):
                ims.append(impl.vm(a, b, case["pagesize"], case.get("unreadable")))
            elif case["op"] == "phymem":
                ims.append(impl.phymem(a, b, case["st0"], case["rss_pages"]))
            else:
                ims.append(impl.swap(a, case["sysinfo"], b, case["pagesize"], case.get("unreadable")))
        outs = fut.result()
    rows = []
    for case, im, (a, b), out in zip(cases, ims, files, outs):
        if "bad" in out:
            raise InfraError("driver rejected %r: %s" % (case, out))
        if case["op"] == "phymem":
            if bytes.fromhex(out["meminfo1"]) != a or bytes.fromhex(out["meminfo2"]) != b:
                raise InfraError("Python and Lean renderers disagree on %r" % (case,))
        if case["op"] in ("vm", "swap"):
            second = out.get("zoneinfo") if case["op"] == "vm" else out.get("vmstat")
            if bytes.fromhex(out["meminfo"]) != a or (None if second is None else bytes.fromhex(second)) != b:
                raise InfraError("Python and Lean renderers disagree on %r" % (case,))
        rows.append((case, im, out))
    return rows


def compare(case, im, out, res, source):
    if case["op"] == "phymem":
        return compare_phymem(case, im, out, res, source)
    if case["op"] in ("vm", "vmraw"):
        return compare_vm(case, im, out, res, source)
    return compare_swap(case, im, out, res, source)


# ------------------------------------------------------------------------------ generators


def sysc(total, free, unit, rng=None):
    """the seven members of struct sysinfo (kernel order); the four RAM figures are distinct decoys"""
    if rng is None:
        return [1111, 2222, 3333, 4444, total, free, unit]
    return [rng.randrange(1, 2 ** 34), rng.randrange(1, 2 ** 34), rng.randrange(1, 2 ** 30), rng.randrange(1, 2 ** 30),
            total, free, unit]


def entry(name, val, rng=None, unit=True):
    pad = 0 if rng is None else rng.choice([0, 0, 1, 3, 7, 11])
    return [hx(name), int(val), pad, bool(unit)]


def zone_block(rng, node, name, low, adversarial=False):
    z = [["other", 0, hx("Node %d, zone %8s" % (node, name))],
         ["other", 2, hx("per-node stats")],
         ["other", 6, hx("nr_inactive_anon %d" % rng.randrange(10 ** 6))],
         ["other", 2, hx("pages free     %d" % rng.randrange(10 ** 6))],
         ["other", 8, hx("boost    0")],
         ["other", 8, hx("min      %d" % (low * 4 // 5))],
         ["low", 8, rng.choice([0, 3, 5]), low],
         ["other", 8, hx("high     %d" % (low * 6 // 5))],
         ["other", 8, hx("spanned  %d" % rng.randrange(10 ** 7))],
         ["other", 8, hx("protection: (0, 1850, 64324, 0, 0)")],
         ["other", 6, hx("nr_free_pages %d" % rng.randrange(10 ** 6))],
         ["other", 2, hx("pagesets")],
         ["other", 4, hx("cpu: 0")],
         ["other", 14, hx("count: %d" % rng.randrange(400))]]
    if adversarial:
        extra = [b"slow 5", b"allow 3 low 9", b"Low 9", b"lo 5", b"l", b"", b"  ", b"lo w 4", b"xlow 7",
                 b"\x80low 3", b"start_pfn:           1", b"node_unreclaimable:  0"]
        for _ in range(rng.randrange(1, 5)):
            z.insert(rng.randrange(len(z) + 1), ["other", rng.choice([0, 2, 8]), hx(rng.choice(extra))])
    return z


def gen_zones(rng, style, free_kb, pagesize):
    """style: none / empty / nolow / normal / big (watermark above free) / adversarial"""
    if style == "none":
        return None
    if style == "empty":
        return []
    names = ["DMA", "DMA32", "Normal", "Movable", "Device"]
    nz = rng.randrange(1, 5)
    free_pages = max(1, free_kb * 1024 // pagesize)
    zs = []
    for i in range(nz):
        if style == "big":
            low = rng.randrange(free_pages // nz + 1, 3 * free_pages + 10)
        elif style == "zero":
            low = 0
        else:
            low = rng.randrange(0, max(2, free_pages // (20 * nz)))
        blk = zone_block(rng, i // 3, names[i % 5], low, adversarial=(style == "adversarial"))
        if style == "nolow":
            blk = [l for l in blk if l[0] != "low"]
        zs.extend(blk)
    return zs


def magnitudes(rng, profile):
    """kB values for every key under a magnitude profile."""
    v = {}
    if profile == "zero":
        for k in REQUIRED + OPTIONAL:
            v[k] = 0
        return v
    if profile == "small":
        for k in REQUIRED + OPTIONAL:
            v[k] = rng.randrange(0, 12)
        return v
    if profile == "huge":
        total = rng.randrange(2 ** 36, 2 ** 40)
    elif profile == "tiny":
        total = rng.randrange(1, 5000)
    else:
        total = rng.choice([rng.randrange(2 ** 18, 2 ** 26), rng.randrange(1, 2 ** 32)])
    free = rng.randrange(0, total + 1)
    rest = total - free
    v["MemTotal"], v["MemFree"] = total, free
    v["Buffers"] = rng.randrange(0, rest // 10 + 1)
    v["Cached"] = rng.randrange(0, rest // 2 + 1)
    v["SReclaimable"] = rng.randrange(0, rest // 10 + 1)
    v["Slab"] = v["SReclaimable"] + rng.randrange(0, rest // 10 + 1)
    v["Shmem"] = rng.randrange(0, rest // 10 + 1)
    v["MemShared"] = rng.randrange(0, rest // 10 + 1)
    v["Active"] = rng.randrange(0, rest // 2 + 1)
    v["Inactive"] = rng.randrange(0, rest // 2 + 1)
    for k in ("Inact_dirty", "Inact_clean", "Inact_laundry"):
        v[k] = rng.randrange(0, rest // 6 + 1)
    v["Active(file)"] = rng.randrange(0, v["Active"] + 1)
    v["Inactive(file)"] = rng.randrange(0, v["Inactive"] + 1)
    v["MemAvailable"] = rng.randrange(1, total + 1)
    if profile == "distorted":
        # what a container runtime shows: host-wide figures against a cgroup-limited total
        which = rng.choice(["cached", "avail", "free", "all", "buffers"])
        if which in ("cached", "all"):
            v["Cached"] = total + rng.randrange(0, 4 * total + 1)
        if which in ("buffers", "all"):
            v["Buffers"] = total + rng.randrange(0, total + 1)
        if which in ("avail", "all"):
            v["MemAvailable"] = total + rng.randrange(1, 4 * total + 1)
        if which in ("free", "all"):
            v["MemFree"] = total + rng.randrange(1, 2 * total + 1)
    elif profile == "zerototal":
        v["MemTotal"] = 0
        if rng.random() < 0.5:
            v["MemFree"] = 0
            v["MemAvailable"] = rng.choice([0, 0, 5])
    elif profile == "boundary":
        # percent on or next to a rounding boundary: (total - avail) / total = (2k+1)/2000 ± tiny
        total = rng.choice([2000, 20000, 2 ** 20 * 125, 4000, 16000, 2000 * rng.randrange(1, 10 ** 6)])
        k = rng.randrange(0, 1000)
        used = total * (2 * k + 1) // 2000 + rng.choice([-1, 0, 0, 0, 1])
        used = min(max(used, 0), total)
        v["MemTotal"], v["MemAvailable"] = total, max(total - used, 1)
        v["MemFree"] = min(v["MemFree"], total)
    return v


def build_vm(rng, present, vals, zones, pagesize, noise=0, shuffle=False, memavail_zero=False):
    names = [k for k in REQUIRED + OPTIONAL if k in present]
    es = []
    # the ` kB` suffix is optional for EVERY key (C08_meminfo_roundtrip says × 1024 with or without
    # it): one case in five renders some of the keys psutil reads without the unit
    unitless = rng.random() < 0.2
    for k in names:
        val = vals[k]
        if k == "MemAvailable" and memavail_zero:
            val = 0
        es.append(entry(k, val, rng, unit=not (unitless and rng.random() < 0.5)))
    for nm, unit in (rng.sample(NOISE, noise) if noise else []):
        es.insert(rng.randrange(len(es) + 1), entry(nm, rng.randrange(0, 2 ** 24), rng, unit))
    if shuffle:
        rng.shuffle(es)
    case = {"op": "vm", "entries": es, "zones": zones, "pagesize": pagesize}
    if zones is None:
        # HOW /proc/zoneinfo is unreadable (the model only knows that it is): absent, a directory,
        # permission denied, I/O error — `except OSError` must take them all
        case["unreadable"] = rng.choice(UNREADABLE)
    return case


VM_FAMILIES = ["modern", "old_kernel", "random_subset", "memavail_zero", "fallback_keys_missing",
               "no_zoneinfo", "wm_above_free", "distorted", "zero_total", "all_zero", "small", "huge",
               "boundary", "only_required", "kernel24", "adversarial_zoneinfo", "min_picks"]


def gen_vm(rng, fam):
    pagesize = rng.choice(PAGESIZES)
    profile = "typical"
    present = set(REQUIRED + OPTIONAL) - {"MemShared", "Inact_dirty", "Inact_clean", "Inact_laundry"}
    zstyle = rng.choice(["normal", "normal", "normal", "adversarial"])
    mz = False
    if fam == "modern":
        pass
    elif fam == "old_kernel":            # < 3.14: no MemAvailable → the estimate
        present.discard("MemAvailable")
        zstyle = rng.choice(["normal", "normal", "zero", "nolow", "empty"])
    elif fam == "random_subset":
        present = set(REQUIRED) | {k for k in OPTIONAL if rng.random() < 0.5}
        profile = rng.choice(["typical", "small", "distorted", "tiny"])
        zstyle = rng.choice(["normal", "none", "big", "empty"])
        mz = rng.random() < 0.2
    elif fam == "memavail_zero":
        mz = True
        if rng.random() < 0.3:
            present -= set(rng.sample(["Active(file)", "Inactive(file)", "SReclaimable", "Cached"], 1))
    elif fam == "fallback_keys_missing":
        present.discard("MemAvailable")
        present -= set(rng.sample(["Active(file)", "Inactive(file)", "SReclaimable"], rng.randrange(1, 4)))
        if rng.random() < 0.3:
            present.discard("Cached")
    elif fam == "no_zoneinfo":
        zstyle = "none"
        if rng.random() < 0.7:
            present.discard("MemAvailable")
        else:
            mz = True
    elif fam == "wm_above_free":
        present.discard("MemAvailable")
        zstyle = "big"
        profile = rng.choice(["typical", "tiny", "small"])
    elif fam == "distorted":
        profile = "distorted"
        if rng.random() < 0.4:
            present.discard("MemAvailable")
    elif fam == "zero_total":
        profile = "zerototal"
        if rng.random() < 0.5:
            present.discard("MemAvailable")
    elif fam == "all_zero":
        profile = "zero"
        present = set(REQUIRED) | {k for k in OPTIONAL if rng.random() < 0.7}
    elif fam == "small":
        profile = "small"
        present = set(REQUIRED) | {k for k in OPTIONAL if rng.random() < 0.8}
        zstyle = rng.choice(["normal", "zero", "big"])
    elif fam == "huge":
        profile = "huge"
        if rng.random() < 0.5:
            present.discard("MemAvailable")
    elif fam == "boundary":
        profile = "boundary"
    elif fam == "only_required":
        present = set(REQUIRED)
        zstyle = rng.choice(["normal", "none"])
    elif fam == "kernel24":
        present = set(REQUIRED) | {"Buffers", "Cached", "MemShared", "Active", "Inact_dirty", "Inact_clean",
                                   "Inact_laundry"}
        for k in ("Inact_dirty", "Inact_clean", "Inact_laundry", "MemShared"):
            if rng.random() < 0.15:
                present.discard(k)
    elif fam == "adversarial_zoneinfo":
        present.discard("MemAvailable")
        zstyle = "adversarial"
    elif fam == "min_picks":
        # both arms of min(x / 2, watermark_low), odd kB values so halves matter if they could
        present.discard("MemAvailable")
        profile = "tiny"
        zstyle = rng.choice(["normal", "big", "zero"])
    vals = magnitudes(rng, profile)
    zones = gen_zones(rng, zstyle, vals["MemFree"], pagesize)
    return build_vm(rng, present, vals, zones, pagesize, noise=rng.choice([0, 0, 3, 10]),
                    shuffle=rng.random() < 0.3, memavail_zero=mz)


def vm_tags(case, out):
    """which clauses/branches a case exercises (from the input and the model's answer)"""
    tags = set()
    names = {bytes.fromhex(e[0]).decode("latin1"): e[1] for e in case["entries"]}
    missing_opt = [k for k in OPTIONAL if k not in names]
    if missing_opt:
        tags.add("optional_missing")
    ma = names.get("MemAvailable")
    if ma is None:
        tags.add("avail:memavailable_absent")
    elif ma == 0:
        tags.add("avail:memavailable_zero")
    else:
        tags.add("avail:kernel_estimate")
    if ma in (None, 0):
        if not all(k in names for k in ("Active(file)", "Inactive(file)", "SReclaimable")):
            tags.add("fallback:input_missing→free+cached")
        elif case["zones"] is None:
            tags.add("fallback:no_zoneinfo→free+cached")
        else:
            tags.add("fallback:watermark_formula")
            wm = sum(l[3] for l in case["zones"] if l[0] == "low") * case["pagesize"]
            pc = (names["Active(file)"] + names["Inactive(file)"]) * 1024
            sr = names["SReclaimable"] * 1024
            tags.add("fallback:min_pagecache=" + ("half" if pc / 2 <= wm else "wm"))
            tags.add("fallback:min_slab=" + ("half" if sr / 2 <= wm else "wm"))
    m = out["model"]
    if m["kind"] == "ok":
        f = m["fields"]
        if "available" in m["missing"]:
            tags.add("clamp:avail<0→0")
        elif ma not in (None, 0) and ma * 1024 > f["total"]:
            tags.add("clamp:avail>total→free")
        elif f.get("available") == f.get("free") and ma is None and f.get("available") is not None \
                and (names.get("MemFree", 0) + names.get("Cached", 0)) * 1024 > f["total"]:
            tags.add("clamp:avail>total→free")
        t, fr, c, b = f["total"], f["free"], f["cached"], f["buffers"]
        if t - fr - c - b < 0:
            tags.add("used:negative→total-free")
        if t == 0:
            tags.add("percent:zero_total")
        if fr > t:
            tags.add("free>total")
        if "Shmem" not in names and "MemShared" in names:
            tags.add("shared:MemShared")
        if "Inactive" not in names and all(k in names for k in ("Inact_dirty", "Inact_clean", "Inact_laundry")):
            tags.add("inactive:sum_of_three")
        for n in m["missing"]:
            tags.add("warn:" + n)
        if "Slab" not in names:
            tags.add("slab_missing_silent")
    else:
        tags.add("exc:" + m["exc"])
    return tags


EXH_VALUES = {  # distinct values so that a swapped key shows
    "typical": {"MemTotal": 16000000, "MemFree": 3000000, "Buffers": 101000, "Cached": 2002000,
                "SReclaimable": 303000, "Shmem": 40400, "MemShared": 50500, "Active": 6060000,
                "Inactive": 3070000, "Inact_dirty": 80800, "Inact_clean": 90900, "Inact_laundry": 10100,
                "Slab": 611000, "MemAvailable": 7120000, "Active(file)": 1213000, "Inactive(file)": 1314000},
    "distorted": {"MemTotal": 1000000, "MemFree": 300000, "Buffers": 700100, "Cached": 2002000,
                  "SReclaimable": 303000, "Shmem": 40400, "MemShared": 50500, "Active": 6060000,
                  "Inactive": 3070000, "Inact_dirty": 80800, "Inact_clean": 90900, "Inact_laundry": 10100,
                  "Slab": 611000, "MemAvailable": 7120000, "Active(file)": 1213000, "Inactive(file)": 1314000},
    "starved": {"MemTotal": 500000, "MemFree": 700, "Buffers": 11, "Cached": 220, "SReclaimable": 33,
                "Shmem": 4, "MemShared": 5, "Active": 66, "Inactive": 77, "Inact_dirty": 8, "Inact_clean": 9,
                "Inact_laundry": 10, "Slab": 61, "MemAvailable": 0, "Active(file)": 13, "Inactive(file)": 15},
    "zero": {k: 0 for k in REQUIRED + OPTIONAL},
}


AVAIL_KEYS = ["MemAvailable", "Active(file)", "Inactive(file)", "SReclaimable", "Cached"]


def exhaustive_vm(profiles, reduced=()):
    """every subset of the 14 optional keys, for each profile: (values, zones, pagesize)"""
    for prof in profiles:
        vals = EXH_VALUES[prof]
        if prof == "starved":
            zones = [["other", 0, hx("Node 0, zone   Normal")], ["low", 8, 5, 300], ["other", 8, hx("high 400")]]
        elif prof == "distorted":
            zones = None
        else:
            zones = [["other", 0, hx("Node 0, zone      DMA")], ["low", 8, 5, 81],
                     ["other", 0, hx("Node 0, zone   Normal")], ["low", 8, 5, 13225]]
        for mask in range(1 << len(OPTIONAL)):
            present = REQUIRED + [k for i, k in enumerate(OPTIONAL) if mask >> i & 1]
            if prof in reduced:
                # only the keys `available` depends on vary freely; the others all-or-none
                rest = [k for k in OPTIONAL if k not in AVAIL_KEYS]
                n_rest = sum(1 for k in rest if k in present)
                if n_rest not in (0, len(rest)):
                    continue
            c = {"op": "vm", "entries": [entry(k, vals[k], unit=(mask + i) % 5 != 0) for i, k in enumerate(present)],
                 "zones": zones, "pagesize": PAGESIZES[mask % len(PAGESIZES)]}
            if zones is None:
                c["unreadable"] = UNREADABLE[mask % len(UNREADABLE)]
            yield c


def raw_vm_cases(rng, n):
    """text outside the renderer's range: model-only comparison of the error branches"""
    base = b"MemTotal:       16000000 kB\nMemFree:         3000000 kB\nCached:  5 kB\n"
    fixed = [
        (base + b"Weird\n", None), (base + b"\n", None), (b"\n" + base, None), (base + b"Odd: x kB\n", None),
        (base + b"MemFree: 7 kB\n", None), (base[:-1], None), (base.replace(b" ", b"\t"), None),
        (base.replace(b"\n", b"\r\n"), None), (b"", None), (b"MemTotal: 5 kB\n", None),
        (b"MemFree: 5 kB\n", None), (base + b"Buffers:\n", None), (base + b"Buffers: 12abc kB\n", None),
        (base + b"  Indented:   9 kB\n", None), (base + b"A B C D E\n", None), (base + b"A 1 2 3\n", None),
        (base + b"Active(file): 10 kB\nInactive(file): 10 kB\nSReclaimable: 10 kB\n", b"low\n"),
        (base + b"Active(file): 10 kB\nInactive(file): 10 kB\nSReclaimable: 10 kB\n", b"   low   x\n"),
        (base + b"Active(file): 10 kB\nInactive(file): 10 kB\nSReclaimable: 10 kB\n", b"lowfoo 12\n  low 3"),
        (base + b"Active(file): 10 kB\nInactive(file): 10 kB\nSReclaimable: 10 kB\n", b"\tlow\t7\t8\r\n\n low 1 \n"),
        (base + b"Active(file): 10 kB\nInactive(file): 10 kB\nSReclaimable: 10 kB\n", b"low 5\nlow\n"),
        (base + b"Active(file): 10 kB\nInactive(file): 10 kB\nSReclaimable: 10 kB\n", b""),
    ]
    cases = [{"op": "vmraw", "meminfo": m.hex(), "zoneinfo": None if z is None else z.hex(), "pagesize": 4096}
             for m, z in fixed]
    toks = [b"MemTotal:", b"MemFree:", b"Cached:", b"MemAvailable:", b"12", b"0", b"kB", b"x", b"7 kB", b"", b"9",
            b"Buffers:", b"1e3", b"0x10", b"12.5"]
    # int() literal grammar (C08Int.lean) on the value field, and on the zoneinfo watermark
    est = base + b"Active(file): 10 kB\nInactive(file): 10 kB\nSReclaimable: 10 kB\n"
    lits = [b"+5", b"-0", b"1_0", b"0_1", b"00012", b"_1", b"1_", b"1__0", b"+", b"-", b"+-5", b"+_5", b"-5", b"\x1c5",
            b"5\x1f", b"\xd9\xa1", b"5\x00", b"0x10", b"1e3", b"12.5", b"\x855", b"--5", b"1_2_3", b"+0_0", b"-00",
            b"9" * 40, b"4" * 300]
    for t in lits:
        cases.append({"op": "vmraw", "meminfo": (base + b"Buffers: " + t + b" kB\n").hex(), "zoneinfo": None, "pagesize": 4096})
        cases.append({"op": "vmraw", "meminfo": (b"MemTotal: " + t + b"\nMemFree: 1\n").hex(), "zoneinfo": None, "pagesize": 4096})
        cases.append({"op": "vmraw", "meminfo": est.hex(), "zoneinfo": (b"  low  " + t + b"\n").hex(), "pagesize": 4096})
    # zoneinfo consulted or not: a broken `low` line matters only when the estimate reads the file
    zbad = b"Node 0\n  low\n  low x\n"
    for mi in (est, est + b"MemAvailable: 0 kB\n", est + b"MemAvailable: 7 kB\n", base, base + b"MemAvailable: 0 kB\n",
               est.replace(b"SReclaimable", b"SReclaimablX"), est.replace(b"MemFree", b"MemFre"),
               est.replace(b"MemTotal", b"MemTota"), b"MemFree: 3 kB\nshort\n", b"short\nMemFree: x\n",
               b"MemTotal: x\nshort\n", est + b"MemAvailable: 0 kB\nMemAvailable: 9 kB\n",
               est + b"MemAvailable: 9 kB\nMemAvailable: 0 kB\n"):
        for z in (zbad, None, b"low 1\nlowest 2\n", b"low x\nlow\n", b"low\nlow x\n", b"\x0blow\x0c7\x0b\n"):
            cases.append({"op": "vmraw", "meminfo": mi.hex(), "zoneinfo": None if z is None else z.hex(), "pagesize": 4096})
    # arbitrary bytes
    alphabet = [b" ", b"\t", b"\n", b"\r", b"\x0b", b"\x0c", b":", b"0", b"1", b"9", b"_", b"+", b"-", b"k", b"B", b"\x00",
                b"\xff", b"\x1c", b"\x85", b"M", b"low", b"MemTotal:", b"MemFree:", b"MemAvailable:", b" 5 "]
    for _ in range(n):
        mi = b"".join(rng.choice(alphabet) for _ in range(rng.randrange(0, 14)))
        if rng.random() < 0.6:
            mi = b"MemTotal: 100 kB\nMemFree: 40 kB\n" + mi
        if rng.random() < 0.3:
            mi += b"\nActive(file): 1\nInactive(file): 2\nSReclaimable: 3\n"
        z = None if rng.random() < 0.4 else b"".join(rng.choice(alphabet) for _ in range(rng.randrange(0, 10)))
        cases.append({"op": "vmraw", "meminfo": mi.hex(), "zoneinfo": None if z is None else z.hex(), "pagesize": 4096})
    for _ in range(n):
        lines = [b"MemTotal: 100 kB", b"MemFree: 40 kB"]
        for _ in range(rng.randrange(1, 5)):
            lines.insert(rng.randrange(len(lines) + 1),
                         rng.choice([b" ", b"\t", b"  "]).join(rng.choice(toks) for _ in range(rng.randrange(0, 4))))
        cases.append({"op": "vmraw", "meminfo": (b"\n".join(lines) + rng.choice([b"", b"\n"])).hex(),
                      "zoneinfo": None, "pagesize": 4096})
    return cases


# ---- swap

VMSTAT_NOISE = ["nr_free_pages", "pgpgin", "pgpgout", "zpswpin", "thp_swpout", "swap_ra", "pgfault",
                "nr_zone_inactive_anon", "zswpin", "zswpout", "swpin_zero", "pswp", "pswpi", "pswpou"]


def gen_vmstat(rng, style):
    """style: none / both / only_in / only_out / neither / reversed / first / empty"""
    if style == "none":
        return None
    if style == "empty":
        return []
    noise = [[hx(n), rng.randrange(0, 2 ** 40)] for n in rng.sample(VMSTAT_NOISE, rng.randrange(0, len(VMSTAT_NOISE)))]
    i = [hx("pswpin"), rng.choice([0, 1, rng.randrange(2 ** 20), rng.randrange(2 ** 52)])]
    o = [hx("pswpout"), rng.choice([0, 1, rng.randrange(2 ** 20), rng.randrange(2 ** 52)])]
    pos = rng.randrange(len(noise) + 1)
    if style == "both":
        return noise[:pos] + [i, o] + noise[pos:]
    if style == "split":
        pos2 = rng.randrange(pos, len(noise) + 1)
        return noise[:pos] + [i] + noise[pos:pos2] + [o] + noise[pos2:]
    if style == "reversed":
        return noise[:pos] + [o, i] + noise[pos:]
    if style == "only_in":
        return noise[:pos] + [i] + noise[pos:]
    if style == "only_out":
        return noise[:pos] + [o] + noise[pos:]
    return noise


VMSTAT_STYLES = ["none", "both", "split", "reversed", "only_in", "only_out", "neither", "empty"]
SWAP_PROFILES = ["typical", "zero_total", "free_gt_total", "full", "huge", "boundary"]


def gen_swap(rng, keys, vstyle, profile):
    if profile == "zero_total":
        total, free = 0, rng.choice([0, 0, 7])
    elif profile == "free_gt_total":
        total = rng.randrange(0, 2 ** 24)
        free = total + rng.randrange(1, 2 ** 24)
    elif profile == "full":
        total = rng.randrange(1, 2 ** 24)
        free = rng.choice([0, total])
    elif profile == "huge":
        total = rng.randrange(2 ** 36, 2 ** 40)
        free = rng.randrange(0, total + 1)
    elif profile == "boundary":
        total = 2000 * rng.randrange(1, 10 ** 5)
        free = total - (total * (2 * rng.randrange(0, 1000) + 1) // 2000 + rng.choice([-1, 0, 0, 1]))
        free = min(max(free, 0), total)
    else:
        total = rng.randrange(1, 2 ** 26)
        free = rng.randrange(0, total + 1)
    es = [entry("MemTotal", 16000000, rng), entry("MemFree", 3000000, rng)]
    if "SwapTotal" in keys:
        es.append(entry("SwapTotal", total, rng, unit=rng.random() < 0.85))
    if "SwapFree" in keys:
        es.insert(rng.randrange(len(es) + 1), entry("SwapFree", free, rng, unit=rng.random() < 0.85))
    for nm, unit in rng.sample(NOISE[:-2], rng.choice([0, 4])):
        es.insert(rng.randrange(len(es) + 1), entry(nm, rng.randrange(2 ** 24), rng, unit))
    unit = rng.choice([1, 1, 4096, 1024])
    st = rng.choice([0, rng.randrange(2 ** 30)])
    sysinfo = sysc(st, rng.choice([0, rng.randrange(st + 1), st + 5]), unit, rng)
    case = {"op": "swap", "entries": es, "sysinfo": sysinfo, "vmstat": gen_vmstat(rng, vstyle),
            "pagesize": rng.choice(PAGESIZES)}
    if case["vmstat"] is None:
        case["unreadable"] = rng.choice(UNREADABLE)
    return case


def swap_tags(case, out):
    tags = set()
    names = {bytes.fromhex(e[0]).decode("latin1") for e in case["entries"]}
    tags.add("swap:meminfo" if {"SwapTotal", "SwapFree"} <= names else "swap:sysinfo_fallback")
    v = case["vmstat"]
    if v is None:
        tags.add("vmstat:unreadable")
    else:
        ns = {bytes.fromhex(l[0]) for l in v}
        tags.add("vmstat:" + {(True, True): "both", (True, False): "only_pswpin", (False, True): "only_pswpout",
                              (False, False): "neither"}[(b"pswpin" in ns, b"pswpout" in ns)])
    m = out["model"]
    if m["kind"] == "ok":
        if m["fields"]["total"] == 0:
            tags.add("swap:zero_total")
        if m["fields"]["used"] < 0:
            tags.add("swap:free>total")
        if m["warned"]:
            tags.add("swap:warned")
    return tags


def raw_swap_cases(rng=None, n=0):
    mi = b"SwapTotal: 1000 kB\nSwapFree: 400 kB\n"
    vs = [b"pswpin\npswpout 3\n", b"pswpin  5\npswpout 3\n", b"pswpin 5 \npswpout 3\n", b"pswpin 5\tx\npswpout 3\n",
          b"pswpin x\n", b"pswpin 5\npswpout\n", b"pswpin_total 9\npswpin 5\npswpout 3\n", b"pswpin 1\npswpin 2\npswpout 3\n",
          b"pswpout 3\npswpout 4\npswpin 1\n", b"pswpin 5\npswpout 3", b"pswpin 5\r\npswpout 3\r\n", b"\n\npswpin 5\n\npswpout 3\n",
          b"pswpin 5\npswpout 3\ngarbage line here\n", b"pswpinpswpout 3\npswpout 2\n"]
    cases = [{"op": "swapraw", "meminfo": mi.hex(), "sysinfo": sysc(9, 3, 4096), "vmstat": v.hex()} for v in vs]
    for m in (b"SwapTotal: 1000 kB\n", b"SwapTotal:\n", b"SwapTotal: x kB\n", b"", b"SwapFree: 1 kB\nSwapTotal: 2 kB\nSwapFree: 0 kB\n"):
        cases.append({"op": "swapraw", "meminfo": m.hex(), "sysinfo": sysc(9, 3, 4096), "vmstat": b"pswpin 1\npswpout 2\n".hex()})
    # the prefix tests: clashing / repeated names before, between and after the pair; unreadable
    # fields before and after the break (C08_vmstat_break_on_out/_in, _no_pair, _error)
    more = [b"pswpin 5\npswpin_x 9\npswpout 3\n", b"pswpin 5\npswpout 3\npswpin_x 9\n", b"pswpout 3\npswpout_y 4\npswpin 1\n",
            b"pswpout_y 4\npswpout 3\npswpin 1\npswpin 2\n", b"pswpin 1\npswpout 3\npswpout\n", b"pswpin 1\npswpout 3\npswpin x\n",
            b"pswpin 1\npswpin\npswpout 3\n", b"pswpout x\npswpin 1\n", b"pswpin_x\n", b"pswpin 1\npswpin 2\npswpin 3\n",
            b"pswpout 1\npswpout 2\n", b"xpswpin 1\npswpout 2\n", b" pswpin 1\npswpout 2\n", b"pswpin +5\npswpout 1_0\n",
            b"pswpin -5\npswpout 1\n", b"pswpin 1\npswpout -0\n", b"pswpin\t1\npswpout 2\n", b"pswpin 1 2\npswpout  2\n",
            b"pswpin \x0b7\x0c\npswpout 2\n", b"", b"\n", b"pswpin 7", b"pswpout 7\npswpin 8"]
    for v in more:
        cases.append({"op": "swapraw", "meminfo": mi.hex(), "sysinfo": sysc(9, 3, 4096), "vmstat": v.hex()})
    for m in (b"short\n", b"SwapTotal: -5 kB\n", b"A 1\nB x\nC\n", b"A 1\nC\nB x\n", b"\xff\xfe 1\n", b"SwapTotal: 1_0\nSwapFree: +4\n"):
        for v in (None, b"pswpin 1\npswpout 2\n", b"pswpin x\n"):
            cases.append({"op": "swapraw", "meminfo": m.hex(), "sysinfo": sysc(9, 3, 4096), "vmstat": None if v is None else v.hex()})
    if rng is not None:
        names = [b"pswpin", b"pswpout", b"pswpin_x", b"pswpout2", b"pgpgin", b"pswp", b"zswpin", b"pswpinpswpout"]
        vals = [b" 1", b" 22", b" 333", b"", b" x", b"  4", b" 5 6", b" -1", b" +7", b" 8\r", b"\t9"]
        for _ in range(n):
            v = b"".join(rng.choice(names) + rng.choice(vals if rng.random() < 0.35 else vals[:3]) + b"\n"
                         for _ in range(rng.randrange(0, 7)))
            if rng.random() < 0.2:
                v = v[:-1]
            cases.append({"op": "swapraw", "meminfo": rng.choice([mi, b"SwapTotal: 5 kB\n", b""]).hex(),
                          "sysinfo": sysc(rng.randrange(100), rng.randrange(100), rng.choice([1, 4096]), rng),
                          "vmstat": v.hex()})
    # the model follows the code's multiplier for every PAGESIZE (cfgAt); the unreadable file in all its ways
    for i, c in enumerate(cases):
        c["pagesize"] = PAGESIZES[i % len(PAGESIZES)]
        if c["vmstat"] is None:
            c["unreadable"] = UNREADABLE[i % len(UNREADABLE)]
    return cases


def phymem_cases(rng, n):
    """virtual_memory() then a changed /proc/meminfo then Process.memory_percent(): which total?"""
    cases = []
    for i in range(n):
        t1 = rng.choice([0, 1, 1000, rng.randrange(1, 2 ** 32)])
        t2 = rng.choice([0, 7, 2000, rng.randrange(1, 2 ** 32)])
        es1 = [entry("MemTotal", t1, rng), entry("MemFree", rng.randrange(0, t1 + 1), rng), entry("MemAvailable", 1 + t1 // 2, rng)]
        es2 = [entry("MemTotal", t2, rng), entry("MemFree", rng.randrange(0, t2 + 1), rng), entry("MemAvailable", 1 + t2 // 3, rng)]
        how = i % 5
        if how == 1:
            es1 = es1[1:]            # first call raises KeyError: the cache keeps what it held
        elif how == 2:
            es2 = es2[:1]            # the fresh call (if one is needed) raises
        st0 = rng.choice([None, None, 0, 12345, 4096 * rng.randrange(1, 10 ** 6)])
        cases.append({"op": "phymem", "entries1": es1, "entries2": es2, "st0": st0, "rss_pages": rng.randrange(0, 10 ** 6)})
    return cases


# ------------------------------------------------------------------------------ renderer validation


def validate_renderers(ctx, res):
    """Re-render the live kernel's /proc/meminfo, /proc/vmstat and /proc/zoneinfo through the Lean
    renderers (after an independent strict parse) and require byte equality (DESIGN §3.3)."""
    ok = {}
    try:
        raw = open("/proc/meminfo", "rb").read()
        es = []
        for line in raw.split(b"\n")[:-1]:
            m = re.match(rb"^([^\s:]+):( +)(\d+)( kB)?$", line)
            if not m:
                raise ValueError("meminfo line %r" % line)
            es.append([m.group(1).hex(), int(m.group(3)), len(m.group(2)) - 1, bool(m.group(4))])
        vraw = open("/proc/vmstat", "rb").read()
        vs = []
        for line in vraw.split(b"\n")[:-1]:
            m = re.match(rb"^(\S+) (\d+)$", line)
            if not m:
                raise ValueError("vmstat line %r" % line)
            vs.append([m.group(1).hex(), int(m.group(2))])
        zraw = open("/proc/zoneinfo", "rb").read()
        zs = []
        for line in zraw.split(b"\n")[:-1]:
            m = re.match(rb"^( *)low( +)(\d+)$", line)
            if m:
                zs.append(["low", len(m.group(1)), len(m.group(2)) - 1, int(m.group(3))])
            else:
                ind = len(line) - len(line.lstrip(b" "))
                if line.strip().startswith(b"low"):
                    raise ValueError("zoneinfo: a non-watermark line starts with low: %r" % line)
                zs.append(["other", ind, line[ind:].hex()])
        outs = ctx.driver().batch([
            {"op": "vm", "entries": es, "zones": zs, "pagesize": 4096},
            {"op": "swap", "entries": es, "sysinfo": sysc(0, 0, 1), "vmstat": vs, "pagesize": 4096}])
        ok["meminfo"] = bytes.fromhex(outs[0]["meminfo"]) == raw
        ok["zoneinfo"] = bytes.fromhex(outs[0]["zoneinfo"]) == zraw
        ok["vmstat"] = bytes.fromhex(outs[1]["vmstat"]) == vraw
        ok["live_vm_spec_kind"] = outs[0]["spec"]["kind"]
        ok["live_pswp_prefix_clash"] = sorted(
            bytes.fromhex(n).decode() for n, _ in vs
            if (bytes.fromhex(n).startswith(b"pswpin") and bytes.fromhex(n) != b"pswpin")
            or (bytes.fromhex(n).startswith(b"pswpout") and bytes.fromhex(n) != b"pswpout"))
    except (OSError, ValueError, KeyError) as e:
        ok["error"] = "%s: %s" % (type(e).__name__, e)
    res.extra["renderer_validation"] = ok
    bad = [k for k in ("meminfo", "zoneinfo", "vmstat") if ok.get(k) is False]
    if bad or "error" in ok:
        res.notes.append("renderer validation against the live kernel failed: %s" % (bad or ok["error"]))


def validate_sysinfo_native(ctx, res):
    """The REAL psutil_linux_sysinfo() against sysinfo(2) read through ctypes: the tuple must be the
    struct's members in the order of fact sysinfoCMembers (the stable ones compared exactly), and
    on this kernel totalswap × mem_unit must be /proc/meminfo's SwapTotal in bytes."""
    import ctypes
    info = {}
    try:
        class SI(ctypes.Structure):
            _fields_ = [("uptime", ctypes.c_long), ("loads", ctypes.c_ulong * 3), ("totalram", ctypes.c_ulong),
                        ("freeram", ctypes.c_ulong), ("sharedram", ctypes.c_ulong), ("bufferram", ctypes.c_ulong),
                        ("totalswap", ctypes.c_ulong), ("freeswap", ctypes.c_ulong), ("procs", ctypes.c_ushort),
                        ("pad", ctypes.c_ushort), ("totalhigh", ctypes.c_ulong), ("freehigh", ctypes.c_ulong),
                        ("mem_unit", ctypes.c_uint), ("_f", ctypes.c_char * 8)]
        si = SI()
        if ctypes.CDLL(None, use_errno=True).sysinfo(ctypes.byref(si)) != 0:
            raise OSError("sysinfo(2) failed")
        t = ctx.psutil._psplatform.cext.linux_sysinfo()
        members = ctx.facts_value("sysinfoCMembers") if hasattr(ctx, "facts_value") else \
            ["totalram", "freeram", "bufferram", "sharedram", "totalswap", "freeswap", "mem_unit"]
        info["tuple_len"] = len(t)
        stable = {}
        for name, v in zip(members, t):
            if name in ("totalram", "totalswap", "mem_unit"):
                stable[name] = (v, getattr(si, name))
        info["stable_members"] = {k: list(v) for k, v in stable.items()}
        ok = len(t) == len(members) and all(a == b for a, b in stable.values()) and len(stable) == 3
        swap_total_kb = None
        for line in open("/proc/meminfo", "rb"):
            if line.startswith(b"SwapTotal:"):
                swap_total_kb = int(line.split()[1])
        if swap_total_kb is not None and ok:
            ok = t[members.index("totalswap")] * t[members.index("mem_unit")] == swap_total_kb * 1024
            info["swaptotal_bytes"] = swap_total_kb * 1024
        info["ok"] = ok
        res.count("sysinfo_native_live")
        if not ok:
            res.disagree("model", {"op": "sysinfo_native", "source": "live"}, {"tuple": list(t)}, info, None,
                         note="cext.linux_sysinfo() does not return struct sysinfo's members in the order of fact sysinfoCMembers")
    except (OSError, ValueError, AttributeError) as e:
        info["error"] = "%s: %s" % (type(e).__name__, e)
        res.notes.append("native sysinfo validation skipped: %s" % info["error"])
    res.extra["sysinfo_native"] = info


# ------------------------------------------------------------------------------ correspondence


def correspond(ctx, res):
    import time
    t_start = time.time()
    impl = Impl(ctx)
    try:
        res.rule = ("kernel states (meminfo entries, zoneinfo lines, vmstat lines, the 7 members of struct sysinfo) from 17 "
                    "clause-directed virtual_memory families and all SwapTotal/SwapFree × vmstat-shape × magnitude "
                    "combinations for swap_memory (PRNG from VERIF_SEED), plus EVERY subset of the 14 optional "
                    "meminfo keys under fixed magnitude profiles, plus malformed and arbitrary-byte text (int() literal "
                    "shapes, broken `low` lines consulted or not, clashing/repeated vmstat names, byte soup) compared "
                    "with the model and with the theorem-backed outcome characterisation, plus virtual_memory() → "
                    "changed meminfo → Process.memory_percent() sequences; rendered by the "
                    "Lean renderers into a fake procfs; non-trivial = an optional key is missing or a "
                    "fallback/clamp/warning branch is taken; distinct = distinct inputs")
        rng = ctx.rng
        cases, srcs = [], []
        # corpus: the clause witnesses
        for c, s in corpus():
            cases.append(c)
            srcs.append(s)
        n = ctx.n(1700, 60000)
        for i in range(n):
            fam = VM_FAMILIES[i % len(VM_FAMILIES)]
            cases.append(gen_vm(rng, fam))
            srcs.append("vm:" + fam)
        quick = ctx.tier == "quick" and ctx.budget_factor == 1
        profiles = ["typical", "starved", "distorted", "zero"]
        reduced = ("starved", "distorted", "zero") if quick else ()
        n_before = len(cases)
        for c in exhaustive_vm(profiles, reduced):
            cases.append(c)
            srcs.append("vm:exhaustive")
        n_exh = len(cases) - n_before
        for c in raw_vm_cases(rng, ctx.n(60, 2000)):
            cases.append(c)
            srcs.append("vm:raw")
        reps = ctx.n(2, 40)
        n_swap = 0
        for keys in ([], ["SwapTotal"], ["SwapFree"], ["SwapTotal", "SwapFree"]):
            for vstyle in VMSTAT_STYLES:
                for prof in SWAP_PROFILES:
                    for _ in range(reps):
                        cases.append(gen_swap(rng, keys, vstyle, prof))
                        srcs.append("swap:%s" % vstyle)
                        n_swap += 1
        for c in raw_swap_cases(rng, ctx.n(120, 4000)):
            cases.append(c)
            srcs.append("swap:raw")
        for c in phymem_cases(rng, ctx.n(60, 1500)):
            cases.append(c)
            srcs.append("phymem")
        rows = run_cases(ctx, impl, cases)
        res.extra["run_cases_s"] = round(time.time() - t_start, 1)
        for (case, im, out), src in zip(rows, srcs):
            tags = vm_tags(case, out) if case["op"] == "vm" else swap_tags(case, out) if case["op"] == "swap" else set()
            if case["op"] == "swapraw" and out["model"]["kind"] == "ok":
                tags.add("vmstat_raw:" + ("no_pair→warn" if out["model"]["warned"] else "pair"))
            res.count("family:" + src)
            for t in tags:
                res.count("branch:" + t)
            if case["op"] in ("vm", "swap"):
                res.count("entries", len(case["entries"]))
                known = {hx(k) for k in REQUIRED + OPTIONAL + ["SwapTotal", "SwapFree"]}
                if any(e[0] in known and not e[3] for e in case["entries"]):
                    res.count("unit:key_psutil_reads_rendered_without_kB")
            if case.get("unreadable"):
                res.count("unreadable:%s:%s" % ("zoneinfo" if case["op"].startswith("vm") else "vmstat", case["unreadable"]))
            if case["op"] in ("swap", "swapraw"):
                res.count("swap:pagesize=%d" % case["pagesize"])
            nontriv = bool(tags - {"avail:kernel_estimate", "swap:meminfo", "vmstat:both"}) or case["op"].endswith("raw") \
                or case["op"] == "phymem"
            res.case(case, nontrivial=nontriv,
                     sample={"source": src, "input": case, "impl": im} if len(res.samples) < 6 and res.evaluations % 997 == 3 else None)
            compare(case, im, out, res, src)
        res.exhaustive = ("all %d subsets of the 14 optional /proc/meminfo keys under profile(s) %s%s (virtual_memory), "
                          "and all 4 SwapTotal/SwapFree presence × %d vmstat shapes × %d magnitude profiles "
                          "(swap_memory); the magnitudes are samples" % (
                              1 << len(OPTIONAL), [p for p in profiles if p not in reduced],
                              ("; under %s all subsets of the 5 keys `available` depends on × the other 9 all present/absent"
                               % list(reduced)) if reduced else "", len(VMSTAT_STYLES), len(SWAP_PROFILES)))
        res.extra["driver_lines"] = len(cases)
        res.extra["exhaustive_cases"] = n_exh
        res.extra["swap_cases"] = n_swap
        validate_renderers(ctx, res)
        validate_sysinfo_native(ctx, res)
        res.extra["correspond_s"] = round(time.time() - t_start, 1)
    finally:
        impl.close()


def corpus():
    def e(k, v):
        return entry(k, v)
    z = [["other", 0, hx("Node 0, zone   Normal")], ["low", 8, 5, 100]]
    base = [e("MemTotal", 1000), e("MemFree", 400)]
    fb = [e("Active(file)", 7), e("Inactive(file)", 8), e("SReclaimable", 5)]
    yield {"op": "vm", "entries": base, "zones": z, "pagesize": 4096}, "corpus:only_required"
    yield {"op": "vm", "entries": base + fb, "zones": z, "pagesize": 4096}, "corpus:watermark_estimate"
    yield {"op": "vm", "entries": base + fb, "zones": [["low", 8, 5, 200]], "pagesize": 4096}, "corpus:negative_estimate"
    yield {"op": "vm", "entries": [e("MemFree", 400), e("Cached", 3)], "zones": None, "pagesize": 4096}, "corpus:no_memtotal"
    yield {"op": "vm", "entries": [e("MemTotal", 400), e("Cached", 3)], "zones": None, "pagesize": 4096}, "corpus:no_memfree"
    yield {"op": "vm", "entries": base + fb + [e("MemAvailable", 0)], "zones": [["low", 0, 0, 1]], "pagesize": 4096}, "corpus:memavailable_zero"
    yield {"op": "vm", "entries": base + [e("MemAvailable", 5000)], "zones": None, "pagesize": 4096}, "corpus:avail_gt_total"
    yield {"op": "vm", "entries": base + [e("Cached", 900), e("Buffers", 900)], "zones": None, "pagesize": 4096}, "corpus:used_negative"
    yield {"op": "vm", "entries": [e("MemTotal", 0), e("MemFree", 0)], "zones": None, "pagesize": 4096}, "corpus:zero_total"
    yield {"op": "vm", "entries": [e("MemTotal", 100), e("MemFree", 400), e("MemAvailable", 500)], "zones": None, "pagesize": 4096}, "corpus:free_gt_total"
    yield {"op": "vm", "entries": base + [e("Active(file)", 3), e("Inactive(file)", 0), e("SReclaimable", 1)], "zones": [["low", 8, 1, 0]], "pagesize": 4096}, "corpus:odd_halves"
    yield {"op": "swap", "entries": [e("SwapTotal", 0), e("SwapFree", 0)], "sysinfo": sysc(5, 3, 4096), "vmstat": [[hx("pswpin"), 1], [hx("pswpout"), 2]]}, "corpus:swap_zero_total"
    yield {"op": "swap", "entries": [e("SwapTotal", 10)], "sysinfo": sysc(5, 3, 4096), "vmstat": None}, "corpus:swap_sysinfo_no_vmstat"
    yield {"op": "swap", "entries": [e("SwapTotal", 10), e("SwapFree", 4)], "sysinfo": sysc(5, 3, 4096), "vmstat": [[hx("pswpin"), 5]]}, "corpus:swap_only_pswpin"
    # witness of C08_swap_prefix_clash_reads_other_counter: sin = 9 * 4096 (model-only: outside VWF.noClash)
    yield {"op": "swapraw", "meminfo": b"SwapTotal: 1000 kB\nSwapFree: 400 kB\n".hex(), "sysinfo": sysc(5, 3, 4096),
           "vmstat": b"pswpin 5\npswpin_x 9\npswpout 3\n".hex(), "expect_sin": 9 * 4096}, "corpus:swap_prefix_clash"
    # sysinfo fallback with mem_unit = 4096: bytes = count × unit (C08_swap_sysinfo_bytes)
    yield {"op": "swap", "entries": [e("MemTotal", 10)], "sysinfo": sysc(25, 10, 4096), "vmstat": None}, "corpus:swap_sysinfo_unit"
    # witness of C08_swap_hardcoded_4k_underreports (Props: swBigPages): 64 KiB pages, 3 in / 5 out
    yield dict(SWAP_64K_WITNESS), "corpus:swap_64k_pages"
    yield dict(SWAP_64K_WITNESS, pagesize=16384), "corpus:swap_16k_pages"
    # the optional files unreadable in every way `except OSError` has to cover (audit item 5)
    for how in UNREADABLE:
        yield {"op": "vm", "entries": base + fb, "zones": None, "pagesize": 4096, "unreadable": how}, "corpus:zoneinfo_" + how
        yield {"op": "swap", "entries": [e("SwapTotal", 10), e("SwapFree", 4)], "sysinfo": sysc(5, 3, 4096), "vmstat": None,
               "pagesize": 4096, "unreadable": how}, "corpus:vmstat_" + how
    # lines without the ` kB` unit for keys psutil reads: still × 1024 (audit item 7)
    yield {"op": "vm", "entries": [entry("MemTotal", 1000, unit=False), entry("MemFree", 400, unit=False),
                                   entry("Cached", 30, unit=False), entry("MemAvailable", 500, unit=False)],
           "zones": None, "pagesize": 4096}, "corpus:unitless_lines"
    yield {"op": "swap", "entries": [entry("SwapTotal", 10, unit=False), entry("SwapFree", 4, unit=False)],
           "sysinfo": sysc(5, 3, 4096), "vmstat": [[hx("pswpin"), 1], [hx("pswpout"), 2]]}, "corpus:swap_unitless_lines"


SWAP_64K_WITNESS = {"op": "swap", "entries": [[hx("SwapTotal"), 1000, 0, True], [hx("SwapFree"), 400, 0, True]],
                    "sysinfo": [1111, 2222, 3333, 4444, 0, 0, 1], "vmstat": [[hx("pswpin"), 3], [hx("pswpout"), 5]],
                    "pagesize": 65536}


def search(ctx, res, broken):
    correspond(ctx, res)


# ------------------------------------------------------------------------------ shrink / replay


def _violates(ctx, impl, case):
    from harness.common.runner import Result
    r = Result()
    rows = run_cases(ctx, impl, [case])
    kind = compare(rows[0][0], rows[0][1], rows[0][2], r, "shrink")
    return kind == "spec", (r.disagreements[0] if r.disagreements else None)


def shrink(ctx, d):
    case = {k: v for k, v in d["input"].items() if k != "source"}
    if case.get("op") not in ("vm", "swap"):
        return d
    impl = Impl(ctx)
    try:
        best, bestd = case, None
        tests = 0

        def attempt(cand):
            nonlocal best, bestd, tests
            if tests >= 30:
                return False
            tests += 1
            bad, dd = _violates(ctx, impl, cand)
            if bad:
                best, bestd = cand, dd
            return bad
        keep = {hx("MemTotal"), hx("MemFree")} if case["op"] == "vm" else set()
        # drop the noise first, then optional entries one by one
        known = {hx(k) for k in REQUIRED + OPTIONAL + ["SwapTotal", "SwapFree"]}
        cand = dict(best, entries=[e for e in best["entries"] if e[0] in known])
        if len(cand["entries"]) < len(best["entries"]):
            attempt(cand)
        for e in list(best["entries"]):
            if e[0] in keep:
                continue
            cand = dict(best, entries=[x for x in best["entries"] if x is not e])
            attempt(cand)
        if case["op"] == "vm" and best.get("zones"):
            if not attempt(dict(best, zones=None)):
                attempt(dict(best, zones=[l for l in best["zones"] if l[0] == "low"]))
        if case["op"] == "swap" and best.get("vmstat"):
            attempt(dict(best, vmstat=[l for l in best["vmstat"] if bytes.fromhex(l[0]) in (b"pswpin", b"pswpout")]))
        attempt(dict(best, entries=[[e[0], e[1], 0, e[3]] for e in best["entries"]]))
        if bestd is not None:
            return dict(d, input=dict(best, source="shrunk", readable=_readable(best)), impl=bestd["impl"],
                        model=bestd["model"], spec=bestd["spec"], note=bestd["note"])
        return dict(d, input=dict(d["input"], readable=_readable(case)))
    finally:
        impl.close()


def _readable(case):
    r = {}
    if "entries" in case:
        r["meminfo"] = {bytes.fromhex(e[0]).decode("latin1"): e[1] for e in case["entries"]}
    if case.get("zones"):
        r["low_watermarks_pages"] = [l[3] for l in case["zones"] if l[0] == "low"]
    if case.get("vmstat"):
        r["vmstat"] = {bytes.fromhex(l[0]).decode("latin1"): l[1] for l in case["vmstat"]}
    return r


def replay(ctx, rp, res):
    case = {k: v for k, v in rp["input"].items() if k not in ("source", "readable")}
    if "op" not in case:
        return True
    impl = Impl(ctx)
    try:
        bad, _ = _violates(ctx, impl, case)
        return bad
    finally:
        impl.close()


def check_finding(ctx, fnd):
    """C08-swap-pagesize: replay the witness (64 KiB pages, 3 pages in / 5 out) on the real code with
    `_pslinux.PAGESIZE` patched: reproduces iff sin/sout are pages × 4096 instead of pages × 65536."""
    if fnd.get("id") != FINDING_SWAP_PAGESIZE:
        return "gone"
    case = {k: v for k, v in fnd["witness"]["case"].items()}
    impl = Impl(ctx)
    try:
        (c, im, out), = run_cases(ctx, impl, [case])
    finally:
        impl.close()
    want = out["spec"]["fields"]
    if im["kind"] != "ok":
        return "gone"
    got = im["fields"]
    if (got["sin"], got["sout"]) == (want["sin"], want["sout"]):
        return "gone"
    ps = case["pagesize"]
    if (got["sin"] * ps, got["sout"] * ps) == (want["sin"] * 4096, want["sout"] * 4096):
        return "reproduces"
    return "gone"
