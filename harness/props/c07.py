"""C07 — CPU times and CPU percentages are exact shares of elapsed time.

Model: lean/PsutilModel/Model/C07.lean (+C07Gen), Spec: Spec/C07.lean, theorems: Props/C07.lean.

Correspondence (all through the REAL code paths, nothing stubbed below the front end):
  * worlds: kernel states rendered by the Lean renderer into a fake `/proc/stat`, read back with
    `psutil.cpu_times()` / `cpu_times(percpu=True)` and compared with ticks/USER_HZ (exact rationals);
    plus malformed files (model only: which exception);
  * histories of `cpu_percent` / `cpu_times_percent` calls (percpu or not, blocking or not, negative
    intervals) issued from several real threads in a model-chosen serial order; every read of
    `/proc/stat` is served the next scripted snapshot by a wrapper around `_pslinux.open_binary`
    (the real parser runs on it), `time.sleep` is recorded instead of sleeping;
  * population histories (seeded round 5): the number of callers that hold a sample AT THE SAME TIME grows to
    hundreds of real threads / thousands of scripted thread identifiers (psutil's module global `threading` is
    wrapped from outside so that `current_thread().ident` answers the scripted value); at every size of a
    structured list old, new, middle, least-recently-active, random (at some sizes: all) members ask again and
    must be measured against their OWN previous sample; + random interleavings + EVERY (size k, position j < k)
    for small k; the model is `cstep` over the four dictionaries as containers (`Cfg.storeBound`);
  * histories of `Process.cpu_percent` on several `Process` objects over a fake `/proc/<pid>/stat`,
    a scripted `psutil._timer` and a scripted `cpu_count_logical`.
Floats are compared with the model's exact rationals: |impl − exact| ≤ 0.05 + 1e-9 (+ a computed
bound for the double rounding of the inputs); a result that differs from the exactly rounded
value but is within that tolerance is counted as `near_boundary`.
"""
import json
import math
import os
import queue
import re
import subprocess
import threading
import time as _time
from fractions import Fraction

from harness.common import fakeproc
from harness.common.shrink import ddmin
from harness.props import c07_facts

PROP = "C07"
DRIVER_MODULES = ["PsutilModel.Model.C07Gen", "PsutilModel.Spec.C07"]
NEEDS_EXT = True
FINDING_ID = "C07-tp-subsecond"
FINDING_NCPU = "C07-cpu-count-change"
IMPORT_CHILD = os.path.join(os.path.dirname(os.path.abspath(__file__)), "c07_import_child.py")
TRUSTED = [
    "C07 floats: the implementation computes in IEEE doubles and `round(x, 1)`, the model in exact rationals; results are compared with tolerance 0.05 + 1e-9 + a computed bound on the double rounding of the inputs (near-boundary cases counted in the evidence)",
    "C07 renderer: `/proc/stat` as printed by fs/proc/stat.c (`cpu  ` + 7–10 decimal columns, `cpuN ` lines, other lines not starting with `cpu`) is a trusted transcription; tokens are decimal digit strings or strings `float()` rejects",
    "C07 threads: the thread id is `threading.current_thread().ident`; dictionary get/set are atomic under the GIL (the interleaving theorem is at that granularity); an identifier handed out again after a thread ended IS modelled (C07_ident_reuse_inherits) and exercised with really re-used identifiers",
    "C07 per-thread store: the four _last_* objects are builtin dicts touched only by X.get(tid) / X[tid] / X[tid] = … (translator facts lastDictDefs, lastDictOtherUses, lastStoreBound → obligation cfg_store_plain_dict); CPython's dict keeps every item until its key is written again (modelled as an insertion-ordered association list, PyDict); scripted thread identifiers reach the code through a proxy of psutil's module global `threading` (current_thread().ident / get_ident()), real threads are used up to a few hundred",
    "C07 token grammar: the kernel prints every counter as `%llu` = Spec.isKernelTok (proved to be exactly the renderer's tokens, C07_grammar_exact); validated on every run against the live /proc/stat of the host (each token asked of the Lean recogniser; the whole file re-rendered byte-identically by the Lean renderer when it has <= 10 columns and CPUs numbered 0..n-1) AND against every file the generators of the claimed families script (token_hypothesis:* counters; the Python twins of the recognisers are validated against the Lean ones on a sample of the distinct tokens)",
    "C07 float() on the two claimed token classes: a string of ASCII digits is read as its decimal value (leading zeros included), a token containing a byte outside `0-9 + - . _ e E` and the letters of inf/infinity/nan raises ValueError; everything between (1e3, +5, --1, nan …) is outside the claim (compared with the model only, or recorded)",
    "C07 fresh import: the module-level priming code is run for real in a child interpreter whose builtins.open serves scripted /proc/stat contents (wrapper from outside, no source hook)",
    "C07 Process.cpu_percent: /proc/<pid>/stat parsing itself is C06's subject; here utime/stime reach the model as tick counts",
]
MANIFEST = {
    "level_text": "Machine-checked Lean 4 proofs over an exact-rational model of the Linux /proc/stat parser and of the cpu_percent / cpu_times_percent / Process.cpu_percent front ends: parse∘render round trip for every kernel state (C07_times_exact, C07_per_cpu_times_exact, kernel order C07_fields_kernel_order), cpu_percent = round1(100·busy/total) for all rational samples and all four field sets (C07_percent_formula), range [0,100] (C07_percent_range), decreasing counters contribute zero (C07_decreasing_field_contributes_zero), guest not double counted (C07_guest_not_double_counted, C07_guest_accounting), cpu_times_percent shares within [0,100] (C07_tp_range) adding up to exactly 100 before rounding and within 0.05 per field after (C07_tp_sum_exact, C07_tp_sum_rounded) for EVERY positive total; the full statement C07_tp_sum_Full is proved for the guard `100/all_delta if all_delta > 0` (C07_tp_sum_fixed), proved for totals ≥ 1 s for the current guard (C07_tp_sum_partial) and REFUTED for the current `max(1, all_delta)` guard with a 0.1 s witness (C07_tp_sum_counterexample; known finding C07-tp-subsecond); every call is measured against the same thread's previous sample for every history (C07_own_previous_sample, by induction), thread independence for serial histories and for every interleaving of dictionary accesses (C07_thread_independence, C07_thread_independence_interleaved), Process.cpu_percent formula/first call/negative interval/object independence (C07_proc_percent, …); the full statement for ANY sequence of CPU counts (C07_proc_percent_Full) is proved at full strength for the code as it is now (C07_proc_percent_code, through the obligation cfg_proc_scale_delta on the shape `delta_time = (st2 - st1) * num_cpus` over raw time stamps, C07_proc_percent_fixed) and REFUTED for the code as found, which subtracted `timer()*num_cpus` products of two different calls (C07_proc_percent_counterexample: 2 -> 1 CPUs gives a negative percentage; C07-cpu-count-change, fixed in /repo by 73df480); 'since module import': from the state the module-level code leaves, for every history (C07_since_import, C07_first_call_after_import); per-CPU lists of different lengths (C07_percpu_any_lengths, C07_percpu_cpu_count_change: one value per CPU present in both samples, position by position); threads versus identifiers (C07_own_thread_partial under distinct identifiers, C07_ident_reuse_inherits, C07_ident_reuse_counterexample); the kernel token grammar (C07_token_grammar, C07_grammar_exact, C07_grammar_tokens_parse); cpuN lines carrying their own numbers, offline CPUs left out (C07_times_any_numbering, C07_percpu_numbered_by_position, C07_percpu_by_number_partial, and the characterisation C07_percpu_by_number_counterexample for a CPU that goes offline in the middle of the list); the parser on ANY bytes (C07_cpu_times_any_bytes, C07_per_cpu_times_any_bytes: ValueError exactly when a converted token is not a digit string — C07_valueError_exactly_when —, else TypeError exactly when fewer than nf tokens — C07_typeError_exactly_when —, tokens beyond column nf ignored — C07_columns_beyond_ignored —, per-CPU list exactly when every cpu line is well formed — C07_per_cpu_ok_exactly_when —, token classes C07_token_classes / C07_foreign_token_raises / C07_leading_zeros); a blocking call files its post-sleep sample as the thread's last sample (C07_blocking_sample_is_remembered, obligation cfg_blocking_stores); the per-thread store as the CONTAINER it is — four insertion-ordered dictionaries with a retention policy (Cfg.storeBound, obligation cfg_store_plain_dict: builtin dicts accessed by key only) — so that the number of threads holding a sample at the same time is quantified over: C07_own_previous_sample_any_population / C07_since_import_any_population (every history, any population), C07_store_retains_every_thread (every dictionary holds for every thread exactly the sample the specification remembers), C07_own_history_only (the promise depends on the caller's own calls only), full statement C07_own_sample_store_Full proved for the code (C07_own_sample_store_code) and REFUTED for every container bounded by n >= 1 with n + 1 polling threads (C07_bounded_store_counterexample, C07_bounded_store_code_counterexample). The model is tied to the code by 32 translator facts feeding the proof obligations cfg_good / cfg_proc_scale_delta / cfg_blocking_stores and by a differential run of the real functions on generated kernel states (also with numbered cpuN lines), a systematic malformed-token stream compared with the byte-level specification, call histories from real threads (also short-lived ones whose identifiers are handed out again; non-blocking/blocking/non-blocking on one thread for all four variants), population histories (up to hundreds of real threads and thousands of scripted identifiers holding a sample at the same time, all four variants, every (size k <= 10, position) exhaustively), fresh imports in a child interpreter, Process histories with changing CPU counts, and the live /proc/stat; the kernel-token hypothesis is checked on every scripted and on the live file.",
    "level_note": "Partial: IEEE doubles are modelled by exact rationals (tolerance stated); the sum-to-100 clause is false of the current code for 0 < total < 1 s (C07-tp-subsecond, the one known finding left; no repair that keeps test_cpu_steal_decrease green); Process.cpu_percent with a CPU count that changes between two calls was false of the code as found and is fixed by 73df480 (proved at full strength for the current code: C07_proc_percent_code); the thread-level statement needs distinct thread identifiers (false otherwise, by design of the code; what is returned is proved); tokens that are neither digit strings nor certainly rejected by float() (1e3, +5, nan, --1 …) are outside the claim; per-CPU entries are positions in the printed list (equal to CPU numbers whenever both samples list the same CPUs); thread steps are dictionary accesses (GIL atomicity assumed).",
    "technique": "Lean 4 proofs (field arithmetic over ℚ, round-trip, induction over histories and interleavings) + translator-fed proof obligation + differential correspondence through a fake /proc/stat with real threads",
    "design_ref": "DESIGN.md §5 C07",
}
ASSUMPTIONS = [
    "USER_HZ (CLOCK_TICKS) > 0; the kernel prints at least as many columns as it did when psutil was imported",
    "counters fit a u64; tokens of /proc/stat are in the grammar Spec.isKernelTok = 0|[1-9][0-9]* (malformed stream: strings float() rejects); strings float() accepts but no kernel prints (1e3, +5, nan, 1_0, inf, 1.5 …) are outside the claim — what the real parser does with them is recorded in the evidence, never compared",
    "per-CPU results: psutil ignores the N of cpuN, entry k is the k-th printed line (C07_times_any_numbering, C07_percpu_numbered_by_position: any numbering, gaps included). 'For each CPU separately' in terms of CPU NUMBERS holds whenever both samples list the same CPUs (C07_percpu_by_number_partial) and is false of the code when a CPU in the middle goes offline between two samples (C07_percpu_by_number_counterexample) — a characterisation beyond the property's quantifier (which fixes the CPUs of a sequence of snapshots), not a finding",
    "thread-level reading of 'own previous sample' needs distinct identifiers for the threads involved (IdentInjectiveOn); without it C07_ident_reuse_counterexample applies and C07_ident_reuse_inherits says what is returned",
    "per-thread store: that no sample is ever dropped is PROVED for the container the translator recognises (builtin dicts touched by key only, cfg_store_plain_dict) for any number of threads; the correspondence exercises populations up to 129 live real threads and 513 scripted identifiers per run (5000 in the thorough tier and in the failing-input search); a store that forgets by wall-clock age is not spanned (no clock in the non-blocking path of the model)",
    "float corner outside the claim: if NO non-guest counter advanced while BOTH guest and guest_nice did, (g+gn)-g-gn may leave a 1e-17 residue in doubles and cpu_percent() reports busy instead of 0.0 (counted as float_cancellation_corner)",
]

facts = c07_facts.facts

EPS = 2.0 ** -52
U64 = 2 ** 64 - 1
# USER_HZ values of the scripted kernels (audit item 3: the ∀ tck of every parse theorem was exercised at the host's
# value only, which was moreover fed to BOTH sides): CONFIG_HZ-style values, a power of two, and 1
TCK_POOL = [100, 100, 250, 1000, 1024, 300, 1]
AT_CLKTCK = 17


def kernel_user_hz():
    """USER_HZ as the KERNEL hands it to every process in the ELF auxiliary vector (AT_CLKTCK) — read without
    going through os.sysconf, which is what psutil uses."""
    try:
        import ctypes
        lib = ctypes.CDLL(None, use_errno=True)
        lib.getauxval.restype = ctypes.c_ulong
        lib.getauxval.argtypes = [ctypes.c_ulong]
        v = int(lib.getauxval(AT_CLKTCK))
        if v > 0:
            return v, "getauxval(AT_CLKTCK)"
    except Exception:  # noqa: BLE001
        pass
    try:
        with open("/proc/self/auxv", "rb") as f:
            raw = f.read()
        import struct
        for k in range(0, len(raw) - 15, 16):
            a, v = struct.unpack("QQ", raw[k:k + 16])
            if a == AT_CLKTCK and v > 0:
                return int(v), "/proc/self/auxv"
    except Exception:  # noqa: BLE001
        pass
    return None, "unavailable"


# ------------------------------------------------------------------------------ implementation side

class Worker(threading.Thread):
    """A real thread that executes closures on request, one at a time."""

    def __init__(self):
        super().__init__(daemon=True)
        self.q = queue.Queue()
        self.start()

    def run(self):
        while True:
            item = self.q.get()
            if item is None:
                return
            fn, box, ev = item
            try:
                box.append(fn())
            except BaseException as e:  # noqa: BLE001 — must never kill the worker
                box.append({"kind": "harness-exc", "exc": repr(e)})
            ev.set()

    def call(self, fn):
        box, ev = [], threading.Event()
        self.q.put((fn, box, ev))
        if not ev.wait(60):
            return {"kind": "harness-timeout"}
        return box[0]

    def stop(self):
        self.q.put(None)


class _ScriptedThread:
    """what `threading.current_thread()` returns while an identifier is scripted: the real Thread object with
    another `ident`"""

    def __init__(self, real, ident):
        self._real = real
        self.ident = ident

    def __getattr__(self, name):
        return getattr(self._real, name)


class _ThreadingProxy:
    def __init__(self, real):
        self._real = real
        self._script = threading.local()

    def __getattr__(self, name):
        return getattr(self._real, name)

    def set_ident(self, ident):
        self._script.ident = ident

    def current_thread(self):
        t = self._real.current_thread()
        ident = getattr(self._script, "ident", None)
        return t if ident is None else _ScriptedThread(t, ident)

    def get_ident(self):
        ident = getattr(self._script, "ident", None)
        return self._real.get_ident() if ident is None else ident


DICT_OF = {("percent", False): "_last_cpu_times", ("percent", True): "_last_per_cpu_times",
           ("times_percent", False): "_last_cpu_times_2", ("times_percent", True): "_last_per_cpu_times_2"}


class Impl:
    def __init__(self, ctx):
        self.ps = ctx.psutil
        self.plat = self.ps._psplatform
        self.host_tck = self.plat.CLOCK_TICKS          # what the module computed at import (restored by close)
        self.tck = int(self.plat.CLOCK_TICKS)
        self.events = []
        self.feed_by_sleep = False
        self.fp = fakeproc.FakeProc(self.ps)
        self.statpath = "%s/stat" % self.fp.root
        self.feed = None
        self.feed_i = 0
        self.orig_open_binary = self.plat.open_binary
        self.plat.open_binary = self._open_binary
        self.orig_sleep = _time.sleep
        self.orig_timer = self.ps._timer
        self.orig_cpu_count = self.plat.cpu_count_logical
        self.workers = []
        self.reads_by_thread = {}
        self.vlen = None
        self.host_fields = tuple(self.plat.scputimes._fields)
        # thread identifiers scripted from outside (population family): psutil's module global `threading` is wrapped
        # by a proxy that answers `current_thread().ident` / `get_ident()` with the scripted value while one is set
        # (per real thread), and is the real module for everything else
        self.orig_threading = self.ps.threading
        self.thr_proxy = _ThreadingProxy(self.orig_threading)
        self.ps.threading = self.thr_proxy

    def set_tck(self, tck):
        """USER_HZ of the scripted kernel: `_pslinux.CLOCK_TICKS` is patched from outside to the value the scenario
        (and the model) uses — a divisor the code took from anywhere else (a literal 100 …) shows as a difference."""
        self.tck = int(tck)
        self.plat.CLOCK_TICKS = int(tck)

    def pick_tck(self, rng):
        self.set_tck(rng.choice(TCK_POOL))
        return self.tck

    def close(self):
        self.ps.threading = self.orig_threading
        self.plat.CLOCK_TICKS = self.host_tck
        self.plat.open_binary = self.orig_open_binary
        _time.sleep = self.orig_sleep
        self.ps._timer = self.orig_timer
        self.plat.cpu_count_logical = self.orig_cpu_count
        for w in self.workers:
            w.stop()
        self.fp.close()
        try:
            self.plat.set_scputimes_ntuple.cache_clear()
            self.plat.set_scputimes_ntuple("/proc")
        except Exception:
            pass

    def worker(self, i):
        while len(self.workers) <= i:
            self.workers.append(Worker())
        return self.workers[i]

    def _open_binary(self, path, *a, **kw):
        if path == self.statpath:
            t = threading.get_ident()
            self.reads_by_thread[t] = self.reads_by_thread.get(t, 0) + 1
            self.events.append("R")
        if path == self.statpath and self.feed is not None:
            # a BLOCKING call sees the second snapshot only after it has really called time.sleep: what the file
            # holds is a function of (scripted) time, not of how many times it was opened
            k = sum(1 for e in self.events if e != "R") if self.feed_by_sleep else self.feed_i
            data = self.feed[min(k, len(self.feed) - 1)] if self.feed else b""
            self.feed_i += 1
            with open(self.statpath, "wb") as f:
                f.write(data)
        return self.orig_open_binary(path, *a, **kw)

    # ---- field set fixed "at import time" from the first line seen for this procfs path
    def prime(self, vlen):
        self.feed = None
        self.plat.set_scputimes_ntuple.cache_clear()
        self.fp.write("stat", "cpu  " + " ".join(["0"] * vlen) + "\n")
        self.plat.set_scputimes_ntuple(self.fp.root)
        self.vlen = vlen
        return list(self.plat.scputimes._fields)

    def reset_last(self):
        for name in ("_last_cpu_times", "_last_per_cpu_times", "_last_cpu_times_2", "_last_per_cpu_times_2"):
            getattr(self.ps, name).clear()

    # ---- observables
    @staticmethod
    def _exc(e, extra=None):
        d = {"kind": "exc", "exc": type(e).__name__}
        if extra:
            d.update(extra)
        return d

    def times(self, data):
        """cpu_times() and cpu_times(percpu=True) on a given file content."""
        self.feed = None
        with open(self.statpath, "wb") as f:
            f.write(data)
        out = {}
        try:
            r = self.ps.cpu_times()
            out["sys"] = {"kind": "ok", "val": [float(x) for x in r], "fields": list(r._fields)}
        except Exception as e:  # noqa: BLE001
            out["sys"] = self._exc(e)
        try:
            r = self.ps.cpu_times(percpu=True)
            out["per"] = {"kind": "ok", "val": [[float(x) for x in t] for t in r]}
        except Exception as e:  # noqa: BLE001
            out["per"] = self._exc(e)
        return out

    def call(self, op, on=None):
        """One cpu_percent/cpu_times_percent call from the thread the op names (or through `on`)."""
        fn = self.ps.cpu_percent if op["fn"] == "percent" else self.ps.cpu_times_percent
        interval = op["interval"]
        if interval is not None:
            interval = op.get("interval_py", float(Fraction(*interval)))
        reads = [bytes.fromhex(r) for r in op["reads"]]

        def run():
            self.feed, self.feed_i = reads, 0
            self.events = ev = []
            self.feed_by_sleep = interval is not None and interval > 0
            slept = []

            def sleep(s_):
                slept.append(s_)
                ev.append(["S", s_ if isinstance(s_, (int, float)) and not isinstance(s_, bool) else repr(s_)])
            _time.sleep = sleep
            try:
                try:
                    r = fn(interval=interval, percpu=op["percpu"])
                finally:
                    _time.sleep = self.orig_sleep
                    n = self.feed_i
                    self.feed = None
                    self.feed_by_sleep = False
                if op["percpu"]:
                    if op["fn"] == "percent":
                        val = {"k": "nums", "v": [float(x) for x in r]}
                    else:
                        val = {"k": "tups", "v": [[float(x) for x in t] for t in r]}
                elif op["fn"] == "percent":
                    val = {"k": "num", "v": float(r)}
                else:
                    val = {"k": "tup", "v": [float(x) for x in r]}
                return {"kind": "ok", "nreads": n, "val": val, "slept": len(slept), "events": list(ev),
                        "interval_py": interval, "types_ok": _types_ok(r), "pop": self._pop(op)}
            except Exception as e:  # noqa: BLE001 — every exception is an observable
                return self._exc(e, {"nreads": n, "slept": len(slept), "events": list(ev), "interval_py": interval,
                                     "pop": self._pop(op)})

        if op.get("ident") is not None:
            # the caller is whoever `threading.current_thread().ident` says it is: scripted (no real thread needed)
            self.thr_proxy.set_ident(op["ident"])
            try:
                return run()
            finally:
                self.thr_proxy.set_ident(None)
        if on is not None:
            return on(run)
        t = op["tid"]
        if t == 0:
            return run()            # the harness' own (main) thread is a psutil caller too
        return self.worker(t - 1).call(run)

    def _pop(self, op):
        """how many entries the dictionary of this function/variant holds (internal: only counted, never compared)"""
        try:
            return len(getattr(self.ps, DICT_OF[(op["fn"], bool(op["percpu"]))]))
        except Exception:  # noqa: BLE001
            return None

    # ---- Process.cpu_percent
    def proc_setup(self, pids):
        self.feed = None
        self.fp.write("stat", "cpu  1 2 3 4 5 6 7 8 9 10\ncpu0 1 2 3 4 5 6 7 8 9 10\nbtime 1700000000\n")
        self.plat.BOOT_TIME = None
        for pid in pids:
            self.write_pstat(pid, 0, 0)

    def write_pstat(self, pid, ut, st):
        f = [str(pid), "(c07 x)", "S", "1", str(pid), str(pid), "0", "-1", "4194304", "10", "0", "0", "0",
             str(ut), str(st), "0", "0", "20", "0", "1", "0", "12345", "1000000", "100",
             "18446744073709551615"] + ["0"] * 27
        self.fp.write("%d/stat" % pid, " ".join(f) + "\n")

    def remove_pstat(self, pid):
        try:
            os.unlink(os.path.join(self.fp.root, str(pid), "stat"))
        except FileNotFoundError:
            pass

    def pcall(self, objs, op):
        pid = op["pid"]
        timer = [float(Fraction(*t)) for t in op["timer"]]
        times = list(op["times"])
        ncpu = op["ncpu"]
        self.plat.cpu_count_logical = lambda: ncpu
        ti = [0]
        interval = op["interval"]
        if interval is not None:
            interval = float(Fraction(*interval))
        blocking = interval is not None and interval > 0
        slept = []
        vanish = op.get("vanish")          # the process is gone at the k-th read of /proc/<pid>/stat of this call
        self.set_tck(op["tck"])

        def timer_fn():
            # the clock is a function of (scripted) time: a blocking call reads the later value only after it slept
            k = len(slept) if blocking else ti[0]
            v = timer[min(k, len(timer) - 1)]
            ti[0] += 1
            return v
        self.ps._timer = timer_fn
        if vanish == 0:
            self.remove_pstat(pid)
        else:
            self.write_pstat(pid, *times[0])

        def sleep(s):
            slept.append(s)
            if vanish == 1:
                self.remove_pstat(pid)
            elif len(times) > 1:
                self.write_pstat(pid, *times[1])
        _time.sleep = sleep
        extra = lambda: {"slept": len(slept), "timer_reads": ti[0], "interval_py": interval,
                         "sleep_args": [x if isinstance(x, (int, float)) and not isinstance(x, bool) else repr(x) for x in slept]}
        try:
            try:
                r = objs[op["obj"]].cpu_percent(interval=interval)
            finally:
                _time.sleep = self.orig_sleep
                self.ps._timer = self.orig_timer
                self.plat.cpu_count_logical = self.orig_cpu_count
            return dict({"kind": "ok", "val": float(r), "types_ok": isinstance(r, float)}, **extra())
        except Exception as e:  # noqa: BLE001
            return self._exc(e, extra())


def _types_ok(r):
    if isinstance(r, float):
        return True
    if isinstance(r, list):
        return all(_types_ok(x) for x in r)
    if isinstance(r, tuple):
        return all(isinstance(x, float) for x in r)
    return False


# ------------------------------------------------------------------------------ numbers

def frac(j):
    return Fraction(j[0], j[1])


def ulp_of(x):
    x = abs(float(x))
    return math.ulp(x) if x > 0 else 0.0


def stat_max_ticks(reads_hex):
    """largest decimal number appearing in the scripted snapshots (bounds the doubles involved)."""
    m = 1
    for h in reads_hex:
        for tok in bytes.fromhex(h).split():
            if tok.isdigit():
                m = max(m, int(tok))
    return m


def one_decimal(x):
    """is the double the nearest double of some k/10 ?"""
    return float(round(x * 10)) / 10 == x or abs(x * 10 - round(x * 10)) <= 1e-9 * max(1.0, abs(x))


def clamp100(q):
    return min(max(q, 0), 100)


class Cmp:
    """Comparison of one float with an exact rational under the stated tolerance."""

    def __init__(self, res):
        self.res = res

    def close(self, x, q, slack):
        return abs(Fraction(x) - q) <= Fraction(5, 100) + Fraction(1, 10 ** 9) + Fraction(slack)

    def is_rounded(self, x, r):
        return abs(Fraction(x) - r) <= Fraction(1, 10 ** 9)


def float_slack(max_ticks, tck, total, nf):
    """bound on |percentage computed in doubles − exact| caused by rounding of the inputs:
    each of the nf deltas carries ≤ 2 ulp(M) absolute error, sums a few more; relative to `total`."""
    if total <= 0:
        return 0.0
    m = max_ticks / tck
    e = 4.0 * (nf + 4) * ulp_of(m)
    return 100.0 * 2.0 * e / float(total) + 1e-12


# ------------------------------------------------------------------------------ generators

OTHER_POOL = [b"intr 1234 5 0 0 7", b"ctxt 987654", b"btime 1700000000", b"processes 4242", b"procs_running 2",
              b"procs_blocked 0", b"softirq 10 1 2 3 4 5 6 7 8 9 10", b"page 1 2", b"swap 0 0", b"disk_io: (8,0):(1,1,1,1,1)"]


def gen_ticks(rng, style):
    if style == "zero":
        return [0] * 10
    if style == "small":
        return [rng.randrange(0, 50) for _ in range(10)]
    if style == "mid":
        return [rng.randrange(0, 10 ** 7) for _ in range(10)]
    if style == "big":
        return [rng.choice([0, 1, 2 ** 31, 2 ** 32 - 1, 2 ** 53, 2 ** 53 + 1, U64, rng.randrange(2 ** 64)]) for _ in range(10)]
    # kernel-like: guest ⊆ user, guest_nice ⊆ nice
    t = [rng.randrange(0, 10 ** 6) for _ in range(10)]
    t[8] = rng.randrange(0, t[0] + 1)
    t[9] = rng.randrange(0, t[1] + 1)
    return t


def world_line(vlen, tck, ncols, total, cpus, other):
    return {"op": "world", "vlen": vlen, "tck": tck, "ncols": ncols, "total": total, "cpus": cpus,
            "other": [o.hex() for o in other]}


def gen_world(rng, impl, vlen, family):
    nf = min(max(vlen, 7), 10)
    if family == "fewer_cols":
        ncols = rng.randrange(max(0, nf - 3), nf)
    else:
        ncols = rng.randrange(nf, 11)
    ncpu = rng.choice([0, 1, 1, 2, 2, 3, 4, 8, 16, 64] if family == "many_cpus" else [0, 1, 1, 2, 3, 4])
    style = rng.choice(["small", "mid", "big", "kernel", "zero"])
    cpus = [gen_ticks(rng, style) for _ in range(ncpu)]
    total = [min(sum(c[i] for c in cpus), U64) for i in range(10)] if rng.random() < 0.5 and cpus else gen_ticks(rng, style)
    other = [rng.choice(OTHER_POOL) for _ in range(rng.randrange(0, 5))]
    return world_line(vlen, impl.tck, ncols, total, cpus, other)


def mutate_bytes(rng, data):
    """malformed /proc/stat contents whose tokens are still digit strings or float()-rejected strings."""
    kind = rng.choice(["empty", "blank_first", "drop_tokens", "bad_token", "no_newline", "tabs", "cpux",
                       "no_first_label", "crlf", "extra_spaces", "only_first", "late_cpu_bad"])
    lines = data.split(b"\n")
    if kind == "empty":
        return b"", kind
    if kind == "blank_first":
        return b"\n" + data, kind
    if kind == "drop_tokens":
        i = rng.randrange(len(lines))
        toks = lines[i].split()
        lines[i] = b" ".join(toks[:rng.randrange(0, max(1, len(toks)))])
        return b"\n".join(lines), kind
    if kind == "bad_token":
        i = rng.randrange(len(lines))
        toks = lines[i].split()
        if len(toks) > 1:
            toks[rng.randrange(1, len(toks))] = rng.choice([b"x", b"12x", b"--1", b"0x10", b"1,5", b"(3)", b"cpu"])
        lines[i] = b" ".join(toks)
        return b"\n".join(lines), kind
    if kind == "no_newline":
        return data.rstrip(b"\n"), kind
    if kind == "tabs":
        return data.replace(b" ", b"\t"), kind
    if kind == "cpux":
        return data + b"cpufreq 1 2 3 4 5 6 7 8 9 10 11\ncp 1 2 3\n", kind
    if kind == "no_first_label":
        return data[5:] if data.startswith(b"cpu  ") else data, kind
    if kind == "crlf":
        return data.replace(b"\n", b"\r\n"), kind
    if kind == "extra_spaces":
        return data.replace(b" ", b"   "), kind
    if kind == "only_first":
        return lines[0] + b"\n", kind
    # a cpu line with a bad token far down
    return data + b"cpu9 1 2 3 oops 5 6 7 8 9 10\n", kind


def render_snapshot(vlen_cols, cpus_ticks, agg=None, other=(b"intr 5", b"btime 1700000000"), labels=None):
    """Python twin of Spec.renderProcStat / renderProcStatL (`labels` = the CPUs' own numbers) used only to
    script snapshots for call histories (the world and numbered-CPU families validate it byte-for-byte
    against the Lean renderers on every run)."""
    ncols = vlen_cols
    if agg is None:
        agg = [min(sum(c[i] for c in cpus_ticks), U64) for i in range(10)] if cpus_ticks else [0] * 10
    out = [b"cpu  " + b" ".join(str(x).encode() for x in agg[:ncols])]
    for i, c in enumerate(cpus_ticks):
        out.append(b"cpu%d " % (i if labels is None else labels[i]) + b" ".join(str(x).encode() for x in c[:ncols]))
    out.extend(other)
    return b"\n".join(out) + b"\n"


CALL_FAMILIES = ["subsecond", "zero", "decreasing", "guest", "big", "threads", "hotplug", "malformed_read",
                 "blocking", "mixed", "guest_only", "tie", "exact_tie"]


def evolve(rng, cur, family, tck):
    """next per-CPU counters from the current ones."""
    new = []
    for c in cur:
        d = [0] * 10
        if family == "zero":
            pass
        elif family == "subsecond":
            # total of the non-guest columns between 1 and tck-1 ticks
            tot = rng.randrange(1, max(2, tck))
            for _ in range(tot):
                d[rng.choice([0, 0, 1, 2, 2, 3, 3, 3, 4, 5, 6, 7])] += 1
            if rng.random() < 0.3:
                d[8] = rng.randrange(0, d[0] + 1)
        elif family == "tie":
            # shares that land exactly on x.x5: e.g. total 2000 ticks, parts multiples of 1 tick → k/20 %
            tot = rng.choice([2000, 4000, 800, 400])
            rest = tot
            for col in (0, 2, 4, 5):
                v = rng.randrange(0, rest + 1) if rest > 0 else 0
                d[col] += v
                rest -= v
            d[3] += rest
        elif family == "exact_tie":
            # total 16 s (16·tck ticks) split in whole seconds among user/system/idle/iowait(/steal): every share is
            # j/16 of 100 = 6.25·j — for odd j EXACTLY on a x.x5 tie, and exactly representable in binary, as are all
            # inputs (whole seconds) and intermediates: round(·, 1) has one right answer, the half-even one
            rest = 16
            for col in rng.sample([0, 2, 3, 4, 7], 5):
                v = rng.randrange(0, rest + 1) if col != 3 else 0
                d[col] += v * tck
                rest -= v
            d[3] += rest * tck
        elif family == "guest":
            g, gn = rng.randrange(0, 500), rng.randrange(0, 200)
            d = [g + rng.randrange(0, 300), gn + rng.randrange(0, 100), rng.randrange(0, 300), rng.randrange(0, 2000),
                 rng.randrange(0, 50), rng.randrange(0, 10), rng.randrange(0, 10), rng.randrange(0, 10), g, gn]
        elif family == "guest_only":
            d[8], d[9] = rng.randrange(0, 400), rng.randrange(0, 400)
            if rng.random() < 0.5:
                d[rng.choice([0, 3])] = rng.randrange(0, 3)
        elif family == "big":
            d = [rng.randrange(0, 10 ** rng.randrange(1, 8)) for _ in range(10)]
        elif family == "decreasing":
            d = [rng.randrange(0, 400) for _ in range(10)]
            for _ in range(rng.randrange(1, 4)):
                i = rng.randrange(10)
                d[i] = -rng.randrange(0, c[i] + 1)
        else:
            style = rng.random()
            if style < 0.25:
                d = [rng.randrange(0, 3) for _ in range(10)]
            elif style < 0.35:
                d = [0] * 10
            else:
                d = [rng.randrange(0, 1000) for _ in range(10)]
            if rng.random() < 0.2:
                i = rng.randrange(10)
                d[i] = -rng.randrange(0, c[i] + 1)
        new.append([max(0, a + b) for a, b in zip(c, d)])
    return new


def gen_call_history(rng, impl, family):
    tck = impl.tck
    vlen = rng.choice([7, 8, 9, 10, 10, 10, 3, 12])
    nf = min(max(vlen, 7), 10)
    ncols = rng.randrange(nf, 11)
    ncpu = rng.choice([1, 1, 2, 2, 4, 8]) if family != "hotplug" else rng.choice([1, 2, 3])
    if family == "big" and rng.random() < 0.15:
        ncpu = 64
    nthreads = rng.choice([1, 1, 2]) if family != "threads" else rng.choice([2, 3, 4])
    base = rng.choice([0, 1000, 10 ** 6, 10 ** 9])
    cur = [[base + rng.randrange(0, 1000) for _ in range(10)] for _ in range(ncpu)]
    if family == "exact_tie":
        cur = [[tck * rng.randrange(0, 10 ** 5) for _ in range(8)] + [0, 0] for _ in range(ncpu)]
    n_ops = rng.randrange(3, 9) if family != "threads" else rng.randrange(6, 14)
    ops = []
    fn_bias = rng.choice(["percent", "times_percent", None])
    for _ in range(n_ops):
        fn = fn_bias if fn_bias and rng.random() < 0.7 else rng.choice(["percent", "times_percent"])
        percpu = rng.random() < (0.6 if family == "hotplug" else 0.35)
        tid = rng.randrange(0, nthreads) if nthreads > 1 else rng.choice([0, 1])
        r = rng.random()
        if family == "blocking":
            interval = rng.choice([[1, 4], [1, 1], [1, 1000], [3, 2]])
        elif r < 0.62:
            interval = None
        elif r < 0.72:
            interval = [0, 1]
        elif r < 0.9:
            interval = rng.choice([[1, 10], [1, 1], [5, 2]])
        else:
            interval = rng.choice([[-1, 1], [-1, 2], [-1, 1000]])
        reads = []
        for k in range(2):
            fam = family if family not in ("threads", "hotplug", "malformed_read", "blocking", "mixed") else \
                rng.choice(["subsecond", "zero", "decreasing", "guest", "big", "mixed", "mixed"])
            cur = evolve(rng, cur, fam, tck)
            if family == "hotplug" and rng.random() < 0.4:
                if rng.random() < 0.5 and len(cur) > 0:
                    cur = cur[:rng.randrange(0, len(cur))] if rng.random() < 0.5 else cur[:-1]
                else:
                    cur = cur + [[rng.randrange(0, 1000) for _ in range(10)]]
            data = render_snapshot(ncols, cur)
            if family == "malformed_read" and rng.random() < 0.25:
                data, _ = mutate_bytes(rng, data)
            reads.append(data.hex())
        op = {"op": "call", "vlen": vlen, "tck": tck, "fn": fn, "tid": tid, "interval": interval,
              "percpu": percpu, "reads": reads}
        ops.append(op)
    h = {"kind": "hist", "family": family, "vlen": vlen, "ops": ops}
    if family == "exact_tie":
        h["strict"] = True
    return h


def exhaustive_delta_histories(tck):
    """every combination of delta ∈ {-5, 0, 1, 30, 100} ticks on user/idle/iowait/steal (total from 0 to
    4 s, sub-second totals, decreasing counters), both functions, one blocking call each."""
    import itertools
    vals = [-5, 0, 1, 30, 100]
    cols = (0, 3, 4, 7)
    base = [1000] * 10
    a = render_snapshot(10, [base]).hex()
    for combo in itertools.product(vals, repeat=len(cols)):
        new = list(base)
        for c, v in zip(cols, combo):
            new[c] = base[c] + v
        b = render_snapshot(10, [new]).hex()
        for fn in ("percent", "times_percent"):
            yield {"kind": "hist", "family": "exhaustive", "vlen": 10, "ops": [
                {"op": "call", "vlen": 10, "tck": tck, "fn": fn, "tid": 1, "interval": [1, 1], "percpu": False,
                 "reads": [a, b]}]}


PROC_FAMILIES = ["steady", "zero_dt", "objects", "blocking", "hotplug", "negative", "ncpu_odd", "exact_tie", "vanish"]


def gen_proc_history(rng, impl, family):
    tck = impl.tck
    nobj = rng.choice([1, 2, 3]) if family == "objects" else rng.choice([1, 1, 2])
    pids = [4242] if rng.random() < 0.7 else [4242, 777]
    objs = [rng.choice(pids) for _ in range(nobj)]
    ncpu0 = rng.choice([1, 2, 4, 8, 64]) if family != "ncpu_odd" else rng.choice([None, 0, -1, 1])
    t = Fraction(rng.randrange(0, 2 ** 30), 1024)
    ut = {p: rng.randrange(0, 10 ** 6) for p in pids}
    st = {p: rng.randrange(0, 10 ** 6) for p in pids}
    if family == "exact_tie":
        # whole seconds everywhere, 16 s of wall time per step, j s of CPU: 100·j/16 = 6.25·j, for odd j exactly on a
        # x.x5 tie and exactly representable (see the call-history family of the same name)
        ncpu0 = rng.choice([1, 2, 4])
        t = Fraction(rng.randrange(0, 2 ** 20))
        ut = {p: tck * rng.randrange(0, 10 ** 4) for p in pids}
        st = {p: tck * rng.randrange(0, 10 ** 4) for p in pids}
    ops = []
    for _ in range(rng.randrange(3, 9)):
        o = rng.randrange(nobj)
        pid = objs[o]
        r = rng.random()
        if family == "negative" and r < 0.3:
            interval = rng.choice([[-1, 1], [-1, 100]])
        elif family == "blocking" or r > 0.85:
            interval = rng.choice([[1, 2], [1, 1], [1, 100]])
        elif r < 0.1:
            interval = [0, 1]
        else:
            interval = None
        ncpu = ncpu0
        if family == "hotplug" and rng.random() < 0.4:
            ncpu = rng.choice([1, 2, 4, 8])
        timer, times = [], []
        for k in range(2):
            if family == "exact_tie":
                t += 16
                ut[pid] += tck * rng.choice([0, 1, 1, 3, 5, 7, 2, 9, 11, 13, 15, 4])
                st[pid] += tck * rng.choice([0, 0, 0, 2, 16])
            else:
                if not (family == "zero_dt" and rng.random() < 0.4):
                    t += Fraction(rng.choice([1, 10, 256, 1024, 5000, 2 ** 20]), 1024)
                grow = rng.choice([0, 0, 1, 5, 100, 3000])
                ut[pid] += rng.randrange(0, grow + 1)
                st[pid] += rng.randrange(0, grow + 1)
            timer.append([t.numerator, t.denominator])
            times.append([ut[pid], st[pid]])
        op = {"op": "pcall", "tck": tck, "obj": o, "pid": pid, "interval": interval, "ncpu": ncpu,
              "timer": timer, "times": times}
        if family == "vanish" and rng.random() < 0.35:
            # the process is gone at the k-th read of /proc/<pid>/stat of this call (a non-blocking call reads once:
            # k = 1 is never reached there)
            op["vanish"] = rng.choice([0, 1])
        ops.append(op)
    h = {"kind": "phist", "family": family, "pids": pids, "objs": objs, "ops": ops}
    if family == "exact_tie":
        h["strict"] = True
    return h


# ------------------------------------------------------------------------------ the token hypothesis, made explicit

KERNEL_RE = re.compile(rb"0|[1-9][0-9]*")          # Python twin of Spec.isKernelTok
DIGIT_RE = re.compile(rb"[0-9]+")                  # … of Spec.isDigitTok
FLOAT_ALPHABET = frozenset(b"0123456789+-._eEiInNfFtTyYaA")     # … of Spec.inFloatAlphabet


def tok_class(t):
    """kernel ⊂ digit | foreign | between (neither: `1e3`, `+5`, `--1`, `nan` … outside the claim)."""
    if KERNEL_RE.fullmatch(t):
        return "kernel"
    if DIGIT_RE.fullmatch(t):
        return "digit"
    if any(b not in FLOAT_ALPHABET for b in t):
        return "foreign"
    return "between"


class TokenHypothesis:
    """HYPOTHESIS of C07_times_exact & co.: every counter token of a `/proc/stat` is in Spec.isKernelTok. Checked
    for EVERY file the generators of the claimed families script (and for the live file, live_validate): each
    token after the label of each `cpu…` line (and the digits of the label) with the Python twin of the
    recogniser; the twins themselves are validated against the Lean recognisers on a sample of the distinct
    tokens at the end of the run (`validate`)."""

    def __init__(self, res):
        self.res = res
        self.seen = set()
        self.bad = []

    def claimed_file(self, data, where):
        n = 0
        for line in data.split(b"\n"):
            if not line.startswith(b"cpu"):
                continue
            toks = line.split()
            if toks and toks[0] != b"cpu":
                toks = [toks[0][3:]] + toks[1:]
            else:
                toks = toks[1:]
            for t in toks:
                n += 1
                if t not in self.seen:
                    self.seen.add(t)
                    if not KERNEL_RE.fullmatch(t):
                        self.bad.append((where, t))
        self.res.count("token_hypothesis:claimed_files")
        self.res.count("token_hypothesis:tokens_checked", n)

    def note(self, toks):
        self.seen.update(toks)

    def validate(self, ctx, budget):
        res = self.res
        for where, t in self.bad[:3]:
            res.disagree("model", {"kind": "tokens", "tok": t.decode("latin1"), "where": where}, None, None, None,
                         note="a generator of a CLAIMED family scripted a token outside the kernel grammar Spec.isKernelTok")
        toks = sorted(self.seen)
        if len(toks) > budget:
            keep = set(ctx.rng.sample(toks, budget - 40))
            keep.update(toks[:20] + toks[-20:])
            toks = sorted(keep)
        out = ctx.driver().batch([{"op": "tokens", "toks": [t.hex() for t in toks]}])[0]
        n_bad = 0
        for t, g, dg, fo in zip(toks, out["grammar"], out["digit"], out["foreign"]):
            c = tok_class(t)
            want = "kernel" if g else "digit" if dg else "foreign" if fo else "between"
            if c != want or (g and not dg) or (dg and fo):
                n_bad += 1
                if n_bad <= 3:
                    res.disagree("model", {"kind": "tokens", "tok": t.decode("latin1")}, c, want, None,
                                 note="Python twin of the token recognisers disagrees with Spec.isKernelTok/isDigitTok/isForeignTok")
            res.count("token_hypothesis:lean_validated:" + want)
        res.count("token_hypothesis:distinct_tokens", len(self.seen))


FOREIGN_TOKENS = [b"x", b"12x", b"0x10", b"1,5", b"(3)", b"cpu", b"\xb2", b"1\x002", b"7%", b"4/2", b"1:2"]
DIGIT_NONKERNEL_TOKENS = [b"007", b"00", b"0000000000000000000042"]


def malformed_token_lines(rng, tck):
    """Malformed-token stream, systematically: ONE token of the first line / of a `cpuN` line replaced, at EVERY
    position 1..11, by a foreign token (float() raises for sure) or by a digit string no kernel prints (leading
    zeros: float() reads the value); also on lines too short for the field set (ValueError must win over
    TypeError) and beyond column nf (must be ignored). All inside the two claimed token classes, so the real
    parser is compared with the SPECIFICATION Spec.lineOutcome / linesOutcome (C07_valueError_exactly_when …)."""
    lines, tags = [], []
    for vlen in (7, 8, 10):
        for where in ("first", "cpu0", "cpu1"):
            for pos in range(1, 12):
                for ncols in (11, vlen, max(pos, 1), vlen - 2):
                    tok = rng.choice(FOREIGN_TOKENS) if rng.random() < 0.7 else rng.choice(DIGIT_NONKERNEL_TOKENS)
                    rows = [[str(rng.randrange(0, 10 ** rng.randrange(1, 9))).encode() for _ in range(ncols)]
                            for _ in range(3)]
                    if pos - 1 >= ncols:
                        continue
                    rows[{"first": 0, "cpu0": 1, "cpu1": 2}[where]][pos - 1] = tok
                    data = b"cpu  " + b" ".join(rows[0]) + b"\ncpu0 " + b" ".join(rows[1]) + b"\ncpu1 " + \
                        b" ".join(rows[2]) + b"\nintr 1 2 x\nbtime 17\n"
                    lines.append({"op": "times", "vlen": vlen, "tck": tck if tck is not None else rng.choice(TCK_POOL),
                                  "data": data.hex()})
                    nf = min(max(vlen, 7), 10)
                    tags.append("malformed_tok:%s:%s:%s" % (tok_class(tok), "converted" if pos <= nf else "beyond_nf",
                                                            "short_line" if ncols < nf else "full_line"))
    return lines, tags


def gen_numbered(rng, impl, witness=False):
    """Two kernel states whose `cpuN` lines carry their own numbers (a kernel prints online CPUs only)."""
    tck = impl.tck
    if witness:
        # C07_percpu_by_number_counterexample: CPU 1 (1 s used) goes offline, CPU 2 is then busy for 1 s
        z, u = [0] * 10, [tck] + [0] * 9
        return {"op": "percpul", "vlen": 10, "tck": tck, "ncols": 10,
                "w1": {"total": u, "cpus": [[0, z], [1, u], [2, z]], "other": []},
                "w2": {"total": u, "cpus": [[0, z], [2, u]], "other": []}, "family": "corpus-offline"}
    vlen = rng.choice([7, 8, 9, 10, 10])
    ncols = rng.randrange(vlen, 11)
    universe = sorted(rng.sample(range(0, 16), rng.randrange(1, 7)))
    if rng.random() < 0.25:
        universe = list(range(len(universe)))                 # the unnumbered special case
    base = {n: [rng.randrange(0, 10 ** 5) for _ in range(10)] for n in universe}
    new = {n: evolve(rng, [base[n]], rng.choice(["mixed", "big", "guest", "subsecond"]), tck)[0] for n in universe}
    l1, l2 = list(universe), list(universe)
    r = rng.random()
    fam = "same_online"
    if r < 0.25 and len(l2) > 1:
        l2.remove(rng.choice(l2[:-1]))                         # a CPU that is not the last goes offline
        fam = "offline_middle"
    elif r < 0.35 and len(l2) > 1:
        l2 = l2[:-1]
        fam = "offline_last"
    elif r < 0.5 and len(l1) > 1:
        l1.remove(rng.choice(l1))                              # a CPU comes online
        fam = "online_new"
    other = [rng.choice(OTHER_POOL) for _ in range(rng.randrange(0, 3))]
    agg = lambda d, ls: [sum(d[n][i] for n in ls) for i in range(10)]
    return {"op": "percpul", "vlen": vlen, "tck": tck, "ncols": ncols,
            "w1": {"total": agg(base, l1), "cpus": [[n, base[n]] for n in l1], "other": [o.hex() for o in other]},
            "w2": {"total": agg(new, l2), "cpus": [[n, new[n]] for n in l2], "other": [o.hex() for o in other]},
            "family": fam}


def run_numbered(ctx, impl, res, lines, cmp, tokhyp=None):
    """`cpuN` lines with their own numbers: Lean renderer vs twin, real `cpu_times(percpu=True)` vs ticks/USER_HZ in
    the order printed (C07_times_any_numbering), a thread's first real `cpu_percent(percpu=True)` vs the model
    = position by position (C07_percpu_numbered_by_position); when both states list the same CPUs that IS the
    per-number specification (C07_percpu_by_number_partial, compared as `spec`); when a CPU in the middle went
    offline it is not (C07_percpu_by_number_counterexample) — counted, never excused."""
    outs = ctx.driver().batch([{k: v for k, v in ln.items() if k != "family"} for ln in lines])
    bad = 0
    for ln, m in zip(lines, outs):
        if "bad" in m:
            raise RuntimeError("driver rejected %r: %s" % (ln, m))
        inp = {"kind": "percpul", "line": ln}
        ok = True
        datas = []
        for key, w in (("data1", ln["w1"]), ("data2", ln["w2"])):
            twin = render_snapshot(ln["ncols"], [c[1] for c in w["cpus"]], w["total"], [bytes.fromhex(o) for o in w["other"]],
                                   labels=[c[0] for c in w["cpus"]])
            if twin.hex() != m[key]:
                res.disagree("model", inp, twin.hex(), m[key], None, note="harness' numbered renderer differs from Spec.renderProcStatL")
                ok = False
            datas.append(twin)
            if tokhyp is not None:
                tokhyp.claimed_file(twin, "numbered")
        if not ok:
            bad += 1
            continue
        if impl.vlen != ln["vlen"]:
            impl.prime(ln["vlen"])
        impl.set_tck(ln["tck"])
        impl.reset_last()
        im_t = impl.times(datas[1])["per"]
        if not same_times(im_t, m["times"]["spec"]):
            res.disagree("spec", inp, im_t, m["times"]["model"], m["times"]["spec"],
                         note="cpu_times(percpu=True) on numbered cpuN lines differs from ticks/USER_HZ in the order printed")
            bad += 1
            continue
        if not same_times(im_t, m["times"]["model"]):
            res.disagree("model", inp, im_t, m["times"]["model"], m["times"]["spec"], note="numbered cpuN lines: model differs")
            bad += 1
            continue
        impl.reset_last()
        op = {"fn": "percent", "tid": 1, "interval": None, "percpu": True, "reads": [d.hex() for d in datas]}
        im = impl.call(op)
        same_online = m["same_online"]
        by_pos = [frac(x) for x in m["by_position"]]
        by_num = [frac(x) for x in m["by_number"]]
        mo = m["model"]
        res.count("numbered:" + ln.get("family", "?"))
        if mo.get("kind") != "ok" or [frac(x) for x in mo["val"]["v"]] != by_pos:
            res.disagree("model", inp, im, mo, m["by_position"], note="Lean model differs from Spec.perCpuPercent on numbered CPUs")
            bad += 1
            continue
        if same_online and by_pos != by_num:
            res.disagree("model", inp, im, m["by_position"], m["by_number"], note="same online CPUs but by-position ≠ by-number in Lean")
            bad += 1
            continue
        kind = "spec" if same_online else "model"
        want = by_num if same_online else by_pos
        exact = [frac(x) for x in m["exact"]]       # unrounded, position by position (= by number when same_online)
        if im.get("kind") != "ok" or im.get("nreads") != 2 or len(im["val"]["v"]) != len(want) or len(exact) != len(want) or \
                not all(cmp.close(x, q, 1e-4) and 0.0 <= x <= 100.0 and one_decimal(x) for x, q in zip(im["val"]["v"], exact)):
            res.disagree(kind, inp, im, mo, m["by_number"],
                         note="cpu_percent(percpu=True) on numbered cpuN lines differs from %s" %
                              ("the per-CPU-number specification (same CPUs online in both samples)" if same_online
                               else "the model (position by position)"))
            bad += 1
            continue
        if any(not cmp.is_rounded(x, r) for x, r in zip(im["val"]["v"], want)):
            res.count("near_boundary")
        if not same_online:
            differs = len(by_pos) != len(by_num) or any(abs(a - b) > Fraction(1, 20) for a, b in zip(by_pos, by_num))
            res.count("numbered:online_set_changed:by_number_%s" % ("DIFFERS(characterised)" if differs else "coincides"))
        res.case(("percpul", json.dumps(ln, sort_keys=True)), nontrivial=True)
    return bad


def nbn_histories(rng, tcks):
    """Goal of seeded C07-3: on ONE thread, for all four (function, percpu) variants: a non-blocking call, a BLOCKING
    call during which the CPUs idle, then a non-blocking call after a fully busy second. The last call must be
    measured from the blocking call's post-sleep sample (C07_blocking_sample_is_remembered): 100 % busy, ONE read."""
    hs = []
    for fn in ("percent", "times_percent"):
        for percpu in (False, True):
            for first in (True, False):
                for iv in (None, [0, 1]):
                    ncpu = rng.choice([1, 2, 3])
                    tck = rng.choice(tcks)
                    cur = [[rng.randrange(0, 1000) for _ in range(10)] for _ in range(ncpu)]
                    snaps = [render_snapshot(10, cur)]

                    def adv(col, amount):
                        nonlocal cur
                        cur = [[v + (amount if i == col else 0) for i, v in enumerate(c)] for c in cur]
                        snaps.append(render_snapshot(10, cur))
                    adv(3, 2 * tck)          # idle before the first call returns
                    adv(3, 10 * tck)         # idle up to the start of the blocking call
                    adv(3, 10 * tck)         # idle during the blocking call
                    adv(0, 10 * tck)         # fully busy afterwards
                    h = [x.hex() for x in snaps]
                    ops = []
                    if first:
                        ops.append({"fn": fn, "interval": iv, "reads": [h[0], h[1]]})
                    ops.append({"fn": fn, "interval": rng.choice([[1, 10], [10, 1]]), "reads": [h[2], h[3]]})
                    ops.append({"fn": fn, "interval": iv, "reads": [h[4], h[4]]})
                    ops = [dict(o, op="call", vlen=10, tck=tck, tid=1, percpu=percpu) for o in ops]
                    hs.append({"kind": "hist", "family": "nbn", "vlen": 10, "ops": ops})
    return hs


# ------------------------------------------------------------------------------ population of the per-thread store

# How many threads have a sample filed AT THE SAME TIME is a dimension of its own (seeded C07-4: a store that holds
# at most 64 entries): the histories above never have more than 5 callers. Here the population grows to hundreds
# (real threads) / thousands (scripted identifiers) of callers, and at every size of a structured list the counters
# advance and old, new, middle, least-recently-active and random members (at some sizes: ALL members) ask again:
# each must be measured against ITS OWN previous sample with ONE read.
IDENT_BASE = 0x7F3A00000000
IDENT_STRIDE = 0x801000          # pthread_t-like values: huge, distinct, page aligned
POP_SIZES = [1, 2, 3, 4, 5, 7, 8, 9, 12, 15, 16, 17, 24, 31, 32, 33, 48, 63, 64, 65, 96, 100, 127, 128, 129, 192, 255,
             256, 257, 384, 500, 511, 512, 513, 768, 1000, 1023, 1024, 1025, 1536, 2047, 2048, 2049, 3000, 4095, 4096,
             4097, 5000, 8191, 8192, 8193, 10000]
POP_SWEEPS = (33, 65, 129, 257, 513, 1025, 2049, 4097)
VARIANTS = [("percent", False), ("percent", True), ("times_percent", False), ("times_percent", True)]


class PopHistory:
    """builder of one population history (all calls non-blocking unless said otherwise)"""

    def __init__(self, rng, tck, mode, variants):
        self.rng, self.tck, self.mode = rng, tck, mode
        self.variants = list(variants)
        self.vlen = rng.choice([7, 8, 10, 10])
        self.ncols = rng.randrange(self.vlen, 11)
        self.cur = [[rng.randrange(0, 1000) for _ in range(10)] for _ in range(rng.choice([1, 1, 2]))]
        self.ops = []
        self.members = {v: [] for v in self.variants}       # insertion order of the callers, per function/variant
        self.last_call = {v: {} for v in self.variants}
        self.next_tid = 0 if mode == "real" else 1
        self.max_pop = 0

    def snap(self):
        # every CPU advances by at least one second between two snapshots (outside the region of C07-tp-subsecond: the
        # family is about WHOSE sample a call is measured against), differently each time, guest inside user
        rng, new = self.rng, []
        for c in self.cur:
            d = [rng.randrange(0, 400) for _ in range(8)] + [0, 0]
            d[3] += self.tck
            d[8], d[9] = rng.randrange(0, d[0] + 1), rng.randrange(0, d[1] + 1)
            new.append([a + b for a, b in zip(c, d)])
        self.cur = new
        return render_snapshot(self.ncols, self.cur).hex()

    def call(self, tid, variant, interval=None):
        fn, percpu = variant
        op = {"op": "call", "vlen": self.vlen, "tck": self.tck, "fn": fn, "tid": tid, "interval": interval,
              "percpu": percpu, "reads": [self.snap(), self.snap()]}
        if self.mode == "scripted":
            op["ident"] = IDENT_BASE + tid * IDENT_STRIDE
        self.ops.append(op)
        if tid not in self.last_call[variant]:
            self.members[variant].append(tid)
        self.last_call[variant][tid] = len(self.ops)
        self.max_pop = max(self.max_pop, len(self.members[variant]))

    def join(self, variant=None):
        """a thread that never called before takes its first sample (through one variant, or through all)"""
        tid = self.next_tid
        self.next_tid += 1
        for v in ([variant] if variant is not None else self.variants):
            self.call(tid, v)
        return tid

    def probes(self, variant, sweep=False):
        m = self.members[variant]
        if sweep:
            # every member (beyond 300: the two ends and a random 48 of the rest)
            out = list(m) if len(m) <= 300 else m[:8] + m[-8:] + self.rng.sample(m[8:-8], 48)
            self.rng.shuffle(out)
            return out
        lc = self.last_call[variant]
        cand = [m[0], m[-1], m[len(m) // 2], min(m, key=lambda t: lc[t]), m[1 % len(m)], m[-2 % len(m)],
                self.rng.choice(m), self.rng.choice(m)]
        out = []
        for t in cand:
            if t not in out:
                out.append(t)
        return out

    def history(self, sub):
        return {"kind": "hist", "family": "population", "sub": sub, "mode": self.mode, "vlen": self.vlen,
                "ops": self.ops, "max_pop": self.max_pop}


def pop_growth(rng, tck, mode, variants, pmax, sweeps=POP_SWEEPS):
    """the population grows to `pmax`; at every size of POP_SIZES members ask again (at the sizes of `sweeps`: all)"""
    b = PopHistory(rng, tck, mode, variants)
    for size in [x for x in POP_SIZES if x <= pmax]:
        for v in b.variants:
            while len(b.members[v]) < size:
                b.join(v if len(b.variants) == 1 or rng.random() < 0.5 else None)
        for v in b.variants:
            for t in b.probes(v, sweep=size in sweeps):
                b.call(t, v, interval=[0, 1] if rng.random() < 0.1 else None)
    return b.history("growth:%s:%d" % (mode, pmax))


def pop_random(rng, tck, mode, pmax):
    """`p` callers in random order: each call is made by a caller drawn at random (half of the draws from the whole
    population, half from a small hot set), through a random variant of a random subset"""
    variants = rng.sample(VARIANTS, rng.choice([1, 1, 2, 4]))
    b = PopHistory(rng, tck, mode, variants)
    p = rng.randrange(2, pmax + 1)
    tids = list(range(b.next_tid, b.next_tid + p))
    hot = rng.sample(tids, min(len(tids), 4))
    for _ in range(rng.randrange(p, 3 * p)):
        t = rng.choice(hot) if rng.random() < 0.3 else rng.choice(tids)
        r = rng.random()
        iv = None if r < 0.8 else [0, 1] if r < 0.9 else rng.choice([[1, 10], [-1, 1]])
        b.call(t, rng.choice(variants), interval=iv)
    return b.history("random:%s" % mode)


def pop_exhaustive(rng, tck, kmax, all_variants):
    """EVERY (population size k <= kmax, position j < k): k callers take their first sample one after the other, the
    counters advance, the j-th of them asks again (then the first and the last)."""
    out = []
    for k in range(1, kmax + 1):
        for j in range(k):
            for v in (VARIANTS if all_variants else [VARIANTS[(k + j) % 4]]):
                b = PopHistory(rng, tck, "scripted" if (k + j) % 2 else "real", [v])
                for _ in range(k):
                    b.join(v)
                m = b.members[v]
                for t in (m[j], m[0], m[-1]):
                    b.call(t, v)
                out.append(b.history("exhaustive:k<=%d" % kmax))
    return out


def population_histories(ctx, rng, tcks):
    """structured + random + small exhaustive parts of the population family (sizes from the tier's budget; the
    failing-input search multiplies them: up to 5000 callers)"""
    thorough = ctx.tier == "thorough"
    f = ctx.budget_factor
    kmax = 16 if thorough else 10
    hs = pop_exhaustive(rng, rng.choice(tcks), kmax, thorough)
    n_exh = len(hs)
    real_max = 600 if thorough else min(600, 130 * f)
    big = 5000 if thorough else min(5000, 520 * f)
    small = 600 if thorough else min(600, 70 * f)
    hs.append(pop_growth(rng, rng.choice(tcks), "real", [rng.choice(VARIANTS)], real_max, sweeps=(129, 513)))
    first = rng.randrange(4)
    for i in range(4):
        v = VARIANTS[(first + i) % 4]
        hs.append(pop_growth(rng, rng.choice(tcks), "scripted", [v], big if i == 0 else small,
                             sweeps=(65, 129, 513, 1025, 2049, 4097) if i == 0 else (65, 257)))
    for i in range(8 if thorough else 3):
        hs.append(pop_random(rng, rng.choice(tcks), "scripted", 400 if thorough else 120))
    hs.append(pop_random(rng, rng.choice(tcks), "real", 120 if thorough else 40))
    return hs, n_exh, kmax


def shrink_population(fails, ops):
    """reductions of a failing population history (the failing call is the last one; every test costs a start of
    the driver, so: a dozen directed attempts instead of delta debugging). Aim: one earlier call of the failing
    caller, as few calls of OTHER callers as it takes, the failing call."""
    last = ops[-1]
    same = [o for o in ops if (o["fn"], o["percpu"]) == (last["fn"], last["percpu"])]
    if len(same) < len(ops) and fails(same):
        ops = same
    mine = [i for i, o in enumerate(ops[:-1]) if o["tid"] == last["tid"]]
    if not mine:
        return ops

    def others_once(seq):
        seen, out = set(), []
        for o in seq:
            if o["tid"] != last["tid"] and o["tid"] not in seen:
                seen.add(o["tid"])
                out.append(o)
        return out
    # (a) the caller's FIRST call, then each other caller once (a store that drops the entry filed first);
    # (b) the caller's LAST earlier call, then what the others did after it (a store that drops the least recently used)
    for head, tail in (([ops[mine[0]]], others_once(ops[mine[0] + 1:-1])),
                       ([ops[mine[-1]]], others_once(ops[mine[-1] + 1:-1])),
                       ([ops[mine[-1]]], [o for o in ops[mine[-1] + 1:-1] if o["tid"] != last["tid"]])):
        if len(head) + len(tail) + 1 < len(ops) and fails(head + tail + [last]):
            lo, hi = 0, len(tail)                   # smallest k such that the LAST k of the others suffice
            while lo < hi:
                mid = (lo + hi) // 2
                if fails(head + tail[len(tail) - mid:] + [last]):
                    hi = mid
                else:
                    lo = mid + 1
            return head + tail[len(tail) - lo:] + [last]
    return ops


# ------------------------------------------------------------------------------ running & comparing

def run_world(ctx, impl, res, lines, tags, cmp, tokhyp=None):
    """lines: list of 'world'/'times' driver lines (each with its own vlen). A 'times' line (arbitrary bytes) is
    compared with the SPECIFICATION Spec.lineOutcome / linesOutcome whenever every converted token is in one of
    the two claimed classes (digit string / foreign), else with the model only."""
    outs = ctx.driver().batch(lines)
    bad = 0
    for ln, tag, m in zip(lines, tags, outs):
        if "bad" in m:
            raise RuntimeError("driver rejected %r: %s" % (ln, m))
        if impl.vlen != ln["vlen"]:
            flds = impl.prime(ln["vlen"])
        impl.set_tck(ln["tck"])
        res.count("tck:%d" % ln["tck"])
        if ln["op"] == "world":
            data = bytes.fromhex(m["data"])
            twin = render_snapshot(ln["ncols"], ln["cpus"], ln["total"], [bytes.fromhex(o) for o in ln["other"]])
            if twin != data:
                res.disagree("model", {"kind": "world", "line": ln}, twin.hex(), m["data"], None,
                             note="harness' snapshot renderer differs from the Lean renderer")
                bad += 1
                continue
            if tokhyp is not None:
                tokhyp.claimed_file(data, "world:" + tag)
        else:
            data = bytes.fromhex(ln["data"])
            if tokhyp is not None:
                tokhyp.note(t for l in data.split(b"\n") if l.startswith(b"cpu") for t in l.split()[1:12])
        im = impl.times(data)
        inp = {"kind": "world" if ln["op"] == "world" else "raw", "line": ln}
        spec = m.get("spec")
        res.count("world:" + tag)
        nontriv = False
        for key in ("sys", "per"):
            i_, mo = im[key], m["model"][key]
            sp = spec[key] if spec is not None else None
            res.count("times_outcome:%s:%s" % (key, i_["kind"] if i_["kind"] == "ok" else i_["exc"]))
            ok_model = same_times(i_, mo)
            in_spec_domain = sp is not None and ln["op"] == "world" and ln["ncols"] >= min(max(ln["vlen"], 7), 10)
            raw_claimed = sp is not None and ln["op"] == "times" and m.get("claimed", {}).get(key)
            if ln["op"] == "times":
                res.count("raw_bytes:%s:%s" % (key, "claimed(compared with the specification)" if raw_claimed
                                               else "unclaimed_tokens(model only)"))
            if in_spec_domain or raw_claimed:
                if not same_times(i_, sp):
                    res.disagree("spec", inp, i_, mo, sp, note=("cpu_times(%s) differs from ticks/USER_HZ in kernel order" % key)
                                 if in_spec_domain else ("cpu_times(%s) on malformed bytes: outcome differs from Spec.lineOutcome "
                                                         "(ValueError exactly when a converted token is not a number, else "
                                                         "TypeError when too few, tokens beyond column nf ignored)" % key))
                    bad += 1
                    continue
                nontriv = True
                if raw_claimed and tag.startswith("malformed_tok"):
                    res.count("%s:%s:%s" % (tag, key, i_["kind"] if i_["kind"] == "ok" else i_["exc"]))
            if not ok_model:
                res.disagree("model", inp, i_, mo, sp, note="cpu_times(%s) differs from the Lean model" % key)
                bad += 1
        res.case(("world", ln), nontrivial=nontriv or tag.startswith("malformed"),
                 sample={"family": tag, "line": {k: v for k, v in ln.items() if k != "data"}, "impl": im["sys"]}
                 if res.evaluations in (0, 3) else None)
    return bad


def same_times(i_, m):
    if i_["kind"] != m["kind"]:
        return False
    if i_["kind"] == "exc":
        return i_["exc"] == m["exc"]
    a, b = i_["val"], m["val"]
    if len(a) != len(b):
        return False
    if a and isinstance(a[0], list):
        return all(len(x) == len(y) and all(close_rel(p, frac(q)) for p, q in zip(x, y)) for x, y in zip(a, b))
    return all(close_rel(p, frac(q)) for p, q in zip(a, b))


def close_rel(x, q):
    if math.isinf(x) or math.isnan(x):
        return False
    return abs(Fraction(x) - q) <= abs(q) * Fraction(1, 10 ** 12)


def flatten(val):
    """(list of numbers, shape key) of a Val in driver or impl form."""
    k, v = val["k"], val["v"]
    if k == "num":
        return [v], (k, 1)
    if k in ("nums", "tup"):
        return list(v), (k, len(v))
    return [x for t in v for x in t], (k, tuple(len(t) for t in v))


def totals_for(total_out, shape):
    """per returned number: (elapsed total, guest advance, guest_nice advance) of its CPU (exact)."""
    v = total_out["val"]["v"]
    if total_out["val"]["k"] == "tup":
        n = 1 if shape[0] == "num" else shape[1]
        return [tuple(frac(x) for x in v)] * n
    out = []
    per = [1] * len(v) if shape[0] == "nums" else list(shape[1])
    for t, n in zip(v, per):
        out += [tuple(frac(x) for x in t)] * n
    return out


def compare_call(res, cmp, hist, idx, op, im, m, nf, tp_max_one, findings_on):
    """Compare one executed call with the driver's answer. Returns 'ok' | 'spec' | 'model'."""
    inp = dict(hist, ops=hist["ops"][:idx + 1])
    mo, sp, ex, tot = m["model"], m["spec"], m["exact"], m["total"]

    def dis(kind, note, finding=None):
        res.disagree(kind, inp, im, mo, sp, note="step %d: %s" % (idx, note), finding=finding)
        return kind if finding is None else "ok"

    if im.get("kind") not in ("ok", "exc"):
        return dis("model", "harness could not run the call: %r" % (im,))
    if sp["kind"] == "starved" or mo["kind"] == "starved":
        return dis("model", "scenario starved the model of reads")
    if im["kind"] != sp["kind"] or (im["kind"] == "exc" and im["exc"] != sp["exc"]):
        return dis("spec", "outcome kind/exception class differs from the specification")
    if im["nreads"] != sp["nreads"]:
        return dis("spec", "number of /proc/stat reads differs (impl %s, spec %s)" % (im["nreads"], sp["nreads"]))
    if mo["kind"] != sp["kind"] or mo.get("exc") != sp.get("exc") or mo["nreads"] != sp["nreads"]:
        return dis("model", "Lean model and Lean spec disagree on the outcome kind")
    blocking = op["interval"] is not None and Fraction(*op["interval"]) > 0
    if "events" in im:
        # the externally visible events in ORDER: a blocking call samples, THEN sleeps exactly `interval`, THEN samples
        # again (a failing first read ends it before the sleep); a non-blocking call never sleeps
        n = sp["nreads"]
        want_ev = (["R", ["S", im["interval_py"]], "R"][:1 if n < 2 else 3]) if blocking else ["R"] * n
        if im["events"] != want_ev:
            res.count("events:MISMATCH")
            return dis("spec", "order/argument of the samples and of time.sleep differs: observed %s, the blocking form is "
                               "sample, time.sleep(interval), sample (expected %s)" % (im["events"], want_ev))
        res.count("events:%s" % ("blocking:R,S(interval),R" if blocking and n >= 2 else "blocking:first_read_failed" if blocking
                                 else "nonblocking:%dR" % n))
    if im["kind"] == "exc":
        if im["slept"] != (1 if (blocking and im["nreads"] >= 2) else 0):
            return dis("spec", "time.sleep called %d times on a failing call" % im["slept"])
        return "ok"
    if im["slept"] != (1 if blocking else 0):
        return dis("spec", "time.sleep called %d times (blocking=%s)" % (im["slept"], blocking))
    if not im["types_ok"]:
        return dis("spec", "result is not made of floats")
    xs, shape = flatten(im["val"])
    rs, shape_s = flatten(sp["val"])
    qs, _ = flatten(ex["val"])
    ms, shape_m = flatten(mo["val"])
    if shape != shape_s or shape_m != shape_s:
        return dis("spec" if shape != shape_s else "model", "shape of the result differs: impl %s spec %s model %s" % (shape, shape_s, shape_m))
    if op["percpu"] and m.get("lens", {}).get("kind") == "ok":
        l1, l2 = [int(frac(x)) for x in m["lens"]["val"]["v"]]
        n_out = len(im["val"]["v"])
        if n_out != min(l1, l2):
            return dis("spec", "per-CPU result has %d entries, the two samples have %d and %d CPUs" % (n_out, l1, l2))
        res.count("percpu_call:cpus_%s" % ("same" if l1 == l2 else "fewer_now" if l2 < l1 else "more_now"))
    tots = totals_for(tot, shape)
    if len(tots) != len(xs):
        return dis("model", "driver's totals do not line up with the result")
    max_ticks = stat_max_ticks(op["reads"])
    is_tp = op["fn"] == "times_percent"
    width = shape[1] if shape[0] == "tup" else None
    verdict = "ok"
    for j, (x, r, q, mm, (T, g_adv, gn_adv)) in enumerate(zip(xs, rs, qs, ms, tots)):
        r, q, mm = frac(r), frac(q), frac(mm)
        if math.isnan(x) or math.isinf(x):
            return dis("spec", "non-finite result")
        if not (0.0 <= x <= 100.0):
            return dis("spec", "value %r outside [0, 100]" % x)
        if not one_decimal(x):
            return dis("spec", "value %r is not rounded to one decimal" % x)
        col = None
        if is_tp:
            w = width if width is not None else shape[1][0] if shape[1] else 0
            if shape[0] == "tups":
                # position within its own tuple
                acc = 0
                for n in shape[1]:
                    if j < acc + n:
                        col = j - acc
                        break
                    acc += n
            else:
                col = j
        slack = float_slack(max_ticks, op["tck"], T, nf)
        if slack > 1e-9:
            res.count("float_slack>1e-9")
        if T == 0:
            res.count("entry:zero_total")
            if is_tp and col is not None and col >= 8:
                # no time elapsed: the property says nothing about the guest columns; model only
                if not cmp.close(x, mm, 1e-9):
                    return dis("model", "guest share with zero total differs from the model")
                continue
            if x != 0.0:
                if not is_tp and g_adv > 0 and gn_adv > 0:
                    res.count("float_cancellation_corner")
                    continue
                return dis("spec", "non-zero result although no time elapsed")
            continue
        target = clamp100(q) if is_tp else q
        in_region = is_tp and tp_max_one and 0 < T < 1
        if in_region:
            res.count("entry:subsecond_tp")
        else:
            res.count("entry:tp" if is_tp else "entry:percent")
        if hist.get("strict") and T.denominator == 1 and T.numerator & (T.numerator - 1) == 0:
            # exact-tie family, elapsed total a power of two (in whole seconds): every input, every intermediate
            # (busy/all, 100/all, delta·scale) and the exact result are binary fractions the doubles represent exactly,
            # so round(x, 1) has ONE right answer — the half-even one of Spec.IsRound1
            res.count("exact_tie:compared_strictly")
            if (q * 20) % 2 == 1:
                res.count("exact_tie:on_a_tie(x.x5)")
            if not cmp.is_rounded(x, r):
                return dis("spec", "exact tie: value %r is not the exact %s rounded half-even to one decimal (%s)"
                           % (x, float(q), float(r)))
            if mm != r:
                return dis("model", "Lean model %s and Lean spec %s differ" % (mm, r))
            continue
        if cmp.close(x, target, slack):
            if not cmp.is_rounded(x, r):
                res.count("near_boundary")
            if not in_region and mm != r:
                return dis("model", "Lean model %s and Lean spec %s differ outside the finding region" % (mm, r))
            continue
        # differs from the specification
        if in_region and cmp.close(x, mm, slack):
            # recorded defective behaviour: share of one second instead of the elapsed time
            res.known_seen[FINDING_ID] = res.known_seen.get(FINDING_ID, 0) + 1
            if findings_on:
                if verdict == "ok":
                    verdict = "finding"
                continue
            return dis("spec", "cpu_times_percent share differs from 100*delta/total (total=%s s < 1 s): got %r, expected %s" % (T, x, float(target)))
        return dis("spec", "value %r differs from the exact %s (rounded %s) by more than the tolerance" % (x, float(target), float(r)))
    if verdict == "finding":
        res.disagree("spec", inp, im, mo, sp, note="step %d: known finding %s (shares of one second when total < 1 s)" % (idx, FINDING_ID),
                     finding=FINDING_ID)
    return "ok"


def run_histories(ctx, impl, res, hists, cmp, findings_on=True, impl_results=None, tokhyp=None):
    """Execute call histories on impl and model; return list of verdict per history."""
    lines = []
    for h in hists:
        lines.append({"op": "reset"})
        lines.extend(h["ops"])
        if tokhyp is not None and h.get("family") != "malformed_read":
            for o in h["ops"]:
                for r in set(o["reads"]):
                    tokhyp.claimed_file(bytes.fromhex(r), "hist:" + h["family"])
    outs = ctx.driver().batch(lines)
    tp_max_one = ctx.fact_value("tpMaxOne")
    verdicts = []
    i = 0
    for h in hists:
        i += 1
        if impl_results is None:
            if impl.vlen != h["vlen"]:
                impl.prime(h["vlen"])
            impl.reset_last()
            if h["ops"]:
                impl.set_tck(h["ops"][0]["tck"])
        nf = min(max(h["vlen"], 7), 10)
        v = "ok"
        for idx, op in enumerate(h["ops"]):
            m = outs[i]
            i += 1
            if "bad" in m:
                raise RuntimeError("driver rejected %r: %s" % (op, m))
            if v != "ok":
                continue
            im = impl.call(op) if impl_results is None else impl_results[idx]
            v = compare_call(res, cmp, h, idx, op, im, m, nf, tp_max_one, findings_on)
            if h.get("family") == "population" and v == "ok" and im.get("pop") is not None and "pop" in m:
                # the dictionaries are internal: how many entries the real one holds next to the model's container is
                # COUNTED (a store that prunes entries nobody can ask for again would differ here without being wrong)
                res.count("population:dict_len_%s" % ("as_modelled" if im["pop"] == m["pop"] else "NOT_as_modelled"))
                p_ = m["pop"]
                res.count("population:call_at_size:%s" % ("<=8" if p_ <= 8 else "<=64" if p_ <= 64 else "<=128" if p_ <= 128
                                                          else "<=512" if p_ <= 512 else "<=1024" if p_ <= 1024 else ">1024"))
        verdicts.append(v)
    return verdicts, len(lines)


def concurrent_runs(ctx, impl, res, cmp, runs):
    """Really concurrent callers: in each phase the file is fixed and all participating threads
    call the same front end at once (released together by a barrier). Each thread's result must be
    the model's result for that thread — the model being run serially, phase by phase, in ANY order of
    the threads inside a phase (thread independence makes the order irrelevant)."""
    done = 0
    for _ in range(runs):
        rng = ctx.rng
        vlen = rng.choice([7, 8, 9, 10])
        nf = vlen
        nthreads = rng.choice([2, 3, 4])
        nphases = rng.randrange(3, 7)
        fn = rng.choice(["percent", "times_percent"])
        percpu = rng.random() < 0.4
        cur = [[rng.randrange(0, 1000) for _ in range(10)] for _ in range(rng.choice([1, 2, 4]))]
        impl.prime(vlen)
        impl.pick_tck(rng)
        impl.reset_last()
        impl.feed = None
        ops, results = [], []
        for ph in range(nphases):
            cur = evolve(rng, cur, rng.choice(["mixed", "subsecond", "big", "decreasing"]), impl.tck)
            data = render_snapshot(10, cur)
            with open(impl.statpath, "wb") as f:
                f.write(data)
            part = [t for t in range(1, nthreads + 1) if rng.random() < 0.7] or [1]
            barrier = threading.Barrier(len(part))
            boxes = {}

            def work(t, barrier=barrier):
                ident = threading.get_ident()
                impl.reads_by_thread[ident] = 0
                f_ = impl.ps.cpu_percent if fn == "percent" else impl.ps.cpu_times_percent
                barrier.wait(30)
                try:
                    r = f_(interval=None, percpu=percpu)
                    if percpu:
                        val = {"k": "nums", "v": [float(x) for x in r]} if fn == "percent" else \
                            {"k": "tups", "v": [[float(x) for x in tt] for tt in r]}
                    else:
                        val = {"k": "num", "v": float(r)} if fn == "percent" else {"k": "tup", "v": [float(x) for x in r]}
                    return {"kind": "ok", "nreads": impl.reads_by_thread[ident], "val": val, "slept": 0, "types_ok": _types_ok(r)}
                except Exception as e:  # noqa: BLE001
                    return {"kind": "exc", "exc": type(e).__name__, "nreads": impl.reads_by_thread[ident], "slept": 0}
            ths = []
            for t in part:
                box = []
                boxes[t] = box
                th = threading.Thread(target=lambda t=t, box=box: box.append(impl.worker(t - 1).call(lambda: work(t))))
                th.start()
                ths.append(th)
            for th in ths:
                th.join(90)
            for t in part:
                ops.append({"op": "call", "vlen": vlen, "tck": impl.tck, "fn": fn, "tid": t, "interval": None,
                            "percpu": percpu, "reads": [data.hex(), data.hex()]})
                results.append(boxes[t][0] if boxes[t] else {"kind": "harness-timeout"})
        h = {"kind": "hist", "family": "concurrent", "vlen": vlen, "ops": ops, "concurrent": True}
        run_histories(ctx, impl, res, [h], cmp, impl_results=results)
        res.case(h, nontrivial=True)
        res.count("feature:fam:concurrent")
        done += 1
    return done


def history_features(h, tck):
    feats = set()
    tids = {o["tid"] for o in h["ops"]}
    if len(tids) > 1:
        feats.add("threads>1")
    for o in h["ops"]:
        if o["percpu"]:
            feats.add("percpu")
        if o["interval"] is not None:
            f = Fraction(*o["interval"])
            feats.add("blocking" if f > 0 else "negative" if f < 0 else "interval0")
        feats.add(o["fn"])
    feats.add("fam:" + h["family"])
    return feats


def compare_pcall(res, cmp, hist, idx, op, im, m, ncpu_changed, dt, scale_delta=False, findings_on=True):
    """`ncpu_changed`: cpu_count() differs from the one at the object's previous call. The specification makes
    no exception for that; with the code as found (`scale_delta` false) such calls lie in the region of the
    finding C07-cpu-count-change, where the recorded defective value (the as-found model) is accepted too."""
    inp = dict(hist, ops=hist["ops"][:idx + 1])
    mo, sp, ex = m["model"], m["spec"], m["exact"]

    def dis(kind, note, finding=None):
        res.disagree(kind, inp, im, mo, sp, note="step %d: %s" % (idx, note), finding=finding)
        return kind if finding is None else "ok"
    ref = sp
    kind = "spec"
    if ref["kind"] == "starved":
        return dis("model", "scenario starved the model")
    if im["kind"] != ref["kind"] or (im["kind"] == "exc" and im["exc"] != ref["exc"]):
        return dis(kind, "outcome kind/exception class differs")
    blocking = op["interval"] is not None and Fraction(*op["interval"]) > 0
    if im["kind"] == "exc":
        if im["exc"] == "NoSuchProcess":
            # the process vanished at the read before (0) or after (1) the sleep: the clock was read just before it
            late = blocking and op.get("vanish") == 1
            res.count("pentry:vanished:%s" % ("after_the_sleep" if late else "before_any_sleep"))
            if im["slept"] != (1 if late else 0) or im["timer_reads"] != (2 if late else 1):
                return dis(kind, "vanished process: slept %d, timer read %d times" % (im["slept"], im["timer_reads"]))
            return "ok"
        if im["slept"] or im["timer_reads"]:
            return dis(kind, "negative interval had effects before raising")
        return "ok"
    if im["slept"] != (1 if blocking else 0) or im["timer_reads"] != (2 if blocking else 1):
        return dis(kind, "sleep/timer use differs: slept %d, timer read %d times" % (im["slept"], im["timer_reads"]))
    if "sleep_args" in im and im["sleep_args"] != ([im["interval_py"]] if blocking else []):
        return dis(kind, "time.sleep called with %s, the interval is %r" % (im["sleep_args"], im["interval_py"]))
    if not im["types_ok"]:
        return dis(kind, "result is not a float")
    x = im["val"]
    if math.isnan(x) or math.isinf(x) or not one_decimal(x):
        return dis(kind, "value %r is not a number rounded to one decimal" % x)
    q, r, mm = frac(ex["val"]), frac(sp["val"]), frac(mo["val"])
    if ncpu_changed and not scale_delta:
        # region of C07-cpu-count-change: stamps are timer()*num_cpus with two different num_cpus
        res.count("pentry:ncpu_changed(region)")
        if cmp.close(x, q, 1e-9) and abs(x - float(mm)) > 0.05 + 1e-6 * (abs(float(mm)) + 1):
            res.count("pentry:ncpu_changed:matches_spec_only")
            return "ok"
        if not cmp.close(x, mm, 1e-6 * (abs(float(mm)) + 1)):
            return dis("spec", "CPU count changed: value %r is neither 100*cpu/wall = %s nor the recorded "
                               "defective value %s" % (x, float(q), float(mm)))
        if cmp.close(x, q, 1e-9):
            res.count("pentry:ncpu_changed:coincides_with_spec")
            return "ok"
        res.known_seen[FINDING_NCPU] = res.known_seen.get(FINDING_NCPU, 0) + 1
        if x < 0:
            res.count("pentry:ncpu_changed:negative_percentage")
        if findings_on:
            return dis("spec", "known finding %s: cpu_count() changed between two calls, got %r, expected %s"
                       % (FINDING_NCPU, x, float(q)), finding=FINDING_NCPU)
        return dis("spec", "cpu_count() changed between two calls on one Process object: got %r, 100*cpu/wall = %s"
                   % (x, float(q)))
    if ncpu_changed:
        res.count("pentry:ncpu_changed(strict)")
    # double rounding of the inputs: timer()*n and ticks/USER_HZ are doubles
    n_eff = op["ncpu"] if (op["ncpu"] is not None and op["ncpu"] >= 1) else 1
    tmax = max(abs(float(Fraction(*t))) for t in op["timer"]) * n_eff
    pmax = max(max(u, s) for u, s in op["times"]) / op["tck"]
    slack = 1e-12
    if dt is not None and dt != 0:
        adt = abs(float(dt))
        slack += abs(float(q)) * (8 * ulp_of(tmax) / (adt * n_eff) + 16 * EPS) + 100.0 * 8 * ulp_of(pmax) / adt
    if slack > 1e-9:
        res.count("float_slack>1e-9")
    res.count("pentry:zero" if q == 0 else "pentry:value")
    if hist.get("strict") and dt is not None and dt > 0 and dt.denominator == 1 and dt.numerator & (dt.numerator - 1) == 0:
        res.count("exact_tie:compared_strictly")
        if (q * 20) % 2 == 1:
            res.count("exact_tie:on_a_tie(x.x5)")
        if not cmp.is_rounded(x, r):
            return dis("spec", "exact tie: value %r is not the exact %s rounded half-even to one decimal (%s)" % (x, float(q), float(r)))
    if not cmp.close(x, q, slack):
        return dis("spec", "value %r differs from 100*cpu/wall = %s (rounded %s)" % (x, float(q), float(r)))
    if not cmp.is_rounded(x, r):
        res.count("near_boundary")
    if mm != r:
        return dis("model", "Lean model %s and Lean spec %s differ" % (mm, r))
    return "ok"


def run_proc_histories(ctx, impl, res, hists, cmp, findings_on=None):
    scale_delta = ctx.fact_value("procScaleDelta")
    if findings_on is None:
        findings_on = any(f.get("id") == FINDING_NCPU for f in (ctx.findings or []))
    lines = []
    for h in hists:
        lines.append({"op": "reset"})
        lines.extend({k: v for k, v in o.items() if k != "pid"} for o in h["ops"])
    outs = ctx.driver().batch(lines)
    verdicts = []
    i = 0
    for h in hists:
        i += 1
        impl.proc_setup(h["pids"])
        v = "ok"
        try:
            objs = [impl.ps.Process(pid) for pid in h["objs"]]
        except Exception as e:  # noqa: BLE001
            res.disagree("model", h, {"kind": "exc", "exc": type(e).__name__}, None, None,
                         note="could not create Process objects on the fake procfs")
            i += len(h["ops"])
            verdicts.append("model")
            continue
        last_n, last_w = {}, {}
        for idx, op in enumerate(h["ops"]):
            m = outs[i]
            i += 1
            if "bad" in m:
                raise RuntimeError("driver rejected %r: %s" % (op, m))
            if v != "ok":
                continue
            neg = op["interval"] is not None and Fraction(*op["interval"]) < 0
            blocking = op["interval"] is not None and Fraction(*op["interval"]) > 0
            n_now = op["ncpu"] if (op["ncpu"] is not None and op["ncpu"] >= 1) else 1
            changed = (not neg) and (not blocking) and op["obj"] in last_n and last_n[op["obj"]] != n_now
            ws = [Fraction(*t) for t in op["timer"]]
            dt = (ws[1] - ws[0]) if blocking else ((ws[0] - last_w[op["obj"]]) if op["obj"] in last_w else None)
            im = impl.pcall(objs, op)
            v = compare_pcall(res, cmp, h, idx, op, im, m, changed, dt, scale_delta, findings_on)
            vanished = op.get("vanish") == 0 or (blocking and op.get("vanish") == 1)
            if not neg and not vanished:
                last_n[op["obj"]] = n_now
                last_w[op["obj"]] = ws[1] if blocking else ws[0]
        verdicts.append(v)
    return verdicts, len(lines)


# ------------------------------------------------------------------------------ the live /proc/stat

LIVE_FIRST = re.compile(rb"cpu  (\d+(?: \d+)*)")
LIVE_CPU = re.compile(rb"cpu(\d+) (\d+(?: \d+)*)")


def live_validate(ctx, impl, res):
    """The token grammar of C07_times_exact / C07_token_grammar is an assumption about the kernel: validate the
    REAL /proc/stat of this host against it on every run — every counter token must be in Spec.isKernelTok (asked
    of the Lean driver), and when the file has the layout the renderer knows (≤ 10 columns, CPUs numbered 0..n-1)
    the Lean renderer must reproduce it byte for byte from the parsed numbers. Returns a world line or None."""
    try:
        with open("/proc/stat", "rb") as f:
            data = f.read()
    except OSError as e:
        res.count("live:unreadable:" + type(e).__name__)
        return None
    lines = data.split(b"\n")
    if not data.endswith(b"\n"):
        res.disagree("model", {"kind": "live"}, data[:200].hex(), None, None, note="live /proc/stat does not end with a newline")
        return None
    lines = lines[:-1]
    m0 = LIVE_FIRST.fullmatch(lines[0]) if lines else None
    if m0 is None:
        res.disagree("model", {"kind": "live"}, lines[0].hex() if lines else "", None, None,
                     note="first line of the live /proc/stat is not `cpu` + two blanks + decimal columns")
        return None
    rows, ids, k = [], [], 1
    while k < len(lines) and lines[k].startswith(b"cpu"):
        mk = LIVE_CPU.fullmatch(lines[k])
        if mk is None:
            res.disagree("model", {"kind": "live"}, lines[k].hex(), None, None,
                         note="a cpuN line of the live /proc/stat is not `cpuN` + one blank + decimal columns")
            return None
        ids.append(mk.group(1))
        rows.append(mk.group(2).split(b" "))
        k += 1
    other = lines[k:]
    if any(l.startswith(b"cpu") for l in other):
        res.disagree("model", {"kind": "live"}, b"\n".join(other)[:200].hex(), None, None,
                     note="a line starting with `cpu` follows the block of CPU lines in the live /proc/stat")
        return None
    first = m0.group(1).split(b" ")
    toks = list(first) + ids + [t for r in rows for t in r]
    out = ctx.driver().batch([{"op": "tokens", "toks": [t.hex() for t in toks]}])[0]
    badtok = [t for t, g, v in zip(toks, out["grammar"], out["value"]) if not g or v != int(t)]
    res.count("live:tokens_checked", len(toks))
    if badtok:
        res.disagree("model", {"kind": "live"}, [t.decode("latin1") for t in badtok[:5]], None, None,
                     note="tokens of the live /proc/stat outside the kernel token grammar (Spec.isKernelTok)")
        return None
    ncols = len(first)
    if any(len(r) != ncols for r in rows):
        res.disagree("model", {"kind": "live"}, None, None, None, note="live CPU lines have different numbers of columns")
        return None
    if ncols > 10 or [int(i) for i in ids] != list(range(len(ids))):
        res.count("live:layout_not_renderable(ncols=%d,ids_consecutive=%s)" % (ncols, [int(i) for i in ids] == list(range(len(ids)))))
        return None
    pad = lambda r: [int(x) for x in r] + [0] * (10 - len(r))
    line = world_line(ncols, impl.tck, ncols, pad(first), [pad(r) for r in rows], other)
    twin = render_snapshot(ncols, line["cpus"], line["total"], other)
    if twin != data:
        res.disagree("model", {"kind": "live"}, data[:300].hex(), twin[:300].hex(), None,
                     note="re-rendering the parsed live /proc/stat does not reproduce it byte for byte")
        return None
    res.count("live:rerendered_byte_identical(cpus=%d,ncols=%d)" % (len(rows), ncols))
    return line


UNCLAIMED_TOKENS = [b"1e3", b"+5", b"nan", b"1_0", b"inf", b"-0", b"1.5", b"0x1p3", b"Infinity", b".5", b"5.", b"00", b"007", b"-3"]


def unclaimed_tokens(ctx, impl, res):
    """Tokens `float()` accepts but no kernel prints are OUTSIDE the grammar and outside the claim. They are run
    through the real parser all the same; what it does is recorded in the evidence (never compared)."""
    toks = UNCLAIMED_TOKENS
    out = ctx.driver().batch([{"op": "tokens", "toks": [t.hex() for t in toks]}])[0]
    impl.prime(10)
    impl.set_tck(impl.host_tck)
    for t, g in zip(toks, out["grammar"]):
        if g:
            res.disagree("model", {"kind": "tokens", "tok": t.decode()}, None, None, None,
                         note="a token no kernel prints is inside Spec.isKernelTok")
            continue
        data = b"cpu  1 2 " + t + b" 4 5 6 7 8 9 10\ncpu0 1 2 " + t + b" 4 5 6 7 8 9 10\n"
        im = impl.times(data)["sys"]
        if im["kind"] == "ok":
            v = im["val"][2]
            kind = "nan" if v != v else "inf" if v in (float("inf"), float("-inf")) else "number"
        else:
            kind = im["exc"]
        res.count("unclaimed_token:%s:%s" % (t.decode(), kind))
        res.case(("unclaimed", t), nontrivial=False)


# ------------------------------------------------------------------------------ fresh import

IMPORT_FAMILIES = ["importer_first", "other_first", "worker_imports", "sys_read_fails", "per_read_fails",
                   "zero_cpus_at_import", "mixed"]


def gen_import_case(rng, impl, family):
    tck = impl.tck
    vlen = rng.choice([7, 8, 9, 10, 10])
    ncols = rng.randrange(vlen, 11)
    ncpu = rng.choice([1, 2, 4])
    base = rng.choice([0, 1000, 10 ** 6])
    cur = [[base + rng.randrange(0, 1000) for _ in range(10)] for _ in range(ncpu)]
    first_line_only = render_snapshot(vlen, cur)         # what set_scputimes_ntuple sees: vlen values
    cur = evolve(rng, cur, "mixed", tck)
    r0 = render_snapshot(ncols, cur)
    cur = evolve(rng, cur, "mixed", tck)
    r1 = render_snapshot(ncols, cur if family != "zero_cpus_at_import" else [], agg=[sum(c[i] for c in cur) for i in range(10)])
    if family == "sys_read_fails":
        r0 = r0.replace(b"cpu  ", b"cpu  x", 1)
    if family == "per_read_fails":
        r1 = r1.replace(b"cpu0 ", b"cpu0 12x ", 1)
    ops = []
    variants = [("percent", False), ("percent", True), ("times_percent", False), ("times_percent", True)]
    rng.shuffle(variants)
    for k in range(rng.randrange(2, 6) if family != "importer_first" else rng.randrange(4, 7)):
        if family == "importer_first":
            who = 0 if k < 4 else rng.choice([0, 0, 1])
        elif family == "other_first":
            who = 1 if k == 0 else rng.choice([0, 1, 2])
        else:
            who = rng.choice([0, 0, 1, 2])
        fn = rng.choice(["percent", "times_percent"])
        percpu = rng.random() < 0.45
        r = rng.random()
        interval = None if r < 0.7 else [0, 1] if r < 0.85 else [1, 4]
        if family == "importer_first" and k < 4:
            # the importing thread's FIRST call through each function/variant: measured since import, one read
            (fn, percpu), interval = variants[k], rng.choice([None, None, [0, 1]])
        reads = []
        for _ in range(2):
            cur = evolve(rng, cur, rng.choice(["mixed", "subsecond", "big", "guest"]), tck)
            reads.append(render_snapshot(ncols, cur).hex())
        ops.append({"op": "call", "vlen": vlen, "tck": tck, "fn": fn, "tid": who, "interval": interval,
                    "percpu": percpu, "reads": reads})
    return {"kind": "imphist", "family": family, "vlen": vlen,
            "import_on": "worker" if family == "worker_imports" or (family == "mixed" and rng.random() < 0.5) else "main",
            "import_reads": [first_line_only.hex(), r0.hex(), r1.hex()], "ops": ops}


def run_import_child(ctx, h):
    job = {"snapdir": ctx.snap.dir, "import_on": h["import_on"], "import_reads": h["import_reads"],
           "ops": [{"fn": o["fn"], "percpu": o["percpu"], "who": o["tid"], "reads": o["reads"],
                    "interval": None if o["interval"] is None else float(Fraction(*o["interval"]))} for o in h["ops"]]}
    env = dict(os.environ, PYTHONHASHSEED="0", PYTHONDONTWRITEBYTECODE="1")
    env.pop("PYTHONPATH", None)
    try:
        p = subprocess.run(["/venv/bin/python", IMPORT_CHILD], input=json.dumps(job).encode(), capture_output=True,
                           timeout=120, env=env, cwd="/")
    except subprocess.TimeoutExpired:
        return {"error": "timeout"}
    if p.returncode != 0:
        return {"error": "child exit %d: %s" % (p.returncode, p.stderr.decode("utf-8", "replace")[-600:])}
    try:
        return json.loads(p.stdout.decode())
    except ValueError:
        return {"error": "child printed %r" % p.stdout[:200]}


def run_import_histories(ctx, impl, res, hists, cmp, child_outputs=None):
    """Each history: a FRESH interpreter imports the snapshot's psutil over a scripted /proc/stat (the module-level
    priming code runs for real), then calls follow. Model: `importState`; specification: `expectedSinceImport`."""
    from concurrent.futures import ThreadPoolExecutor
    if child_outputs is None:
        with ThreadPoolExecutor(max_workers=4) as ex:
            child_outputs = list(ex.map(lambda h: run_import_child(ctx, h), hists))
    lines = []
    for h in hists:
        lines.append({"op": "import", "vlen": h["vlen"], "tck": impl.tck, "tid": 0, "reads": h["import_reads"][1:]})
        lines.extend(h["ops"])
    outs = ctx.driver().batch(lines)
    tp_max_one = ctx.fact_value("tpMaxOne")
    verdicts = []
    i = 0
    for h, co in zip(hists, child_outputs):
        mi = outs[i]
        i += 1
        v = "ok"
        nf = min(max(h["vlen"], 7), 10)
        inp0 = dict(h, ops=[])
        if "bad" in mi:
            raise RuntimeError("driver rejected the import line: %s" % mi)
        if "error" in co:
            res.disagree("model", inp0, co, None, None, note="fresh-import child failed: %s" % co["error"])
            v = "model"
        else:
            im = co["import"]
            names = ["user", "nice", "system", "idle", "iowait", "irq", "softirq", "steal", "guest", "guest_nice"]
            if not os.path.abspath(im["file"]).startswith(os.path.abspath(ctx.snap.dir)):
                res.disagree("model", inp0, im, None, None, note="child imported psutil from %s" % im["file"])
                v = "model"
            elif im["clock_ticks"] != impl.tck or im["fields"] != names[:nf]:
                res.disagree("model", inp0, im, None, None, note="field set / CLOCK_TICKS after a fresh import differ from the scenario")
                v = "model"
            elif mi["model"] != mi["spec"]:
                res.disagree("model", inp0, im, mi["model"], mi["spec"], note="Lean importState and importSample differ")
                v = "model"
            else:
                # the dictionaries themselves are internal: what the import left in them is only COUNTED; the
                # observable is what the first calls return and how many reads they take (below)
                as_modelled = (im["nreads"] == 3 and im["has"] == mi["spec"] and im["distinct"] == 4
                               and im["sizes"] == [1 if x else 0 for x in mi["spec"]])
                res.count("import:dictionaries_%s" % ("as_modelled" if as_modelled else "NOT_as_modelled"))
            res.count("import:on_%s:has=%s" % (h["import_on"], "".join("1" if x else "0" for x in (im.get("has") or []))))
        first_by = {}
        for idx, op in enumerate(h["ops"]):
            m = outs[i]
            i += 1
            if "bad" in m:
                raise RuntimeError("driver rejected %r: %s" % (op, m))
            if v != "ok":
                continue
            imr = co["ops"][idx]
            if op["tid"] not in first_by and imr.get("kind") == "ok" and (op["interval"] is None or op["interval"] == [0, 1]):
                first_by[op["tid"]] = True
                res.count("import:first_call_of_%s:nreads=%s" % ("importer" if op["tid"] == 0 else "other_thread", imr.get("nreads")))
            v = compare_call(res, cmp, h, idx, op, imr, m, nf, tp_max_one, True)
        verdicts.append(v)
    return verdicts, len(lines)


# ------------------------------------------------------------------------------ thread identifiers handed out again

def run_ident_reuse(ctx, impl, res, cmp, runs):
    """Short-lived REAL threads, one after the other: the interpreter may give a new thread the identifier of a dead
    one. The model files samples under the identifier actually observed (`tid`), the thread is `thr`. The real code
    must agree with the identifier-keyed specification (C07_ident_reuse_inherits); how often that differs from the
    thread-keyed one (C07_own_thread_Full, refuted by C07_ident_reuse_counterexample) is counted."""
    rng = ctx.rng
    done = 0
    pending = []
    for _ in range(runs):
        vlen = rng.choice([7, 8, 10])
        nf = vlen
        impl.prime(vlen)
        impl.pick_tck(rng)
        impl.reset_last()
        ncols = rng.randrange(vlen, 11)
        cur = [[rng.randrange(0, 1000) for _ in range(10)] for _ in range(rng.choice([1, 2]))]
        fn = rng.choice(["percent", "times_percent"])
        percpu = rng.random() < 0.3
        ident_of = {}
        ops, results = [], []
        for thr in range(1, rng.randrange(3, 7)):
            w = Worker()
            ident = w.ident
            tid = ident_of.setdefault(ident, len(ident_of) + 1)
            if tid != len(ident_of) or any(o["tid"] == tid for o in ops):
                res.count("ident_reuse:new_thread_got_a_dead_threads_ident")
            for _k in range(rng.choice([1, 1, 2])):
                reads = []
                for _j in range(2):
                    cur = evolve(rng, cur, rng.choice(["mixed", "big", "guest"]), impl.tck)
                    reads.append(render_snapshot(ncols, cur).hex())
                op = {"op": "call", "vlen": vlen, "tck": impl.tck, "fn": fn, "tid": tid, "thr": 1000 + thr,
                      "interval": None, "percpu": percpu, "reads": reads}
                ops.append(op)
                results.append(impl.call(op, on=w.call))
            w.stop()
            w.join(30)
        pending.append(({"kind": "hist", "family": "ident_reuse", "vlen": vlen, "ops": ops}, results, nf))
    lines = []
    for h, _r, _nf in pending:
        lines.append({"op": "reset"})
        lines.extend(h["ops"])
    outs = ctx.driver().batch(lines) if lines else []
    tp_max_one = ctx.fact_value("tpMaxOne")
    i = 0
    for h, results, nf in pending:
        i += 1
        v = "ok"
        for idx, (op, im) in enumerate(zip(h["ops"], results)):
            m = outs[i]
            i += 1
            if "bad" in m:
                raise RuntimeError("driver rejected %r: %s" % (op, m))
            if v != "ok":
                continue
            v = compare_call(res, cmp, h, idx, op, im, m, nf, tp_max_one, True)
            if m["thread"] != m["spec"]:
                res.count("ident_reuse:answer_differs_from_thread_keyed_spec(nreads %s vs %s)"
                          % (m["spec"].get("nreads"), m["thread"].get("nreads")))
        res.case(h, nontrivial=True)
        res.count("feature:fam:ident_reuse")
        done += 1
    return done


# ------------------------------------------------------------------------------ correspondence

def _install_fact_lookup(ctx):
    import re
    from harness.common import extract
    path = os.path.join(extract.GEN_DIR, PROP + ".lean")
    with open(path, encoding="utf-8") as f:
        gen = extract.parse_generated(f.read())

    def fact_value(name):
        typ, val = gen[name]
        return val == "true" if typ == "Bool" else val
    ctx.fact_value = fact_value


L9_WITNESS = {
    "kind": "hist", "family": "corpus-L9", "vlen": 8,
    "ops": [
        {"op": "call", "vlen": 8, "tck": None, "fn": "times_percent", "tid": 1, "interval": None, "percpu": False,
         "reads_ticks": [[0, 0, 0, 0, 0, 0, 0, 0], [0, 0, 0, 0, 0, 0, 0, 0]]},
        {"op": "call", "vlen": 8, "tck": None, "fn": "times_percent", "tid": 1, "interval": None, "percpu": False,
         "reads_ticks": [[2, 0, 1, 7, 0, 0, 0, 0]]},
    ]}


def l9_witness(tck):
    """total delta of 0.1 s: 2 user + 1 system + 7 idle tenths of tck ticks... scaled to tck/10 ticks."""
    unit = max(1, tck // 100)
    ops = []
    for o in L9_WITNESS["ops"]:
        reads = []
        for t in o["reads_ticks"]:
            line = b"cpu  " + b" ".join(str(x * unit).encode() for x in t) + b"\ncpu0 " + \
                b" ".join(str(x * unit).encode() for x in t) + b"\n"
            reads.append(line.hex())
        ops.append({"op": "call", "vlen": 8, "tck": tck, "fn": o["fn"], "tid": o["tid"], "interval": None,
                    "percpu": False, "reads": reads})
    return {"kind": "hist", "family": "corpus-L9", "vlen": 8, "ops": ops}


def ncpu_witness(tck):
    """C07_proc_percent_counterexample: 1 s of CPU during 1 s of wall time while the CPU count goes 2 -> 1 (the code
    as found returns -1.0) and then 1 -> 4 (1.3); the specification says 100.0 both times."""
    return {"kind": "phist", "family": "corpus-ncpu", "pids": [4242], "objs": [4242], "ops": [
        {"op": "pcall", "tck": tck, "obj": 0, "pid": 4242, "interval": None, "ncpu": 2, "timer": [[100, 1]], "times": [[0, 0]]},
        {"op": "pcall", "tck": tck, "obj": 0, "pid": 4242, "interval": None, "ncpu": 1, "timer": [[101, 1]], "times": [[tck, 0]]},
        {"op": "pcall", "tck": tck, "obj": 0, "pid": 4242, "interval": None, "ncpu": 4, "timer": [[102, 1]], "times": [[2 * tck, 0]]},
    ]}


def correspond(ctx, res):
    _install_fact_lookup(ctx)
    impl = Impl(ctx)
    cmp = Cmp(res)
    try:
        res.rule = ("three input classes, PRNG from VERIF_SEED: (a) kernel states rendered into a fake /proc/stat "
                    "(+ malformed files), (b) histories of cpu_percent/cpu_times_percent calls from real threads over "
                    "scripted snapshots (12 clause-directed families), (c) Process.cpu_percent histories (7 families); "
                    "non-trivial = a world inside the specification's domain or a malformed file, a call history with a "
                    "non-zero delta, a Process history with ≥ 2 calls; distinct = distinct canonical inputs")
        res.extra["clock_ticks"] = impl.tck
        res.extra["clock_ticks_pool"] = sorted(set(TCK_POOL))
        res.extra["host_scputimes_fields"] = list(impl.host_fields)
        host = int(impl.host_tck)
        # provenance of the divisor (audit item 3): what the module computed at import must be the kernel's USER_HZ as
        # the kernel itself hands it to the process (AT_CLKTCK), not just "whatever psutil's constant is"
        khz, how = kernel_user_hz()
        res.count("clock_ticks_provenance:%s" % how)
        if khz is not None and impl.host_tck != khz:
            res.disagree("spec", {"kind": "clock_ticks"}, impl.host_tck, None, khz,
                         note="_pslinux.CLOCK_TICKS after import is %r, the kernel's USER_HZ (%s) is %d: every counter would be "
                              "divided by the wrong number of ticks per second" % (impl.host_tck, how, khz))
        if isinstance(impl.host_tck, bool) or not isinstance(impl.host_tck, int):
            res.disagree("spec", {"kind": "clock_ticks"}, repr(impl.host_tck), None, khz, note="_pslinux.CLOCK_TICKS is not an int")
        res.case(("clock_ticks", host), nontrivial=khz is not None)
        total_lines = 0
        tokhyp = TokenHypothesis(res)
        phase_t = {}
        t_mark = [_time.time()]

        def phase(name):
            now = _time.time()
            phase_t[name] = round(phase_t.get(name, 0.0) + now - t_mark[0], 2)
            t_mark[0] = now
        # ---- (0) field sets: every vlen 0..12 (exhaustive), real set_scputimes_ntuple vs model vs kernel order
        flines = [{"op": "fields", "vlen": v} for v in range(0, 13)]
        fouts = ctx.driver().batch(flines)
        total_lines += len(flines)
        names = ["user", "nice", "system", "idle", "iowait", "irq", "softirq", "steal", "guest", "guest_nice"]
        for ln, m in zip(flines, fouts):
            got = impl.prime(ln["vlen"])
            want_m = [names[i] if i < 10 else "?" for i in m["model"]]
            want_s = [names[i] for i in m["spec"]]
            if got != want_s:
                res.disagree("spec", {"kind": "fields", "vlen": ln["vlen"]}, got, want_m, want_s,
                             note="scputimes._fields is not the kernel-order prefix")
            elif got != want_m:
                res.disagree("model", {"kind": "fields", "vlen": ln["vlen"]}, got, want_m, want_s)
            res.case(("fields", ln["vlen"]), nontrivial=True)
            res.count("fields:%d" % len(got))
        res.exhaustive = "scputimes field set for every first-line width 0..12 (all branches of set_scputimes_ntuple); the other families are samples"
        # ---- (a) worlds
        nw = ctx.n(400, 6000)
        lines, tags = [], []
        for i in range(nw):
            fam = ["plain", "plain", "many_cpus", "fewer_cols", "malformed"][i % 5]
            vlen = ctx.rng.choice([7, 8, 9, 10, 10, 3, 12])
            impl.pick_tck(ctx.rng)
            w = gen_world(ctx.rng, impl, vlen, fam if fam != "malformed" else "plain")
            if fam == "malformed":
                w2 = dict(w, ncols=max(w["ncols"], 7))
                data = render_snapshot(w2["ncols"], w2["cpus"], w2["total"], [bytes.fromhex(o) for o in w2["other"]])
                data, kind = mutate_bytes(ctx.rng, data)
                lines.append({"op": "times", "vlen": vlen, "tck": impl.tck, "data": data.hex()})
                tags.append("malformed:" + kind)
            else:
                lines.append(w)
                tags.append(fam)
        impl.set_tck(host)
        live = live_validate(ctx, impl, res)
        if live is not None:
            lines.append(live)
            tags.append("live")
        # malformed-token stream, systematically (every position × foreign / leading-zero tokens × short lines)
        ml, mt = malformed_token_lines(ctx.rng, None)
        if ctx.tier == "quick":
            keep = sorted(ctx.rng.sample(range(len(ml)), min(len(ml), 150)))
            ml, mt = [ml[k] for k in keep], [mt[k] for k in keep]
        lines += ml
        tags += mt
        order = sorted(range(len(lines)), key=lambda k: lines[k]["vlen"])
        lines = [lines[k] for k in order]
        tags = [tags[k] for k in order]
        run_world(ctx, impl, res, lines, tags, cmp, tokhyp)
        unclaimed_tokens(ctx, impl, res)
        total_lines += len(lines)
        phase("worlds")
        # ---- (a') cpuN lines with their own numbers (offline CPUs are not printed)
        nl_ = [gen_numbered(ctx.rng, impl, witness=True)] + \
            [gen_numbered(ctx.rng, impl) for _ in range(ctx.n(80, 1500)) if impl.pick_tck(ctx.rng)]
        nl_.sort(key=lambda l: l["vlen"])
        run_numbered(ctx, impl, res, nl_, cmp, tokhyp)
        total_lines += len(nl_)
        phase("numbered")
        # ---- (b) call histories: corpus (L9 witness) first
        impl.set_tck(host)
        hists = [l9_witness(host)]
        nh = ctx.n(600, 12000)
        for i in range(nh):
            impl.pick_tck(ctx.rng)
            hists.append(gen_call_history(ctx.rng, impl, CALL_FAMILIES[i % len(CALL_FAMILIES)]))
        n_sampled = len(hists)
        hists.extend(exhaustive_delta_histories(host))
        res.exhaustive += ("; all %d combinations of delta ∈ {-5,0,1,30,100} ticks on user/idle/iowait/steal × both "
                           "functions (blocking form)" % ((len(hists) - n_sampled) // 2))
        hists.sort(key=lambda h: h["vlen"])
        # non-blocking / blocking / non-blocking on one thread, all four (function, percpu) variants, with and without a
        # first call, interval None and 0.0: run FIRST so that a blocking branch that forgets its post-sleep sample is
        # reported on the shortest history that shows it (seeded C07-3)
        nbn = nbn_histories(ctx.rng, TCK_POOL)
        n_sampled += len(nbn)
        hists = nbn + hists
        CH = 400
        for a in range(0, len(hists), CH):
            chunk = hists[a:a + CH]
            verdicts, nl = run_histories(ctx, impl, res, chunk, cmp, tokhyp=tokhyp)
            total_lines += nl
            for h, v in zip(chunk, verdicts):
                feats = history_features(h, impl.tck)
                for f in feats:
                    res.count("feature:" + f)
                res.count("tck:%d" % h["ops"][0]["tck"])
                res.count("calls", len(h["ops"]))
                res.count("nf:%d" % min(max(h["vlen"], 7), 10))
                res.case(h, nontrivial=h["family"] != "zero",
                         sample={"family": h["family"], "vlen": h["vlen"], "n_ops": len(h["ops"]),
                                 "first_op": {k: v for k, v in h["ops"][0].items() if k != "reads"}}
                         if len(res.samples) < 5 and h["family"] in ("subsecond", "threads", "corpus-L9") else None)
        phase("histories")
        # ---- (b'') population of the per-thread store: many callers hold a sample at the same time
        phists, n_exh, kmax = population_histories(ctx, ctx.rng, TCK_POOL)
        res.exhaustive += ("; every (population k <= %d, position j < k): k callers sample one after the other, the j-th asks "
                           "again" % kmax)
        verdicts, nl = run_histories(ctx, impl, res, phists, cmp, tokhyp=tokhyp)
        total_lines += nl
        for h in phists:
            res.count("feature:fam:population")
            res.count("population:%s" % h["sub"].split(":k<=")[0])
            res.count("population:mode:%s" % h["mode"])
            res.count("calls", len(h["ops"]))
            res.count("population:calls", len(h["ops"]))
            res.case(h, nontrivial=True,
                     sample={"family": "population", "sub": h["sub"], "n_ops": len(h["ops"]), "max_pop": h["max_pop"]}
                     if h["sub"].startswith("growth:scripted") and h["max_pop"] > 500 else None)
        res.extra["population_max"] = {"real_threads": max([h["max_pop"] for h in phists if h["mode"] == "real"] or [0]),
                                       "scripted_identifiers": max([h["max_pop"] for h in phists if h["mode"] == "scripted"] or [0])}
        phase("population")
        res.extra["concurrent_runs"] = concurrent_runs(ctx, impl, res, cmp, ctx.n(10, 240))
        phase("concurrent")
        res.extra["ident_reuse_runs"] = run_ident_reuse(ctx, impl, res, cmp, ctx.n(30, 600))
        phase("ident_reuse")
        # ---- (b') fresh imports: the module-level priming code runs for real in a child interpreter
        impl.set_tck(host)          # the child interpreter computes CLOCK_TICKS itself
        ni = ctx.n(21, 280)
        ihists = [gen_import_case(ctx.rng, impl, IMPORT_FAMILIES[i % len(IMPORT_FAMILIES)]) for i in range(ni)]
        verdicts, nl = run_import_histories(ctx, impl, res, ihists, cmp)
        total_lines += nl
        for h in ihists:
            res.count("feature:fam:import:" + h["family"])
            res.count("calls", len(h["ops"]))
            res.case(h, nontrivial=True,
                     sample={"family": h["family"], "import_on": h["import_on"], "n_ops": len(h["ops"])}
                     if h["family"] == "importer_first" and len(res.samples) < 6 else None)
        phase("fresh_import")
        # ---- (c) Process.cpu_percent histories
        np_ = ctx.n(400, 8000)
        impl.set_tck(host)
        phists = [ncpu_witness(host)] + \
            [gen_proc_history(ctx.rng, impl, PROC_FAMILIES[i % len(PROC_FAMILIES)]) for i in range(np_) if impl.pick_tck(ctx.rng)]
        for a in range(0, len(phists), 1000):
            chunk = phists[a:a + 1000]
            verdicts, nl = run_proc_histories(ctx, impl, res, chunk, cmp)
            total_lines += nl
            for h in chunk:
                res.count("pfamily:" + h["family"])
                res.count("tck:%d" % h["ops"][0]["tck"])
                res.case(h, nontrivial=len(h["ops"]) >= 2,
                         sample={"family": h["family"], "objs": h["objs"], "first_op": h["ops"][0]}
                         if len(res.samples) < 6 and h["family"] == "objects" else None)
        phase("process")
        # ---- the token hypothesis: Python twins of the recognisers validated against the Lean ones
        tokhyp.validate(ctx, ctx.n(1500, 20000))
        total_lines += 1
        phase("token_hypothesis")
        res.extra["phase_seconds"] = phase_t
        res.extra["driver_lines"] = total_lines
    finally:
        impl.close()


def search(ctx, res, broken):
    correspond(ctx, res)


# ------------------------------------------------------------------------------ replay / shrink / findings

def _fails_input(ctx, impl, inp, findings_on):
    """True iff the recorded input still violates the specification."""
    from harness.common.runner import Result
    r = Result()
    cmp = Cmp(r)
    kind = inp.get("kind")
    if kind == "hist":
        run_histories(ctx, impl, r, [inp], cmp, findings_on=findings_on)
    elif kind == "phist":
        run_proc_histories(ctx, impl, r, [inp], cmp)
    elif kind == "imphist":
        run_import_histories(ctx, impl, r, [inp], cmp)
    elif kind in ("world", "raw"):
        run_world(ctx, impl, r, [inp["line"]], ["replay"], cmp)
    elif kind == "percpul":
        run_numbered(ctx, impl, r, [inp["line"]], cmp)
    elif kind == "fields":
        m = ctx.driver().batch([{"op": "fields", "vlen": inp["vlen"]}])[0]
        names = ["user", "nice", "system", "idle", "iowait", "irq", "softirq", "steal", "guest", "guest_nice"]
        return impl.prime(inp["vlen"]) != [names[i] for i in m["spec"]], r
    else:
        return True, r
    return any(d["kind"] == "spec" and not d.get("finding") for d in r.disagreements), r


def shrink(ctx, d):
    inp = d["input"]
    if inp.get("kind") not in ("hist", "phist", "imphist"):
        return d
    _install_fact_lookup(ctx)
    impl = Impl(ctx)
    try:
        def fails(ops):
            if not ops:
                return False
            return _fails_input(ctx, impl, dict(inp, ops=ops), True)[0]
        ops0 = inp["ops"]
        if inp.get("family") == "population":
            ops0 = shrink_population(fails, ops0)
        small = ddmin(ops0, fails, max_tests=40) if inp.get("family") != "population" else ops0
        out = _fails_input(ctx, impl, dict(inp, ops=small), True)
        if out[0]:
            dd = [x for x in out[1].disagreements if x["kind"] == "spec" and not x.get("finding")][0]
            return dict(d, input=dd["input"], impl=dd["impl"], model=dd["model"], spec=dd["spec"], note=dd["note"])
    finally:
        impl.close()
    return d


def replay(ctx, rp, res):
    inp = rp.get("input")
    if not isinstance(inp, dict) or "kind" not in inp:
        return True
    _install_fact_lookup(ctx)
    impl = Impl(ctx)
    try:
        return _fails_input(ctx, impl, inp, True)[0]
    finally:
        impl.close()


def check_finding(ctx, fnd):
    if fnd.get("id") == FINDING_NCPU:
        _install_fact_lookup(ctx)
        impl = Impl(ctx)
        try:
            h = ncpu_witness(impl.tck)
            impl.proc_setup(h["pids"])
            objs = [impl.ps.Process(pid) for pid in h["objs"]]
            outs = [impl.pcall(objs, op) for op in h["ops"]]
            vals = [o.get("val") for o in outs]
            if any(o.get("kind") != "ok" for o in outs):
                return "gone"
            return "gone" if abs(vals[1] - 100.0) <= 0.05 and abs(vals[2] - 100.0) <= 0.05 else "reproduces"
        finally:
            impl.close()
    if fnd.get("id") != FINDING_ID:
        return "unknown"
    _install_fact_lookup(ctx)
    impl = Impl(ctx)
    try:
        h = l9_witness(impl.tck)
        impl.prime(h["vlen"])
        impl.reset_last()
        outs = [impl.call(op) for op in h["ops"]]
        last = outs[-1]
        if last.get("kind") != "ok":
            return "gone"
        s = sum(last["val"]["v"])
        return "reproduces" if abs(s - 10.0) < 0.5 else "gone"
    finally:
        impl.close()
