"""C08 translator: facts about `_pslinux.virtual_memory / calculate_avail_vmem / swap_memory` and
`_common.usage_percent`, re-derived from the current source with `ast` (+ a runtime dump of the
named-tuple layouts). Everything here ends up in lean/PsutilModel/Generated/C08.lean and is
consumed by `cfg` (Model/C08Gen.lean) → `cfg_good` (Props/C08.lean) and by the driver.
"""
import ast
import re

from harness.common import extract
from harness.common.extract import NotRecognised

E = extract


def _pos(n):
    return (n.lineno, n.col_offset)


def _mems_keys(node, dictname="mems"):
    """byte-string keys used as `mems[b'..']` / `mems.get(b'..', d)` under `node`, source order"""
    found = []
    for n in ast.walk(node):
        if isinstance(n, ast.Subscript) and E.dotted(n.value) == dictname \
                and isinstance(n.slice, ast.Constant) and isinstance(n.slice.value, bytes):
            found.append((_pos(n), n.slice.value))
        elif isinstance(n, ast.Call) and E.dotted(n.func) == dictname + ".get" and n.args \
                and isinstance(n.args[0], ast.Constant) and isinstance(n.args[0].value, bytes):
            found.append((_pos(n), n.args[0].value))
    return [k for _, k in sorted(found)]


def keys_by_target(fn, expected_targets):
    """[(target variable, [keys])] for every assignment in `fn` that reads `mems`, in source
    order, merged per target. Raises NotRecognised when the local names are not the expected
    ones (a rename is a refactor: baseline kept, correspondence decides)."""
    stmts = []
    for n in ast.walk(fn):
        if isinstance(n, ast.Assign) and len(n.targets) == 1 and isinstance(n.targets[0], ast.Name):
            ks = _mems_keys(n.value)
            if ks:
                stmts.append((_pos(n), n.targets[0].id, ks))
        elif isinstance(n, ast.AugAssign) and isinstance(n.target, ast.Name):
            ks = _mems_keys(n.value)
            if ks:
                stmts.append((_pos(n), n.target.id, ks))
    out = []
    for _, tgt, ks in sorted(stmts):
        for o in out:
            if o[0] == tgt:
                o[1].extend(ks)
                break
        else:
            out.append((tgt, list(ks)))
    if sorted(t for t, _ in out) != sorted(expected_targets):
        raise NotRecognised("targets reading mems are %s" % [t for t, _ in out])
    out.sort(key=lambda o: expected_targets.index(o[0]))
    return out


def lean_keymap(km):
    return E.lean_list(km, lambda o: E.lean_pair(E.lean_str(o[0]), E.lean_list(o[1], E.lean_bytes)))


def parse_stmt(fn):
    """`mems[fields[K]] = int(fields[V]) * F` → [K, V, F]"""
    hits = []
    for n in ast.walk(fn):
        if isinstance(n, ast.Assign) and len(n.targets) == 1:
            t = n.targets[0]
            if isinstance(t, ast.Subscript) and E.dotted(t.value) == "mems" \
                    and isinstance(t.slice, ast.Subscript) and E.dotted(t.slice.value) == "fields":
                k = E.const(t.slice.slice)
                v = n.value
                if isinstance(v, ast.BinOp) and isinstance(v.op, ast.Mult):
                    f = _const_product(v.right)
                    call = v.left
                    while isinstance(call, ast.BinOp) and isinstance(call.op, ast.Mult):
                        f *= _const_product(call.right)
                        call = call.left
                elif isinstance(v, ast.Call):
                    f, call = 1, v
                else:
                    raise NotRecognised("meminfo value expression: %s" % E.unparse(v))
                if not (isinstance(call, ast.Call) and E.dotted(call.func) == "int" and len(call.args) == 1):
                    raise NotRecognised("meminfo value is not int(...): %s" % E.unparse(v))
                a = call.args[0]
                if not (isinstance(a, ast.Subscript) and E.dotted(a.value) == "fields"):
                    raise NotRecognised("meminfo value is not int(fields[i])")
                hits.append([k, E.const(a.slice), f])
    if len(hits) != 1:
        raise NotRecognised("meminfo parse statement found %d times" % len(hits))
    if not all(isinstance(x, int) and x >= 0 for x in hits[0]):
        raise NotRecognised("meminfo parse statement indexes: %s" % hits[0])
    return hits[0]


def _const_product(n):
    if isinstance(n, ast.Constant) and isinstance(n.value, int):
        return n.value
    if isinstance(n, ast.BinOp) and isinstance(n.op, ast.Mult):
        return _const_product(n.left) * _const_product(n.right)
    raise NotRecognised("not a product of int constants: %s" % E.unparse(n))


def _bodies(fn):
    for n in ast.walk(fn):
        for f in ("body", "orelse", "finalbody"):
            b = getattr(n, f, None)
            if isinstance(b, list) and b and isinstance(b[0], ast.stmt):
                yield b


def missing_map(fn):
    """[(variable set to 0, name appended to missing_fields)] in source order"""
    out = []
    for body in _bodies(fn):
        for st in body:
            if isinstance(st, ast.Expr) and isinstance(st.value, ast.Call) \
                    and E.dotted(st.value.func) == "missing_fields.append" and len(st.value.args) == 1:
                name = E.const(st.value.args[0])
                zeroed = [s.targets[0].id for s in body
                          if isinstance(s, ast.Assign) and len(s.targets) == 1
                          and isinstance(s.targets[0], ast.Name)
                          and isinstance(s.value, ast.Constant) and s.value.value == 0]
                if len(zeroed) != 1:
                    raise NotRecognised("missing_fields.append(%r) without a single `x = 0` beside it" % name)
                out.append((_pos(st), zeroed[0], name))
    if not out:
        raise NotRecognised("no missing_fields.append found")
    return [(v, n) for _, v, n in sorted(out)]


def _is_cmp(test, left, op, right):
    return isinstance(test, ast.Compare) and len(test.ops) == 1 and isinstance(test.ops[0], op) \
        and E.unparse(test.left) == left and E.unparse(test.comparators[0]) == right


def _assigns(body, target, value_src):
    return any(isinstance(s, ast.Assign) and len(s.targets) == 1 and E.unparse(s.targets[0]) == target
               and E.unparse(s.value) == value_src for s in body)


def guard(fn, left, op, right, target, value_src, allow_absent=True):
    """is there an `if <left> <op> <right>:` whose body assigns `target = value_src`?"""
    for n in ast.walk(fn):
        if isinstance(n, ast.If) and _is_cmp(n.test, left, op, right):
            if _assigns(n.body, target, value_src):
                return True
            raise NotRecognised("guard `%s` does something else" % E.unparse(n.test))
    # make sure the variable still exists, otherwise the shape is unknown
    if not any(isinstance(n, ast.Name) and n.id == target for n in ast.walk(fn)):
        raise NotRecognised("variable %s not found" % target)
    return False


def round_digits(fn):
    calls = E.calls_in(fn, "usage_percent")
    if len(calls) != 1:
        raise NotRecognised("usage_percent called %d times" % len(calls))
    c = calls[0]
    for kw in c.keywords:
        if kw.arg == "round_":
            v = E.const(kw.value)
            if isinstance(v, int) and v >= 0:
                return v
    if len(c.args) >= 3:
        return E.const(c.args[2])
    raise NotRecognised("round_ argument of usage_percent not found")


def startswith_prefixes(fn):
    out = []
    for n in ast.walk(fn):
        if isinstance(n, ast.Call) and E.dotted(n.func) == "line.startswith" and len(n.args) == 1:
            v = E.const(n.args[0])
            if isinstance(v, bytes):
                out.append((_pos(n), v, n))
    return [(v, n) for _, v, n in sorted(out, key=lambda t: t[0])]


def low_fact(fn):
    """(prefix, index) of `if line.startswith(b'low'): watermark_low += int(line.split()[1])`"""
    for n in ast.walk(fn):
        if isinstance(n, ast.If) and isinstance(n.test, ast.Call) and E.dotted(n.test.func) == "line.startswith":
            prefix = E.const(n.test.args[0])
            for s in n.body:
                if isinstance(s, ast.AugAssign) and isinstance(s.op, ast.Add) \
                        and isinstance(s.value, ast.Call) and E.dotted(s.value.func) == "int":
                    a = s.value.args[0]
                    if isinstance(a, ast.Subscript) and E.unparse(a.value) == "line.split()":
                        return prefix, E.const(a.slice)
    raise NotRecognised("zoneinfo `low` loop not recognised")


def wm_times_pagesize(fn):
    for n in ast.walk(fn):
        if isinstance(n, ast.AugAssign) and isinstance(n.op, ast.Mult) \
                and E.unparse(n.target) == "watermark_low":
            return E.unparse(n.value) == "PAGESIZE"
    return False


def vmstat_fact(fn, var):
    """(prefix, index, factor) of `if line.startswith(P): var = int(line.split(b' ')[I]) * F`"""
    for n in ast.walk(fn):
        if isinstance(n, ast.If) and isinstance(n.test, ast.Call) and E.dotted(n.test.func) == "line.startswith":
            for s in n.body:
                if isinstance(s, ast.Assign) and len(s.targets) == 1 and E.unparse(s.targets[0]) == var:
                    v = s.value
                    f = 1
                    while isinstance(v, ast.BinOp) and isinstance(v.op, ast.Mult):
                        f *= _const_product(v.right)
                        v = v.left
                    if not (isinstance(v, ast.Call) and E.dotted(v.func) == "int"):
                        raise NotRecognised("%s is not int(...)*k" % var)
                    a = v.args[0]
                    if not (isinstance(a, ast.Subscript) and E.unparse(a.value) == "line.split(b' ')"):
                        raise NotRecognised("%s does not come from line.split(b' ')[i]" % var)
                    return E.const(n.test.args[0]), E.const(a.slice), f
    raise NotRecognised("vmstat branch for %s not recognised" % var)


def call_args(fn, callee, expected):
    """names of the local variables passed positionally to the record constructor"""
    calls = [c for c in ast.walk(fn) if isinstance(c, ast.Call) and E.dotted(c.func).split(".")[-1] == callee]
    if len(calls) != 1:
        raise NotRecognised("%s(...) constructed %d times" % (callee, len(calls)))
    c = calls[0]
    if c.keywords or not all(isinstance(a, ast.Name) for a in c.args):
        raise NotRecognised("%s(...) arguments are not plain local names" % callee)
    names = [a.id for a in c.args]
    if sorted(names) != sorted(expected):
        raise NotRecognised("%s(...) receives %s" % (callee, names))
    return names


def pct_scale(fn):
    """`(float(used) / total) * 100` → 100, and the ZeroDivisionError → 0.0 handler must exist"""
    scale = None
    for n in ast.walk(fn):
        if isinstance(n, ast.BinOp) and isinstance(n.op, ast.Mult) and isinstance(n.right, ast.Constant) \
                and isinstance(n.left, ast.BinOp) and isinstance(n.left.op, ast.Div):
            if E.unparse(n.left) != "float(used) / total":
                raise NotRecognised("usage_percent quotient is %s" % E.unparse(n.left))
            scale = n.right.value
    handlers = [h for h in ast.walk(fn) if isinstance(h, ast.ExceptHandler)
                and h.type is not None and E.dotted(h.type) == "ZeroDivisionError"]
    if scale is None or not isinstance(scale, int) or len(handlers) != 1:
        raise NotRecognised("usage_percent shape not recognised")
    ret = [s for s in handlers[0].body if isinstance(s, ast.Return)]
    if not ret or E.const(ret[0].value) != 0.0:
        raise NotRecognised("ZeroDivisionError handler does not return 0.0")
    return scale



def sysinfo_c(snap):
    """arch/linux/mem.c: (format string, [struct sysinfo members]) of the Py_BuildValue call in
    psutil_linux_sysinfo(), comments stripped"""
    src = snap.source("arch/linux/mem.c")
    src = re.sub(r"/\*.*?\*/", "", src, flags=re.S)
    src = re.sub(r"//[^\n]*", "", src)
    m = re.search(r"psutil_linux_sysinfo\s*\(.*?\)\s*\{(.*?)\n\}", src, flags=re.S)
    if not m:
        raise NotRecognised("psutil_linux_sysinfo() not found in arch/linux/mem.c")
    body = m.group(1)
    if not re.search(r"struct\s+sysinfo\s+info\s*;", body) or not re.search(r"sysinfo\s*\(\s*&info\s*\)", body):
        raise NotRecognised("psutil_linux_sysinfo(): `struct sysinfo info; sysinfo(&info)` not found")
    calls = re.findall(r"Py_BuildValue\s*\(\s*\"([^\"]*)\"\s*,(.*?)\)\s*;", body, flags=re.S)
    if len(calls) != 1:
        raise NotRecognised("psutil_linux_sysinfo(): %d Py_BuildValue calls" % len(calls))
    fmt, args = calls[0]
    members = []
    for a in args.split(","):
        a = a.strip()
        mm = re.fullmatch(r"info\.(\w+)", a)
        if not mm:
            raise NotRecognised("psutil_linux_sysinfo(): argument %r is not a plain member of info" % a)
        members.append(mm.group(1))
    return fmt, members


def sysinfo_unpack(fn):
    """names of `a, b, … = cext.linux_sysinfo()` in swap_memory()"""
    hits = []
    for n in ast.walk(fn):
        if isinstance(n, ast.Assign) and len(n.targets) == 1 and isinstance(n.value, ast.Call) \
                and E.dotted(n.value.func) == "cext.linux_sysinfo":
            t = n.targets[0]
            if not (isinstance(t, ast.Tuple) and all(isinstance(x, ast.Name) for x in t.elts)):
                raise NotRecognised("cext.linux_sysinfo() is not unpacked into plain names")
            hits.append([x.id for x in t.elts])
    if len(hits) != 1:
        raise NotRecognised("cext.linux_sysinfo() called %d times" % len(hits))
    return hits[0]


def times_unit(fn):
    """targets of `x *= unit_multiplier`, source order"""
    out = []
    for n in ast.walk(fn):
        if isinstance(n, ast.AugAssign) and isinstance(n.op, ast.Mult) and isinstance(n.target, ast.Name) \
                and E.unparse(n.value) == "unit_multiplier":
            out.append((_pos(n), n.target.id))
    return [t for _, t in sorted(out)]


def phymem_primed(fn):
    """psutil.virtual_memory(): `global _TOTAL_PHYMEM; ret = _psplatform.virtual_memory();
    _TOTAL_PHYMEM = ret.<attr>; return ret` → attr ("" when the global is not assigned)"""
    has_global = any(isinstance(n, ast.Global) and "_TOTAL_PHYMEM" in n.names for n in ast.walk(fn))
    assigns = [n for n in ast.walk(fn) if isinstance(n, ast.Assign) and len(n.targets) == 1
               and E.dotted(n.targets[0]) == "_TOTAL_PHYMEM"]
    if not assigns:
        return ""
    if len(assigns) != 1 or not has_global:
        raise NotRecognised("_TOTAL_PHYMEM assigned %d times / global missing" % len(assigns))
    v = assigns[0].value
    rets = [n for n in ast.walk(fn) if isinstance(n, ast.Return)]
    plat = [n for n in ast.walk(fn) if isinstance(n, ast.Assign) and len(n.targets) == 1
            and E.unparse(n.value) == "_psplatform.virtual_memory()"]
    if not (isinstance(v, ast.Attribute) and isinstance(v.value, ast.Name) and len(plat) == 1
            and E.unparse(plat[0].targets[0]) == v.value.id and len(rets) == 1
            and E.unparse(rets[0].value) == v.value.id):
        raise NotRecognised("_TOTAL_PHYMEM = %s: not an attribute of the returned platform result" % E.unparse(v))
    return v.attr


def mem_percent_total_expr(fn):
    """Process.memory_percent(): the expression assigned to total_phymem"""
    hits = [n for n in ast.walk(fn) if isinstance(n, ast.Assign) and len(n.targets) == 1
            and E.unparse(n.targets[0]) == "total_phymem"]
    if len(hits) != 1:
        raise NotRecognised("total_phymem assigned %d times in memory_percent()" % len(hits))
    return E.unparse(hits[0].value)


VM_TARGETS = ["total", "free", "buffers", "cached", "shared", "active", "inactive", "slab", "avail"]
CA_TARGETS = ["free", "fallback", "lru_active_file", "lru_inactive_file", "slab_reclaimable"]
SW_TARGETS = ["total", "free"]
SVMEM_ARGS = ["total", "avail", "percent", "used", "free", "active", "inactive", "buffers", "cached",
              "shared", "slab"]
SSWAP_ARGS = ["total", "used", "free", "percent", "sin", "sout"]


def facts(snap, F):
    lin = E.parse_module(snap, "_pslinux.py")
    com = E.parse_module(snap, "_common.py")

    def fn(name, tree=lin):
        return E.find_def(tree, name)

    ls, lb, ln = E.lean_str, E.lean_bool, E.lean_nat
    F.try_add("vmKeys", "List (String × List (List Nat))",
              lambda: lean_keymap(keys_by_target(fn("virtual_memory"), VM_TARGETS)),
              "virtual_memory(): local variable ↦ the /proc/meminfo keys it is read from, in source order")
    F.try_add("caKeys", "List (String × List (List Nat))",
              lambda: lean_keymap(keys_by_target(fn("calculate_avail_vmem"), CA_TARGETS)),
              "calculate_avail_vmem(): local variable ↦ meminfo keys")
    F.try_add("swKeys", "List (String × List (List Nat))",
              lambda: lean_keymap(keys_by_target(fn("swap_memory"), SW_TARGETS)),
              "swap_memory(): local variable ↦ meminfo keys")
    F.try_add("vmParse", "List Nat", lambda: E.lean_list(parse_stmt(fn("virtual_memory")), ln),
              "virtual_memory(): mems[fields[K]] = int(fields[V]) * F as [K, V, F]")
    F.try_add("swParse", "List Nat", lambda: E.lean_list(parse_stmt(fn("swap_memory")), ln),
              "swap_memory(): mems[fields[K]] = int(fields[V]) * F as [K, V, F]")
    F.try_add("missingMap", "List (String × String)",
              lambda: E.lean_list(missing_map(fn("virtual_memory")), lambda p: E.lean_pair(ls(p[0]), ls(p[1]))),
              "virtual_memory(): (variable set to 0, name appended to missing_fields), source order")
    F.try_add("usedClamp", "Bool",
              lambda: lb(guard(fn("virtual_memory"), "used", ast.Lt, "0", "used", "total - free")),
              "`if used < 0: used = total - free` present")
    F.try_add("zeroAvailFallsBack", "Bool",
              lambda: lb(guard(fn("virtual_memory"), "avail", ast.Eq, "0", "avail", "calculate_avail_vmem(mems)")),
              "`if avail == 0: avail = calculate_avail_vmem(mems)` present")
    F.try_add("availClampLow", "Bool",
              lambda: lb(guard(fn("virtual_memory"), "avail", ast.Lt, "0", "avail", "0")),
              "`if avail < 0: avail = 0` present")
    F.try_add("availClampHigh", "Bool",
              lambda: lb(guard(fn("virtual_memory"), "avail", ast.Gt, "total", "avail", "free")),
              "`elif avail > total: avail = free` present")
    F.try_add("vmRound", "Nat", lambda: ln(round_digits(fn("virtual_memory"))),
              "round_ digits passed to usage_percent by virtual_memory()")
    F.try_add("swRound", "Nat", lambda: ln(round_digits(fn("swap_memory"))),
              "round_ digits passed to usage_percent by swap_memory()")
    F.try_add("lowPrefix", "List Nat", lambda: E.lean_bytes(low_fact(fn("calculate_avail_vmem"))[0]),
              "prefix selecting the watermark lines of /proc/zoneinfo")
    F.try_add("lowIdx", "Nat", lambda: ln(low_fact(fn("calculate_avail_vmem"))[1]),
              "index into line.split() of the watermark value")
    F.try_add("wmTimesPagesize", "Bool", lambda: lb(wm_times_pagesize(fn("calculate_avail_vmem"))),
              "`watermark_low *= PAGESIZE` present")
    F.try_add("sinPrefix", "List Nat", lambda: E.lean_bytes(vmstat_fact(fn("swap_memory"), "sin")[0]),
              "prefix of the /proc/vmstat line feeding sin")
    F.try_add("sinIdxFactor", "List Nat",
              lambda: E.lean_list(list(vmstat_fact(fn("swap_memory"), "sin")[1:]), ln),
              "[index into line.split(b' '), multiplier] for sin")
    F.try_add("soutPrefix", "List Nat", lambda: E.lean_bytes(vmstat_fact(fn("swap_memory"), "sout")[0]),
              "prefix of the /proc/vmstat line feeding sout")
    F.try_add("soutIdxFactor", "List Nat",
              lambda: E.lean_list(list(vmstat_fact(fn("swap_memory"), "sout")[1:]), ln),
              "[index into line.split(b' '), multiplier] for sout")
    F.try_add("pctScale", "Nat", lambda: ln(pct_scale(E.find_def(com, "usage_percent"))),
              "usage_percent: (float(used) / total) * SCALE, ZeroDivisionError → 0.0")
    F.try_add("svmemArgs", "List String",
              lambda: E.lean_list(call_args(fn("virtual_memory"), "svmem", SVMEM_ARGS), ls),
              "local variables passed positionally to svmem(...)")
    F.try_add("sswapArgs", "List String",
              lambda: E.lean_list(call_args(fn("swap_memory"), "sswap", SSWAP_ARGS), ls),
              "local variables passed positionally to sswap(...)")

    F.try_add("sysinfoCMembers", "List String", lambda: E.lean_list(sysinfo_c(snap)[1], ls),
              "arch/linux/mem.c: members of `struct sysinfo` passed to Py_BuildValue, in order")
    F.try_add("sysinfoCFormat", "String", lambda: ls(sysinfo_c(snap)[0]),
              "arch/linux/mem.c: the Py_BuildValue format string")
    F.try_add("sysinfoUnpack", "List String", lambda: E.lean_list(sysinfo_unpack(fn("swap_memory")), ls),
              "swap_memory(): names the tuple of cext.linux_sysinfo() is unpacked into")
    F.try_add("sysinfoTimesUnit", "List String", lambda: E.lean_list(times_unit(fn("swap_memory")), ls),
              "swap_memory(): variables multiplied by unit_multiplier in the fallback")
    ini = E.parse_module(snap, "__init__.py")
    F.try_add("phymemPrimed", "String", lambda: ls(phymem_primed(E.find_def(ini, "virtual_memory"))),
              "psutil.virtual_memory(): attribute of the platform result stored in the global _TOTAL_PHYMEM")
    F.try_add("memPercentTotalExpr", "String",
              lambda: ls(mem_percent_total_expr(E.find_def(ini, "memory_percent", cls="Process"))),
              "Process.memory_percent(): the expression giving total_phymem")

    def fields_of(modname, tname):
        def go():
            ns = {}
            src = snap.source(modname)
            tree = ast.parse(src)
            for st in tree.body:
                if isinstance(st, ast.Assign) and len(st.targets) == 1 and E.dotted(st.targets[0]) == tname \
                        and isinstance(st.value, ast.Call) and E.dotted(st.value.func) == "namedtuple":
                    spec = ast.literal_eval(st.value.args[1])
                    if isinstance(spec, str):
                        spec = spec.replace(",", " ").split()
                    return E.lean_list(list(spec), ls)
            raise NotRecognised("%s = namedtuple(...) not found in %s" % (tname, modname))
        return go
    F.try_add("svmemFields", "List String", fields_of("_pslinux.py", "svmem"), "svmem._fields")
    F.try_add("sswapFields", "List String", fields_of("_common.py", "sswap"), "sswap._fields")
