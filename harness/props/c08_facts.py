"""C08 translator: facts about `_pslinux.virtual_memory / calculate_avail_vmem / swap_memory` and
`_common.usage_percent`, re-derived from the current source with `ast` (+ a runtime dump of the
named-tuple layouts). Everything here ends up in lean/PsutilModel/Generated/C08.lean and is
consumed by `cfg` (Model/C08Gen.lean) → `cfg_good` (Props/C08.lean) and by the driver.
"""
import ast
import re

from harness.common import extract
from harness.common.extract import NotRecognised

E = extract


def _pos(n):
    return (n.lineno, n.col_offset)


def _mems_keys(node, dictname="mems"):
    """byte-string keys used as `mems[b'..']` / `mems.get(b'..', d)` under `node`, source order"""
    found = []
    for n in ast.walk(node):
        if isinstance(n, ast.Subscript) and E.dotted(n.value) == dictname \
                and isinstance(n.slice, ast.Constant) and isinstance(n.slice.value, bytes):
            found.append((_pos(n), n.slice.value))
        elif isinstance(n, ast.Call) and E.dotted(n.func) == dictname + ".get" and n.args \
                and isinstance(n.args[0], ast.Constant) and isinstance(n.args[0].value, bytes):
            found.append((_pos(n), n.args[0].value))
    return [k for _, k in sorted(found)]


def keys_by_target(fn, expected_targets):
    """[(target variable, [keys])] for every assignment in `fn` that reads `mems`, in source
    order, merged per target. TOTAL: when the local names are not the expected ones the map that
    IS there is returned (expected names first, the others after them in source order), so that
    `shapeOk` / `cfg = kernelCfg` fail on the new value instead of being evaluated on a stale one."""
    stmts = []
    for n in ast.walk(fn):
        if isinstance(n, ast.Assign) and len(n.targets) == 1 and isinstance(n.targets[0], ast.Name):
            ks = _mems_keys(n.value)
            if ks:
                stmts.append((_pos(n), n.targets[0].id, ks))
        elif isinstance(n, ast.AugAssign) and isinstance(n.target, ast.Name):
            ks = _mems_keys(n.value)
            if ks:
                stmts.append((_pos(n), n.target.id, ks))
    out = []
    for _, tgt, ks in sorted(stmts):
        for o in out:
            if o[0] == tgt:
                o[1].extend(ks)
                break
        else:
            out.append((tgt, list(ks)))
    if not out:
        raise NotRecognised("no assignment reads `mems`")
    known = [o for o in out if o[0] in expected_targets]
    known.sort(key=lambda o: expected_targets.index(o[0]))
    return known + [o for o in out if o[0] not in expected_targets]


def lean_keymap(km):
    return E.lean_list(km, lambda o: E.lean_pair(E.lean_str(o[0]), E.lean_list(o[1], E.lean_bytes)))


def _flatten_product(n):
    """factors of a `*` chain, left to right"""
    if isinstance(n, ast.BinOp) and isinstance(n.op, ast.Mult):
        return _flatten_product(n.left) + _flatten_product(n.right)
    return [n]


def _is_int_const(n):
    return isinstance(n, ast.Constant) and isinstance(n.value, int) and not isinstance(n.value, bool)


def scaled_int(v):
    """`int(X) * a * b …` (any order) → (X, product of the integer constants, [source text of the
    other factors]). TOTAL over products that contain exactly one `int(...)` call: a factor that is
    not an integer constant (`PAGESIZE`, a conditional expression …) is REPORTED by its text."""
    factors = _flatten_product(v)
    calls = [f for f in factors if isinstance(f, ast.Call) and E.dotted(f.func) == "int" and len(f.args) == 1]
    if len(calls) != 1:
        raise NotRecognised("not int(...) times something: %s" % E.unparse(v))
    const, other = 1, []
    for f in factors:
        if f is calls[0]:
            continue
        if _is_int_const(f) and f.value >= 0:
            const *= f.value
        else:
            other.append(E.unparse(f))
    return calls[0].args[0], const, other


def _meminfo_loop(fn):
    """the `for line in f:` loop that fills `mems`"""
    for n in ast.walk(fn):
        if isinstance(n, ast.For) and any(
                isinstance(s, ast.Assign) and len(s.targets) == 1 and isinstance(s.targets[0], ast.Subscript)
                and E.dotted(s.targets[0].value) == "mems" for s in n.body):
            return n
    raise NotRecognised("no loop assigning mems[...] found")


def parse_stmt(fn):
    """`mems[fields[K]] = int(fields[V]) * F` → [K, V, F]; F = 0 when the multiplier is not a
    constant (the text of the loop is a fact of its own: vmLoopText / swLoopText)"""
    loop = _meminfo_loop(fn)
    hits = [s for s in loop.body if isinstance(s, ast.Assign) and len(s.targets) == 1
            and isinstance(s.targets[0], ast.Subscript) and E.dotted(s.targets[0].value) == "mems"]
    if len(hits) != 1:
        raise NotRecognised("mems[...] assigned %d times in the loop" % len(hits))
    t = hits[0].targets[0]
    if not (isinstance(t.slice, ast.Subscript) and E.dotted(t.slice.value) == "fields"):
        raise NotRecognised("key is not fields[i]: %s" % E.unparse(t))
    k = E.const(t.slice.slice)
    arg, const, other = scaled_int(hits[0].value)
    if not (isinstance(arg, ast.Subscript) and E.dotted(arg.value) == "fields"):
        raise NotRecognised("meminfo value is not int(fields[i])")
    out = [k, E.const(arg.slice), 0 if other else const]
    if not all(isinstance(x, int) and not isinstance(x, bool) and x >= 0 for x in out):
        raise NotRecognised("meminfo parse statement indexes: %s" % out)
    return out


def _bodies(fn):
    for n in ast.walk(fn):
        for f in ("body", "orelse", "finalbody"):
            b = getattr(n, f, None)
            if isinstance(b, list) and b and isinstance(b[0], ast.stmt):
                yield b


def missing_map(fn):
    """[(variable set to 0, name appended to missing_fields)] in source order; "?" for the variable
    when there is not exactly one `x = 0` beside the append (the new shape is reported, not skipped)"""
    out = []
    for body in _bodies(fn):
        for st in body:
            if isinstance(st, ast.Expr) and isinstance(st.value, ast.Call) \
                    and E.dotted(st.value.func) == "missing_fields.append" and len(st.value.args) == 1:
                a = st.value.args[0]
                name = a.value if isinstance(a, ast.Constant) and isinstance(a.value, str) else "<%s>" % E.unparse(a)
                zeroed = [s.targets[0].id for s in body
                          if isinstance(s, ast.Assign) and len(s.targets) == 1
                          and isinstance(s.targets[0], ast.Name)
                          and _is_int_const(s.value) and s.value.value == 0]
                out.append((_pos(st), zeroed[0] if len(zeroed) == 1 else "?", name))
    if not out:
        raise NotRecognised("no missing_fields.append found")
    return [(v, n) for _, v, n in sorted(out)]


def _is_cmp(test, left, op, right):
    return isinstance(test, ast.Compare) and len(test.ops) == 1 and isinstance(test.ops[0], op) \
        and E.unparse(test.left) == left and E.unparse(test.comparators[0]) == right


def _assigns(body, target, value_src):
    return any(isinstance(s, ast.Assign) and len(s.targets) == 1 and E.unparse(s.targets[0]) == target
               and E.unparse(s.value) == value_src for s in body)


def guard(fn, left, op, right, target, value_src):
    """is there an `if <left> <op> <right>:` whose body assigns `target = value_src`? TOTAL as long
    as the variable exists: a guard that does something else counts as absent (the model then
    runs without it and the correspondence produces the input on which that matters)."""
    for n in ast.walk(fn):
        if isinstance(n, ast.If) and _is_cmp(n.test, left, op, right) and _assigns(n.body, target, value_src):
            return True
    if not any(isinstance(n, ast.Name) and n.id == target for n in ast.walk(fn)):
        raise NotRecognised("variable %s not found" % target)
    return False


def round_digits(fn):
    calls = E.calls_in(fn, "usage_percent")
    if len(calls) != 1:
        raise NotRecognised("usage_percent called %d times" % len(calls))
    c = calls[0]
    for kw in c.keywords:
        if kw.arg == "round_":
            v = E.const(kw.value)
            if isinstance(v, int) and not isinstance(v, bool) and v >= 0:
                return v
            raise NotRecognised("round_=%r" % (v,))
    if len(c.args) >= 3:
        v = E.const(c.args[2])
        if isinstance(v, int) and not isinstance(v, bool) and v >= 0:
            return v
    raise NotRecognised("round_ argument of usage_percent not found")


def _startswith_ifs(fn):
    """every `if line.startswith(b'..'):` / `elif …` in source order"""
    out = []
    for n in ast.walk(fn):
        if isinstance(n, ast.If) and isinstance(n.test, ast.Call) and E.dotted(n.test.func) == "line.startswith" \
                and len(n.test.args) == 1:
            out.append((_pos(n), n))
    return [n for _, n in sorted(out, key=lambda t: t[0])]


def low_prefix(fn):
    ifs = _startswith_ifs(fn)
    if len(ifs) != 1:
        raise NotRecognised("%d `line.startswith` tests in calculate_avail_vmem" % len(ifs))
    v = E.const(ifs[0].test.args[0])
    if not isinstance(v, bytes):
        raise NotRecognised("prefix is not a bytes literal")
    return v


def low_index(fn):
    """index I of `watermark_low += int(line.split()[I])` under the `low` test"""
    ifs = _startswith_ifs(fn)
    if len(ifs) != 1:
        raise NotRecognised("%d `line.startswith` tests in calculate_avail_vmem" % len(ifs))
    for s in ifs[0].body:
        if isinstance(s, ast.AugAssign) and isinstance(s.op, ast.Add) \
                and isinstance(s.value, ast.Call) and E.dotted(s.value.func) == "int" and len(s.value.args) == 1:
            a = s.value.args[0]
            if isinstance(a, ast.Subscript) and E.unparse(a.value) == "line.split()":
                return E.const(a.slice)
    raise NotRecognised("`watermark_low += int(line.split()[i])` not recognised")


def wm_times_pagesize(fn):
    for n in ast.walk(fn):
        if isinstance(n, ast.AugAssign) and isinstance(n.op, ast.Mult) \
                and E.unparse(n.target) == "watermark_low":
            return E.unparse(n.value) == "PAGESIZE"
    return False


def vmstat_branch(fn, var):
    """the branch `if line.startswith(P): var = int(<split>[I]) * F…` of the /proc/vmstat loop →
    dict(prefix, split, idx, const, names); every item is extracted on its own (None when that
    item alone is not recognised) so that one unusual piece does not hide the others"""
    for n in _startswith_ifs(fn):
        for s in n.body:
            if isinstance(s, ast.Assign) and len(s.targets) == 1 and E.unparse(s.targets[0]) == var:
                d = {"prefix": None, "split": None, "idx": None, "const": None, "names": None}
                p = n.test.args[0]
                if isinstance(p, ast.Constant) and isinstance(p.value, bytes):
                    d["prefix"] = p.value
                try:
                    arg, const, other = scaled_int(s.value)
                except NotRecognised:
                    return d
                d["const"], d["names"] = const, other
                if isinstance(arg, ast.Subscript):
                    d["split"] = E.unparse(arg.value)
                    if _is_int_const(arg.slice) and arg.slice.value >= 0:
                        d["idx"] = arg.slice.value
                return d
    raise NotRecognised("vmstat branch for %s not recognised" % var)


def _need(v, what):
    if v is None:
        raise NotRecognised(what)
    return v


def call_args(fn, callee):
    """source text of the arguments passed to the record constructor (TOTAL: keyword arguments
    as `name=expr`, anything that is not a plain local name by its text)"""
    calls = [c for c in ast.walk(fn) if isinstance(c, ast.Call) and E.dotted(c.func).split(".")[-1] == callee]
    if len(calls) != 1:
        raise NotRecognised("%s(...) constructed %d times" % (callee, len(calls)))
    c = calls[0]
    return [E.unparse(a) for a in c.args] + ["%s=%s" % (k.arg, E.unparse(k.value)) for k in c.keywords]


def pct_scale(fn):
    """`(float(used) / total) * 100` → 100, and the ZeroDivisionError → 0.0 handler must exist"""
    scale = None
    for n in ast.walk(fn):
        if isinstance(n, ast.BinOp) and isinstance(n.op, ast.Mult) and isinstance(n.right, ast.Constant) \
                and isinstance(n.left, ast.BinOp) and isinstance(n.left.op, ast.Div):
            if E.unparse(n.left) != "float(used) / total":
                raise NotRecognised("usage_percent quotient is %s" % E.unparse(n.left))
            scale = n.right.value
    handlers = [h for h in ast.walk(fn) if isinstance(h, ast.ExceptHandler)
                and h.type is not None and E.dotted(h.type) == "ZeroDivisionError"]
    if scale is None or not isinstance(scale, int) or isinstance(scale, bool) or scale < 0 or len(handlers) != 1:
        raise NotRecognised("usage_percent shape not recognised")
    ret = [s for s in handlers[0].body if isinstance(s, ast.Return)]
    if not ret or E.const(ret[0].value) != 0.0:
        raise NotRecognised("ZeroDivisionError handler does not return 0.0")
    return scale


# ---------------------------------------------------------------- source-text facts
# Statements the model transcribes but that no structured fact above describes (the arithmetic of
# `used`, of the estimate, the arguments of usage_percent, `round()`, the `for … else` / `break`
# of the vmstat loop, the warnings, the exception classes caught). They are pinned by their
# normalised source text (`ast.unparse`: comments and layout do not count) through `textOk`
# (Model/C08Gen.lean) → obligation `cfg_text_good`. An edit there therefore breaks an obligation
# even when every generated input behaves the same (e.g. `int(avail)` → `round(avail)`).

def _texts(nodes):
    return [E.unparse(n) for n in nodes]


def _assigned_name(s):
    if isinstance(s, ast.Assign) and len(s.targets) == 1 and isinstance(s.targets[0], ast.Name):
        return s.targets[0].id
    if isinstance(s, ast.AugAssign) and isinstance(s.target, ast.Name):
        return s.target.id
    return None


def loop_text(fn):
    """body of the /proc/meminfo loop: `fields = line.split()`, `mems[fields[0]] = int(fields[1]) * 1024`"""
    return _texts(_meminfo_loop(fn).body)


def used_text(fn):
    """the statements of the function body that compute `used` (assignment + the `if used …` guard)"""
    out = [s for s in fn.body if _assigned_name(s) == "used"
           or (isinstance(s, ast.If) and E.unparse(s.test).startswith("used "))]
    if not out:
        raise NotRecognised("no statement computing `used`")
    return _texts(out)


def aug_text(fn, var):
    out = sorted(((_pos(n), n) for n in ast.walk(fn) if isinstance(n, ast.AugAssign) and _assigned_name(n) == var),
                 key=lambda t: t[0])
    return _texts([n for _, n in out])


def avail_text(fn):
    """the top-level statements that compute and clamp `avail`"""
    def touches(s):
        if isinstance(s, ast.Try):
            return any(_assigned_name(x) == "avail" for x in ast.walk(s))
        return isinstance(s, ast.If) and E.unparse(s.test).startswith("avail ")
    out = [s for s in fn.body if touches(s) or _assigned_name(s) == "avail"]
    if not out:
        raise NotRecognised("no statement computing `avail`")
    return _texts(out)


def percent_text(fn):
    out = sorted(((_pos(n), n) for n in ast.walk(fn) if isinstance(n, (ast.Assign, ast.Return, ast.Expr))
                  and E.calls_in(n, "usage_percent")), key=lambda t: t[0])
    if not out:
        raise NotRecognised("usage_percent is not called")
    return _texts([n for _, n in out])


def warn_text(fn):
    """every statement that builds or issues a warning, in source order: assignments to `msg`,
    `warnings.warn(...)` calls, and the `if missing_fields:` test guarding them"""
    out = []
    for n in ast.walk(fn):
        if _assigned_name(n) == "msg":
            out.append((_pos(n), E.unparse(n)))
        elif isinstance(n, ast.Expr) and isinstance(n.value, ast.Call) and E.dotted(n.value.func) == "warnings.warn":
            out.append((_pos(n), E.unparse(n)))
        elif isinstance(n, ast.If) and any(isinstance(x, ast.Call) and E.dotted(x.func) == "warnings.warn"
                                          for x in ast.walk(n)):
            out.append((_pos(n), "if %s:" % E.unparse(n.test)))
    if not out:
        raise NotRecognised("no warning is issued")
    return [t for _, t in sorted(out)]


def estimate_text(fn):
    """calculate_avail_vmem() from `watermark_low = 0` to the end: the zoneinfo loop and the
    arithmetic of the estimate (`min`, `/ 2`, `int()`)"""
    for i, s in enumerate(fn.body):
        if _assigned_name(s) == "watermark_low":
            return _texts(fn.body[i:])
    raise NotRecognised("`watermark_low = …` not found at the top level of calculate_avail_vmem")


class _Factor(ast.NodeTransformer):
    """`x = int(...) * <anything>` → `x = int(...) * FACTOR` (the factor is a fact of its own)"""
    def visit_Assign(self, node):
        try:
            factors = _flatten_product(node.value)
            calls = [f for f in factors if isinstance(f, ast.Call) and E.dotted(f.func) == "int"]
            if len(calls) == 1 and len(factors) > 1 and factors[0] is calls[0]:
                node = ast.Assign(targets=node.targets, lineno=node.lineno, col_offset=node.col_offset,
                                  value=ast.BinOp(left=calls[0], op=ast.Mult(), right=ast.Name(id="FACTOR", ctx=ast.Load())))
        except NotRecognised:
            pass
        return node


def vmstat_loop_text(fn):
    """the `for line in f: … else: …` loop over /proc/vmstat with the multipliers replaced by
    FACTOR: pins `startswith`, `elif`, the `break` condition and the `for … else` branch"""
    import copy
    for n in ast.walk(fn):
        if isinstance(n, ast.For) and _startswith_ifs(n):
            m = _Factor().visit(copy.deepcopy(n))
            ast.fix_missing_locations(m)
            return E.unparse(m)
    raise NotRecognised("no loop with line.startswith(...) found")


def body_text(fn):
    """statements of a function body without its docstring"""
    body = fn.body
    if body and isinstance(body[0], ast.Expr) and isinstance(body[0].value, ast.Constant) \
            and isinstance(body[0].value.value, str):
        body = body[1:]
    return _texts(body)


def handler_types(fn):
    """exception classes of the `except` clauses, in source order ("" for a bare except)"""
    hs = sorted(((_pos(h), h) for h in ast.walk(fn) if isinstance(h, ast.ExceptHandler)), key=lambda t: t[0])
    return ["" if h.type is None else E.unparse(h.type) for _, h in hs]


def sysinfo_c(snap):
    """arch/linux/mem.c: (format string, [struct sysinfo members]) of the Py_BuildValue call in
    psutil_linux_sysinfo(), comments stripped"""
    src = snap.source("arch/linux/mem.c")
    src = re.sub(r"/\*.*?\*/", "", src, flags=re.S)
    src = re.sub(r"//[^\n]*", "", src)
    m = re.search(r"psutil_linux_sysinfo\s*\(.*?\)\s*\{(.*?)\n\}", src, flags=re.S)
    if not m:
        raise NotRecognised("psutil_linux_sysinfo() not found in arch/linux/mem.c")
    body = m.group(1)
    if not re.search(r"struct\s+sysinfo\s+info\s*;", body) or not re.search(r"sysinfo\s*\(\s*&info\s*\)", body):
        raise NotRecognised("psutil_linux_sysinfo(): `struct sysinfo info; sysinfo(&info)` not found")
    calls = re.findall(r"Py_BuildValue\s*\(\s*\"([^\"]*)\"\s*,(.*?)\)\s*;", body, flags=re.S)
    if len(calls) != 1:
        raise NotRecognised("psutil_linux_sysinfo(): %d Py_BuildValue calls" % len(calls))
    fmt, args = calls[0]
    members = []
    for a in args.split(","):
        a = a.strip()
        mm = re.fullmatch(r"info\.(\w+)", a)
        if not mm:
            raise NotRecognised("psutil_linux_sysinfo(): argument %r is not a plain member of info" % a)
        members.append(mm.group(1))
    return fmt, members


def sysinfo_unpack(fn):
    """names of `a, b, … = cext.linux_sysinfo()` in swap_memory()"""
    hits = []
    for n in ast.walk(fn):
        if isinstance(n, ast.Assign) and len(n.targets) == 1 and isinstance(n.value, ast.Call) \
                and E.dotted(n.value.func) == "cext.linux_sysinfo":
            t = n.targets[0]
            if not isinstance(t, ast.Tuple):
                hits.append([E.unparse(t)])          # not unpacked at all: reported as it is
            else:
                hits.append([E.unparse(x) for x in t.elts])
    if len(hits) != 1:
        raise NotRecognised("cext.linux_sysinfo() called %d times" % len(hits))
    return hits[0]


def times_unit(fn):
    """targets of `x *= unit_multiplier`, source order"""
    out = []
    for n in ast.walk(fn):
        if isinstance(n, ast.AugAssign) and isinstance(n.op, ast.Mult) and isinstance(n.target, ast.Name) \
                and E.unparse(n.value) == "unit_multiplier":
            out.append((_pos(n), n.target.id))
    return [t for _, t in sorted(out)]


def phymem_primed(fn):
    """psutil.virtual_memory(): `global _TOTAL_PHYMEM; ret = _psplatform.virtual_memory();
    _TOTAL_PHYMEM = ret.<attr>; return ret` → attr ("" when the global is not assigned)"""
    has_global = any(isinstance(n, ast.Global) and "_TOTAL_PHYMEM" in n.names for n in ast.walk(fn))
    assigns = [n for n in ast.walk(fn) if isinstance(n, ast.Assign) and len(n.targets) == 1
               and E.dotted(n.targets[0]) == "_TOTAL_PHYMEM"]
    if not assigns:
        return ""
    if len(assigns) != 1 or not has_global:
        raise NotRecognised("_TOTAL_PHYMEM assigned %d times / global missing" % len(assigns))
    v = assigns[0].value
    rets = [n for n in ast.walk(fn) if isinstance(n, ast.Return)]
    plat = [n for n in ast.walk(fn) if isinstance(n, ast.Assign) and len(n.targets) == 1
            and E.unparse(n.value) == "_psplatform.virtual_memory()"]
    if not (isinstance(v, ast.Attribute) and isinstance(v.value, ast.Name) and len(plat) == 1
            and E.unparse(plat[0].targets[0]) == v.value.id and len(rets) == 1
            and E.unparse(rets[0].value) == v.value.id):
        raise NotRecognised("_TOTAL_PHYMEM = %s: not an attribute of the returned platform result" % E.unparse(v))
    return v.attr


def mem_percent_total_expr(fn):
    """Process.memory_percent(): the expression assigned to total_phymem"""
    hits = [n for n in ast.walk(fn) if isinstance(n, ast.Assign) and len(n.targets) == 1
            and E.unparse(n.targets[0]) == "total_phymem"]
    if len(hits) != 1:
        raise NotRecognised("total_phymem assigned %d times in memory_percent()" % len(hits))
    return E.unparse(hits[0].value)


VM_TARGETS = ["total", "free", "buffers", "cached", "shared", "active", "inactive", "slab", "avail"]
CA_TARGETS = ["free", "fallback", "lru_active_file", "lru_inactive_file", "slab_reclaimable"]
SW_TARGETS = ["total", "free"]
SVMEM_ARGS = ["total", "avail", "percent", "used", "free", "active", "inactive", "buffers", "cached",
              "shared", "slab"]
SSWAP_ARGS = ["total", "used", "free", "percent", "sin", "sout"]


def facts(snap, F):
    lin = E.parse_module(snap, "_pslinux.py")
    com = E.parse_module(snap, "_common.py")

    def fn(name, tree=lin):
        return E.find_def(tree, name)

    ls, lb, ln = E.lean_str, E.lean_bool, E.lean_nat

    def lsl(f):
        return lambda: E.lean_list(f(), ls)
    F.try_add("vmKeys", "List (String × List (List Nat))",
              lambda: lean_keymap(keys_by_target(fn("virtual_memory"), VM_TARGETS)),
              "virtual_memory(): local variable ↦ the /proc/meminfo keys it is read from, in source order")
    F.try_add("caKeys", "List (String × List (List Nat))",
              lambda: lean_keymap(keys_by_target(fn("calculate_avail_vmem"), CA_TARGETS)),
              "calculate_avail_vmem(): local variable ↦ meminfo keys")
    F.try_add("swKeys", "List (String × List (List Nat))",
              lambda: lean_keymap(keys_by_target(fn("swap_memory"), SW_TARGETS)),
              "swap_memory(): local variable ↦ meminfo keys")
    F.try_add("vmParse", "List Nat", lambda: E.lean_list(parse_stmt(fn("virtual_memory")), ln),
              "virtual_memory(): mems[fields[K]] = int(fields[V]) * F as [K, V, F] (F = 0: not a constant)")
    F.try_add("swParse", "List Nat", lambda: E.lean_list(parse_stmt(fn("swap_memory")), ln),
              "swap_memory(): mems[fields[K]] = int(fields[V]) * F as [K, V, F] (F = 0: not a constant)")
    F.try_add("missingMap", "List (String × String)",
              lambda: E.lean_list(missing_map(fn("virtual_memory")), lambda p: E.lean_pair(ls(p[0]), ls(p[1]))),
              "virtual_memory(): (variable set to 0, name appended to missing_fields), source order")
    F.try_add("usedClamp", "Bool",
              lambda: lb(guard(fn("virtual_memory"), "used", ast.Lt, "0", "used", "total - free")),
              "`if used < 0: used = total - free` present")
    F.try_add("zeroAvailFallsBack", "Bool",
              lambda: lb(guard(fn("virtual_memory"), "avail", ast.Eq, "0", "avail", "calculate_avail_vmem(mems)")),
              "`if avail == 0: avail = calculate_avail_vmem(mems)` present")
    F.try_add("availClampLow", "Bool",
              lambda: lb(guard(fn("virtual_memory"), "avail", ast.Lt, "0", "avail", "0")),
              "`if avail < 0: avail = 0` present")
    F.try_add("availClampHigh", "Bool",
              lambda: lb(guard(fn("virtual_memory"), "avail", ast.Gt, "total", "avail", "free")),
              "`elif avail > total: avail = free` present")
    F.try_add("vmRound", "Nat", lambda: ln(round_digits(fn("virtual_memory"))),
              "round_ digits passed to usage_percent by virtual_memory()")
    F.try_add("swRound", "Nat", lambda: ln(round_digits(fn("swap_memory"))),
              "round_ digits passed to usage_percent by swap_memory()")
    F.try_add("lowPrefix", "List Nat", lambda: E.lean_bytes(low_prefix(fn("calculate_avail_vmem"))),
              "prefix selecting the watermark lines of /proc/zoneinfo")
    F.try_add("lowIdx", "Nat", lambda: ln(low_index(fn("calculate_avail_vmem"))),
              "index into line.split() of the watermark value")
    F.try_add("wmTimesPagesize", "Bool", lambda: lb(wm_times_pagesize(fn("calculate_avail_vmem"))),
              "`watermark_low *= PAGESIZE` present")
    for var in ("sin", "sout"):
        def br(var=var):
            return vmstat_branch(fn("swap_memory"), var)
        F.try_add(var + "Prefix", "List Nat", lambda br=br: E.lean_bytes(_need(br()["prefix"], "prefix is not a bytes literal")),
                  "prefix of the /proc/vmstat line feeding %s" % var)
        F.try_add(var + "IdxFactor", "List Nat",
                  lambda br=br: E.lean_list([_need(br()["idx"], "index not a constant"), _need(br()["const"], "not int(...) * k")], ln),
                  "[index into the split line, product of the CONSTANT multipliers] for %s" % var)
        F.try_add(var + "FactorNames", "List String",
                  lambda br=br: E.lean_list(_need(br()["names"], "not int(...) * k"), ls),
                  "the non-constant multipliers of %s by their source text ([] today; [\"PAGESIZE\"] once pages are "
                  "scaled by the real page size)" % var)
        F.try_add(var + "SplitExpr", "String", lambda br=br: ls(_need(br()["split"], "not a subscript")),
                  "the expression whose [index] is read for %s (`line.split(b' ')`: split on single blanks)" % var)
    F.try_add("pctScale", "Nat", lambda: ln(pct_scale(E.find_def(com, "usage_percent"))),
              "usage_percent: (float(used) / total) * SCALE, ZeroDivisionError → 0.0")
    F.try_add("svmemArgs", "List String", lsl(lambda: call_args(fn("virtual_memory"), "svmem")),
              "local variables passed positionally to svmem(...)")
    F.try_add("sswapArgs", "List String", lsl(lambda: call_args(fn("swap_memory"), "sswap")),
              "local variables passed positionally to sswap(...)")

    # source-text facts (→ textOk → cfg_text_good)
    F.try_add("vmLoopText", "List String", lsl(lambda: loop_text(fn("virtual_memory"))),
              "virtual_memory(): body of the /proc/meminfo loop")
    F.try_add("swLoopText", "List String", lsl(lambda: loop_text(fn("swap_memory"))),
              "swap_memory(): body of the /proc/meminfo loop")
    F.try_add("usedText", "List String", lsl(lambda: used_text(fn("virtual_memory"))),
              "virtual_memory(): the statements computing `used`")
    F.try_add("cachedAugText", "List String", lsl(lambda: aug_text(fn("virtual_memory"), "cached")),
              "virtual_memory(): augmented assignments to `cached`")
    F.try_add("availText", "List String", lsl(lambda: avail_text(fn("virtual_memory"))),
              "virtual_memory(): the statements computing and clamping `avail`")
    F.try_add("vmPercentText", "List String", lsl(lambda: percent_text(fn("virtual_memory"))),
              "virtual_memory(): the call of usage_percent")
    F.try_add("vmWarnText", "List String", lsl(lambda: warn_text(fn("virtual_memory"))),
              "virtual_memory(): the statements building and issuing the warning")
    F.try_add("estimateText", "List String", lsl(lambda: estimate_text(fn("calculate_avail_vmem"))),
              "calculate_avail_vmem(): zoneinfo loop and the arithmetic of the estimate")
    F.try_add("swUsedText", "List String", lsl(lambda: used_text(fn("swap_memory"))),
              "swap_memory(): the statements computing `used`")
    F.try_add("swPercentText", "List String", lsl(lambda: percent_text(fn("swap_memory"))),
              "swap_memory(): the call of usage_percent")
    F.try_add("swWarnText", "List String", lsl(lambda: warn_text(fn("swap_memory"))),
              "swap_memory(): the statements building and issuing the two warnings")
    F.try_add("vmstatLoopText", "String", lambda: ls(vmstat_loop_text(fn("swap_memory"))),
              "swap_memory(): the /proc/vmstat loop, multipliers replaced by FACTOR")
    F.try_add("usagePercentText", "List String", lsl(lambda: body_text(E.find_def(com, "usage_percent"))),
              "_common.usage_percent(): its body")
    F.try_add("handlerTypes", "List (String × List String)",
              lambda: E.lean_list([(n, handler_types(fn(n))) for n in ("calculate_avail_vmem", "virtual_memory", "swap_memory")],
                                  lambda p: E.lean_pair(ls(p[0]), E.lean_list(p[1], ls))),
              "exception classes caught, per function, in source order")

    F.try_add("sysinfoCMembers", "List String", lambda: E.lean_list(sysinfo_c(snap)[1], ls),
              "arch/linux/mem.c: members of `struct sysinfo` passed to Py_BuildValue, in order")
    F.try_add("sysinfoCFormat", "String", lambda: ls(sysinfo_c(snap)[0]),
              "arch/linux/mem.c: the Py_BuildValue format string")
    F.try_add("sysinfoUnpack", "List String", lambda: E.lean_list(sysinfo_unpack(fn("swap_memory")), ls),
              "swap_memory(): names the tuple of cext.linux_sysinfo() is unpacked into")
    F.try_add("sysinfoTimesUnit", "List String", lambda: E.lean_list(times_unit(fn("swap_memory")), ls),
              "swap_memory(): variables multiplied by unit_multiplier in the fallback")
    ini = E.parse_module(snap, "__init__.py")
    F.try_add("phymemPrimed", "String", lambda: ls(phymem_primed(E.find_def(ini, "virtual_memory"))),
              "psutil.virtual_memory(): attribute of the platform result stored in the global _TOTAL_PHYMEM")
    F.try_add("memPercentTotalExpr", "String",
              lambda: ls(mem_percent_total_expr(E.find_def(ini, "memory_percent", cls="Process"))),
              "Process.memory_percent(): the expression giving total_phymem")

    def fields_of(modname, tname):
        def go():
            ns = {}
            src = snap.source(modname)
            tree = ast.parse(src)
            for st in tree.body:
                if isinstance(st, ast.Assign) and len(st.targets) == 1 and E.dotted(st.targets[0]) == tname \
                        and isinstance(st.value, ast.Call) and E.dotted(st.value.func) == "namedtuple":
                    spec = ast.literal_eval(st.value.args[1])
                    if isinstance(spec, str):
                        spec = spec.replace(",", " ").split()
                    return E.lean_list(list(spec), ls)
            raise NotRecognised("%s = namedtuple(...) not found in %s" % (tname, modname))
        return go
    F.try_add("svmemFields", "List String", fields_of("_pslinux.py", "svmem"), "svmem._fields")
    F.try_add("sswapFields", "List String", fields_of("_common.py", "sswap"), "sswap._fields")
