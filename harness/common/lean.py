"""Lean side of a check: build the property's theorems, audit axioms, drive the model."""
import fcntl
import json
import os
import re
import subprocess
import time

from .build import VERIF, InfraError

LEAN_DIR = os.path.join(VERIF, "lean")
ALLOWED_AXIOMS = {"propext", "Classical.choice", "Quot.sound"}
FORBIDDEN = re.compile(
    r"\bsorry\b|\badmit\b|^\s*axiom\s|native_decide|bv_decide|implemented_by|\bunsafe\s|maxHeartbeats\s+0\b",
    re.M)


def _env():
    env = dict(os.environ)
    env.pop("LEAN_PATH", None)
    return env


class LakeLock:
    """Serialise writers of lean/.lake and Generated/ across concurrently running checks."""

    def __enter__(self):
        os.makedirs(os.path.join(VERIF, ".cache"), exist_ok=True)
        self.f = open(os.path.join(VERIF, ".cache", "lake.lock"), "w")
        fcntl.flock(self.f, fcntl.LOCK_EX)
        return self

    def __exit__(self, *a):
        fcntl.flock(self.f, fcntl.LOCK_UN)
        self.f.close()


class PropLock:
    """Serialise whole runs of ONE property's check (two concurrent runs of the same property would rewrite
    Generated/<id>.lean and rebuild its .olean under each other's drivers → spurious infrastructure errors).
    Runs of different properties stay parallel."""

    def __init__(self, prop):
        self.prop = prop

    def __enter__(self):
        os.makedirs(os.path.join(VERIF, ".cache"), exist_ok=True)
        self.f = open(os.path.join(VERIF, ".cache", "prop-%s.lock" % self.prop), "w")
        fcntl.flock(self.f, fcntl.LOCK_EX)
        return self

    def __exit__(self, *a):
        fcntl.flock(self.f, fcntl.LOCK_UN)
        self.f.close()


def lake_build(targets, timeout=1500):
    """Return (ok, log). Caller should hold LakeLock."""
    if isinstance(targets, str):
        targets = [targets]
    t0 = time.time()
    try:
        r = subprocess.run(["lake", "build"] + list(targets), cwd=LEAN_DIR, env=_env(),
                           stdout=subprocess.PIPE, stderr=subprocess.STDOUT, text=True, timeout=timeout)
    except FileNotFoundError as e:
        raise InfraError("lake not found: %s" % e)
    except subprocess.TimeoutExpired:
        raise InfraError("lake build timed out after %ss" % timeout)
    return r.returncode == 0, r.stdout, time.time() - t0


def strip_comments(src):
    """Remove Lean block comments (nested) and line comments."""
    out = []
    i, n, depth = 0, len(src), 0
    while i < n:
        if src.startswith("/-", i):
            depth += 1
            i += 2
        elif depth and src.startswith("-/", i):
            depth -= 1
            i += 2
        elif depth:
            if src[i] == "\n":
                out.append("\n")
            i += 1
        elif src.startswith("--", i):
            while i < n and src[i] != "\n":
                i += 1
        else:
            out.append(src[i])
            i += 1
    return "".join(out)


def lean_files_for(prop, prefixes=None):
    """Source files whose content is part of the proof of `prop` (for the forbidden-token grep):
    shared Base files plus every file prefixed by one of the property's ids."""
    prefixes = list(prefixes or [prop])
    pm = os.path.join(LEAN_DIR, "PsutilModel")
    files = []
    for sub in ("Base", "Model", "Spec", "Proofs", "Props", "Generated", "World"):
        d = os.path.join(pm, sub)
        if not os.path.isdir(d):
            continue
        for f in sorted(os.listdir(d)):
            if not f.endswith(".lean"):
                continue
            owned = re.match(r"^C\d\d", f)
            if owned and not any(f.startswith(p) for p in prefixes):
                continue
            if not owned and sub not in ("Base", "World"):
                continue
            files.append(os.path.join(d, f))
    return files


def grep_forbidden(prop, prefixes=None):
    hits = []
    for p in lean_files_for(prop, prefixes):
        with open(p, encoding="utf-8") as f:
            code = strip_comments(f.read())
        for m in FORBIDDEN.finditer(code):
            line = code.count("\n", 0, m.start()) + 1
            hits.append("%s:%d: %s" % (os.path.relpath(p, VERIF), line, m.group(0).strip()))
    return hits


THEOREM_RE = re.compile(r"^\s*(?:private\s+|protected\s+)?theorem\s+([A-Za-z_][\w.']*)", re.M)
NAMESPACE_RE = re.compile(r"^\s*namespace\s+([\w.]+)", re.M)


def property_theorems(prop):
    """Fully-qualified names of every theorem stated in Props/<prop>.lean."""
    p = os.path.join(LEAN_DIR, "PsutilModel", "Props", prop + ".lean")
    with open(p, encoding="utf-8") as f:
        code = strip_comments(f.read())
    names = []
    # single-namespace files (our convention); handle nested `namespace`/`end` conservatively
    stack = []
    for line in code.split("\n"):
        m = re.match(r"\s*namespace\s+([\w.]+)", line)
        if m:
            stack.append(m.group(1))
            continue
        m = re.match(r"\s*end\s+([\w.]+)\s*$", line)
        if m and stack and stack[-1] == m.group(1):
            stack.pop()
            continue
        m = THEOREM_RE.match(line)
        if m:
            names.append(".".join(stack + [m.group(1)]))
    return names


def audit(prop, timeout=900):
    """Write Audit/<prop>.lean with `#print axioms` for every property theorem, run it, and
    return {theorem: [axioms]} plus the list of offending ones."""
    names = property_theorems(prop)
    if not names:
        raise InfraError("no theorems found in Props/%s.lean" % prop)
    os.makedirs(os.path.join(LEAN_DIR, "Audit"), exist_ok=True)
    path = os.path.join(LEAN_DIR, "Audit", prop + ".lean")
    body = "import PsutilModel.Props.%s\n" % prop + "".join("#print axioms %s\n" % n for n in names)
    old = None
    if os.path.exists(path):
        with open(path) as f:
            old = f.read()
    if old != body:
        with open(path, "w") as f:
            f.write(body)
    r = subprocess.run(["lake", "env", "lean", os.path.join("Audit", prop + ".lean")], cwd=LEAN_DIR,
                       env=_env(), stdout=subprocess.PIPE, stderr=subprocess.STDOUT, text=True,
                       timeout=timeout)
    out = r.stdout
    result = {}
    # "'Name' depends on axioms: [a, b]"  or  "'Name' does not depend on any axioms"
    for m in re.finditer(r"'([^']+)' depends on axioms: \[([^\]]*)\]", out, re.S):
        result[m.group(1)] = [a.strip() for a in m.group(2).replace("\n", " ").split(",") if a.strip()]
    for m in re.finditer(r"'([^']+)' does not depend on any axioms", out):
        result[m.group(1)] = []
    bad = {}
    for n in names:
        if n not in result:
            bad[n] = ["<not reported: %s>" % out.strip()[-300:]]
        else:
            extra = [a for a in result[n] if a not in ALLOWED_AXIOMS]
            if extra:
                bad[n] = extra
    return names, result, bad, out


def leanchecker(prop, timeout=1500):
    r = subprocess.run(["lake", "env", "leanchecker", "PsutilModel.Props.%s" % prop], cwd=LEAN_DIR,
                       env=_env(), stdout=subprocess.PIPE, stderr=subprocess.STDOUT, text=True,
                       timeout=timeout)
    return r.returncode == 0, r.stdout[-2000:]


class Driver:
    """`lake env lean --run Driver/<prop>.lean`, one JSON value per line each way.

    Two modes: `batch(list_of_objs) -> list_of_objs` (fast, spawns one process) and
    interactive `ask(obj) -> obj` on a persistent process.
    """

    def __init__(self, prop, file=None):
        self.prop = prop
        self.file = file or os.path.join("Driver", prop + ".lean")
        self.proc = None
        self.lines_sent = 0

    def _cmd(self):
        return ["lake", "env", "lean", "--run", self.file]

    def batch(self, objs, timeout=1200):
        data = "".join(json.dumps(o, separators=(",", ":")) + "\n" for o in objs)
        r = subprocess.run(self._cmd(), cwd=LEAN_DIR, env=_env(), input=data, stdout=subprocess.PIPE,
                           stderr=subprocess.PIPE, text=True, timeout=timeout)
        self.lines_sent += len(objs)
        outs = [l for l in r.stdout.split("\n") if l.strip()]
        if r.returncode != 0 or len(outs) != len(objs):
            raise InfraError("model driver %s failed (rc=%s, %d/%d lines)\nstdout tail: %s\nstderr: %s" % (
                self.file, r.returncode, len(outs), len(objs), r.stdout[-1500:], r.stderr[-3000:]))
        try:
            return [json.loads(l) for l in outs]
        except ValueError as e:
            raise InfraError("model driver printed non-JSON: %s" % e)

    def start(self):
        self.proc = subprocess.Popen(self._cmd(), cwd=LEAN_DIR, env=_env(), stdin=subprocess.PIPE,
                                     stdout=subprocess.PIPE, stderr=subprocess.PIPE, text=True, bufsize=1)
        return self

    def ask(self, obj):
        if self.proc is None:
            self.start()
        self.proc.stdin.write(json.dumps(obj, separators=(",", ":")) + "\n")
        self.proc.stdin.flush()
        self.lines_sent += 1
        line = self.proc.stdout.readline()
        if not line:
            err = self.proc.stderr.read()
            raise InfraError("model driver %s died: %s" % (self.file, err[-3000:]))
        return json.loads(line)

    def close(self):
        if self.proc is not None:
            try:
                self.proc.stdin.close()
                self.proc.wait(timeout=20)
            except Exception:
                self.proc.kill()
            self.proc = None


def hexb(b):
    return bytes(b).hex()


def unhexb(s):
    return bytes.fromhex(s)
