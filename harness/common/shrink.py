"""Delta debugging for op lists / byte strings: keep removing chunks while `fails(x)` stays true."""


def ddmin(items, fails, max_tests=400):
    items = list(items)
    n = 2
    tests = 0
    while len(items) >= 2 and tests < max_tests:
        chunk = max(1, len(items) // n)
        reduced = False
        for i in range(0, len(items), chunk):
            cand = items[:i] + items[i + chunk:]
            tests += 1
            if cand and fails(cand):
                items = cand
                n = max(n - 1, 2)
                reduced = True
                break
            if tests >= max_tests:
                break
        if not reduced:
            if chunk == 1:
                break
            n = min(len(items), n * 2)
    return items
