"""One check run: snapshot → translate → prove → correspond → decide (DESIGN.md §2.1, §3.4).

Exit codes: 0 held / 1 violation (with a `VIOLATION property=<id> replay=<path>` line) /
2 infrastructure failure (never printed as a violation).
"""
import hashlib
import importlib
import json
import os
import random
import sys
import time
import traceback

from . import apidefaults, build, extract, lean
from .build import VERIF, InfraError

# VERIF_EVIDENCE_DIR: used only by tools/seeded_matrix.sh so that runs against a deliberately broken
# scratch tree do not overwrite the evidence of /repo itself
EVIDENCE_DIR = os.environ.get("VERIF_EVIDENCE_DIR") or os.path.join(VERIF, "evidence")
REPLAY_DIR = os.environ.get("VERIF_REPLAY_DIR") or os.path.join(VERIF, "replays")
FINDINGS_FILE = os.path.join(VERIF, "known_findings.json")

BASE_TRUSTED = [
    "Lean 4.33.0 kernel; axioms allowed: propext, Classical.choice, Quot.sound (audited with #print axioms on every property theorem on every run); no sorry/admit/native_decide/bv_decide/own axioms (source grep on every run)",
    "translator (harness/common/extract.py + facts() of the property module): ast/regex extraction of literals, tables and guard placement from /repo's current source into lean/PsutilModel/Generated/<id>.lean",
    "correspondence harness (differential testing of the hand-written Lean model against the real code on generated inputs; validates the model, never stands in for a theorem)",
    "modelled, not verified: CPython built-ins (int(), split, re, dict/set), IEEE doubles (exact rationals in the model), glibc, the kernel's file formats (renderers written from the kernel's documented formats)",
]


class Result:
    """What a property module's correspond() returns."""

    def __init__(self):
        self.evaluations = 0
        self.nontrivial_keys = set()     # hashable canonical forms of the non-trivial cases
        self.rule = ""
        self.samples = []
        self.distribution = {}
        self.exhaustive = None           # None / True / description
        self.disagreements = []          # dicts: input, impl, model, spec, kind, note
        self.known_seen = {}             # finding id -> count of inputs inside its region
        self.notes = []
        self.extra = {}

    def count(self, key, n=1):
        self.distribution[key] = self.distribution.get(key, 0) + n

    def case(self, canonical, nontrivial=True, sample=None):
        self.evaluations += 1
        if nontrivial:
            self.nontrivial_keys.add(hashlib.sha1(repr(canonical).encode()).hexdigest())
        if sample is not None and len(self.samples) < 6:
            self.samples.append(sample)

    def disagree(self, kind, inp, impl, model, spec=None, note="", finding=None):
        """kind: 'spec' (impl ≠ what the property promises: a failing input),
                 'model' (impl ≠ model where the property's observable still matches spec, or no
                          spec available: correspondence broken, no failing input by itself)."""
        self.disagreements.append({"kind": kind, "input": inp, "impl": impl, "model": model,
                                   "spec": spec, "note": note, "finding": finding})


class Ctx:
    def __init__(self, prop, tier, seed, snap, findings):
        self.prop = prop
        self.tier = tier
        self.seed = seed
        self.snap = snap
        self.rng = random.Random(seed)
        self.findings = findings          # known (unfixed) findings of this property
        self.budget_factor = 1            # raised during failing-input search
        self.fact_status = {}
        self.theorems_ok = True
        self._psutil = None
        self.deadline = None

    @property
    def psutil(self):
        if self._psutil is None:
            self._psutil = self.snap.import_psutil()
        return self._psutil

    def n(self, quick, thorough):
        """case budget for this tier (× search factor)"""
        base = thorough if self.tier == "thorough" else quick
        return int(base * self.budget_factor)

    def driver(self, file=None):
        return lean.Driver(self.prop, file)

    def changed_facts(self):
        return sorted(k for k, v in self.fact_status.items() if v.get("state") == "changed")


def load_findings(prop):
    if not os.path.exists(FINDINGS_FILE):
        return [], []
    with open(FINDINGS_FILE) as f:
        data = json.load(f)
    known = [x for x in data.get("findings", []) if x.get("property") == prop and x.get("status", "known") == "known"]
    fixed = [x for x in data.get("fixed", []) if ("property=%s " % prop) in x]
    return known, fixed


def write_replay(prop, obj):
    os.makedirs(REPLAY_DIR, exist_ok=True)
    blob = json.dumps(obj, sort_keys=True, default=str)
    name = "%s-%s.json" % (prop, hashlib.sha1(blob.encode()).hexdigest()[:12])
    path = os.path.join(REPLAY_DIR, name)
    with open(path, "w") as f:
        json.dump(obj, f, indent=1, sort_keys=True, default=str)
    return os.path.relpath(path, VERIF)


def write_evidence(prop, ev):
    os.makedirs(EVIDENCE_DIR, exist_ok=True)
    path = os.path.join(EVIDENCE_DIR, prop + ".json")
    tmp = path + ".tmp%d" % os.getpid()
    with open(tmp, "w") as f:
        json.dump(ev, f, indent=1, default=str)
    os.replace(tmp, path)


def first_errors(log, k=12):
    lines = [l for l in log.split("\n") if "error" in l.lower()]
    return lines[:k] or log.strip().split("\n")[-k:]


def run_check(prop, tier, seed, replay_path=None):
    t0 = time.time()
    mod = importlib.import_module("harness.props." + prop.lower())
    known, fixed = load_findings(prop)
    ev = {"property_id": prop, "tier": tier, "seed": seed, "level": "proof",
          "coverage": {}, "assumptions": [], "wall_s": 0.0, "violations": 0}
    violations = []       # (replay_path, suffix)
    out_lines = []
    snap = build.Snapshot(with_ext=getattr(mod, "NEEDS_EXT", True))
    try:
        ctx = Ctx(prop, tier, seed, snap, known)
        # ---------------------------------------------------------------- translate + prove
        with lean.LakeLock():
            F = extract.Facts(prop)
            mod.facts(snap, F)
            ctx.fact_status = extract.write_generated(prop, F)
            driver_mods = getattr(mod, "DRIVER_MODULES", ["PsutilModel.Model.%s" % prop])
            ok_m, log_m, _ = lean.lake_build(driver_mods + ["PsutilModel.Base.Proto"])
            if not ok_m:
                raise InfraError("model modules do not build:\n" + "\n".join(first_errors(log_m, 30)))
            ok_p, log_p, t_build = lean.lake_build(["PsutilModel.Props.%s" % prop])
            forbidden = lean.grep_forbidden(prop, getattr(mod, "LEAN_PREFIXES", None))
            names, axioms, bad_axioms, audit_out = ([], {}, {}, "")
            if ok_p:
                names, axioms, bad_axioms, audit_out = lean.audit(prop)
            else:
                names = lean.property_theorems(prop)
            checker_ok, checker_log = (None, "")
            if ok_p and tier == "thorough" and not getattr(mod, "SKIP_LEANCHECKER", False):
                checker_ok, checker_log = lean.leanchecker(prop)
        broken = []
        if not ok_p:
            broken.append({"what": "theorems", "detail": first_errors(log_p)})
        if forbidden:
            broken.append({"what": "forbidden-tokens", "detail": forbidden})
        if bad_axioms:
            broken.append({"what": "axioms", "detail": bad_axioms})
        if checker_ok is False:
            broken.append({"what": "leanchecker", "detail": checker_log[-800:]})
        # A fact the translator can no longer extract keeps its baseline value, so the obligations that consume it (cfg_good
        # …) still build — but they are then statements about the OLD source shape: the translator half of the tie is broken
        # for that fact. As for any broken obligation, the failing-input search runs (10x budget) and, when it finds
        # nothing, the run ends with `VIOLATION … no-failing-input-found` naming the facts (the property is no longer
        # SHOWN to hold by the theorems; a harmless reshaping of the code gives the same verdict, as the brief accepts).
        skipped_now = sorted(k for k, v in ctx.fact_status.items() if v.get("state") == "skipped")
        if skipped_now:
            broken.append({"what": "translator",
                           "detail": "fact(s) %s could not be extracted from the current source (%s); the theorems still use the baseline values"
                                     % (", ".join(skipped_now), "; ".join("%s: %s" % (k, ctx.fact_status[k].get("reason", "?")) for k in skipped_now)[:600])})
        ctx.theorems_ok = not broken
        # ---------------------------------------------------------------- replay mode
        if replay_path is not None:
            with open(replay_path) as f:
                rp = json.load(f)
            res = Result()
            if isinstance(rp.get("input"), dict) and "api_default" in rp["input"]:
                still = apidefaults.replay(ctx, rp)
            else:
                still = mod.replay(ctx, rp, res)
            if still:
                p = write_replay(prop, dict(rp, replayed_at=time.time()))
                print("VIOLATION property=%s replay=%s" % (prop, p))
                return 1
            print("replay: the recorded input no longer violates %s" % prop)
            return 0
        # ---------------------------------------------------------------- correspond
        res = Result()
        mod.correspond(ctx, res)
        apidefaults.check(ctx, res, prop)          # documented default arguments of the calls this property speaks about
        # a disagreement tagged with a finding id is tolerated ONLY while that finding is listed as known for this
        # property (known_findings.json); once it has been fixed (or was never listed) the tag suppresses nothing
        known_ids = {f.get("id") for f in known}

        def untolerated(d):
            return not (d.get("finding") and d["finding"] in known_ids)
        stale_tags = sorted({d["finding"] for d in res.disagreements if d.get("finding") and d["finding"] not in known_ids})
        if stale_tags:
            out_lines.append("NOTE: property=%s disagreements tagged with finding(s) %s that are not listed as known: counted as violations"
                             % (prop, ", ".join(stale_tags)))
        spec_fail = [d for d in res.disagreements if d["kind"] == "spec" and untolerated(d)]
        model_fail = [d for d in res.disagreements if d["kind"] == "model" and untolerated(d)]
        if model_fail:
            broken.append({"what": "correspondence", "detail": "%d disagreement(s) impl vs model" % len(model_fail)})
        if spec_fail and not any(b["what"] == "correspondence" for b in broken):
            broken.append({"what": "correspondence", "detail": "%d input(s) on which impl differs from the specification" % len(spec_fail)})
        searched = None
        if broken and not spec_fail:
            # failing-input search: clause-directed generators at 10x the budget, new seed stream
            ctx.budget_factor = 10
            ctx.rng = random.Random(seed * 7919 + 13)
            res2 = Result()
            try:
                if hasattr(mod, "search"):
                    mod.search(ctx, res2, broken)
                else:
                    mod.correspond(ctx, res2)
            except InfraError:
                raise
            searched = {"evaluations": res2.evaluations, "found": 0}
            spec_fail = [d for d in res2.disagreements if d["kind"] == "spec" and untolerated(d)]
            searched["found"] = len(spec_fail)
            res.evaluations += res2.evaluations
            res.nontrivial_keys |= res2.nontrivial_keys
        # ---------------------------------------------------------------- decide
        if spec_fail:
            d = spec_fail[0]
            if hasattr(mod, "shrink"):
                try:
                    d = mod.shrink(ctx, d) or d
                except Exception:
                    pass
            rp = {"property": prop, "kind": "counterexample",
                  "broken": [b["what"] for b in broken] or ["specification"],
                  "broken_detail": broken, "seed": seed, "tier": tier,
                  "input": d["input"], "impl_output": d["impl"], "model_output": d["model"],
                  "spec_output": d["spec"], "note": d.get("note", ""),
                  "how_to_run": "./check %s --replay <this file>" % prop}
            violations.append((write_replay(prop, rp), ""))
        elif broken:
            rp = {"property": prop, "kind": "no-failing-input-found",
                  "broken": [b["what"] for b in broken], "broken_detail": broken,
                  "changed_translator_facts": {k: ctx.fact_status[k] for k in ctx.changed_facts()},
                  "seed": seed, "tier": tier, "searched": searched,
                  "first_model_disagreement": (model_fail[0] if model_fail else None),
                  "how_to_run": "./check %s --tier %s" % (prop, tier)}
            violations.append((write_replay(prop, rp), " no-failing-input-found"))
        # known findings: replay each witness; print KNOWN-FINDING when it still reproduces
        known_seen = {}
        for fnd in known:
            status = "unknown"
            if hasattr(mod, "check_finding"):
                try:
                    status = mod.check_finding(ctx, fnd)
                except InfraError:
                    raise
                except Exception as e:  # a crash while replaying a witness is infrastructure
                    raise InfraError("check_finding(%s) crashed: %s\n%s" % (fnd.get("id"), e, traceback.format_exc()))
            known_seen[fnd["id"]] = {"status": status, "inputs_in_region": res.known_seen.get(fnd["id"], 0)}
            if status == "reproduces":
                out_lines.append("KNOWN-FINDING: property=%s %s" % (prop, fnd["what"]))
            else:
                out_lines.append("NOTE: finding %s of %s no longer reproduces (%s)" % (fnd["id"], prop, status))
        # ---------------------------------------------------------------- evidence
        discharged = 0
        if ok_p:
            discharged = sum(1 for n in names if n in axioms and n not in bad_axioms)
            if forbidden:
                discharged = 0
        cov = {
            "obligations": len(names),
            "discharged": discharged,
            "checker_cmd": "cd lean && lake build PsutilModel.Props.%s && lake env lean Audit/%s.lean%s" % (
                prop, prop, " && lake env leanchecker PsutilModel.Props.%s" % prop if tier == "thorough" else ""),
            "trusted_base": BASE_TRUSTED + list(getattr(mod, "TRUSTED", [])),
            "theorems": names,
            "axioms_used": sorted({a for v in axioms.values() for a in v}),
            "evaluations": res.evaluations,
            "distinct_nontrivial": len(res.nontrivial_keys),
            "rule": res.rule,
            "samples": res.samples,
            "input_distribution": res.distribution,
            "translator_facts": ctx.fact_status,
            "translator_skipped": sorted(k for k, v in ctx.fact_status.items() if v.get("state") == "skipped"),
            "correspondence": {"cases": res.evaluations,
                               "disagreements": len(res.disagreements),
                               "driver_lines": res.extra.get("driver_lines")},
            "known_findings_seen": known_seen,
            "fixed_findings": fixed,
            "broken": broken,
            "failing_input_search": searched,
            "ext_build_cached": snap.ext_cached,
            "checked_tree": snap.repo_state(),
            "lake_build_s": round(t_build, 2),
        }
        if res.exhaustive is not None:
            cov["exhaustive"] = bool(res.exhaustive)
            if not isinstance(res.exhaustive, bool):
                cov["exhaustive_over"] = res.exhaustive
        if checker_ok is not None:
            cov["leanchecker_ok"] = checker_ok
        cov.update({k: v for k, v in res.extra.items() if k not in cov})
        if res.notes:
            cov["notes"] = res.notes
        ev["coverage"] = cov
        ev["assumptions"] = list(getattr(mod, "ASSUMPTIONS", []))
        ev["violations"] = len(violations)
        ev["wall_s"] = round(time.time() - t0, 2)
        write_evidence(prop, ev)
        if skipped_now:
            out_lines.append("NOTE: property=%s translator could not extract %d fact(s) (baseline values kept; counted as a broken obligation): %s"
                             % (prop, len(skipped_now), ", ".join(skipped_now)))
        for l in out_lines:
            print(l)
        for path, suffix in violations:
            print("VIOLATION property=%s replay=%s%s" % (prop, path, suffix))
        if not violations:
            print("OK property=%s tier=%s seed=%d theorems=%d/%d cases=%d nontrivial=%d wall=%.1fs" % (
                prop, tier, seed, discharged, len(names), res.evaluations, len(res.nontrivial_keys), time.time() - t0))
        return 1 if violations else 0
    finally:
        snap.close()
        if os.path.realpath(build.REPO) != "/repo" or os.environ.get("VERIF_EVIDENCE_DIR"):
            # scratch-tree run (seeded change, mutation sweep): do not leave its facts in the tracked Generated/ file
            try:
                with lean.LakeLock():
                    extract.restore_baseline(prop)
            except Exception:
                pass


def main(argv):
    import argparse
    ap = argparse.ArgumentParser(prog="check")
    ap.add_argument("prop")
    ap.add_argument("--tier", default=os.environ.get("VERIF_TIER", "quick"), choices=["quick", "thorough"])
    ap.add_argument("--replay", default=None)
    ap.add_argument("--seed", type=int, default=None)
    ap.add_argument("--rebaseline", action="store_true",
                    help="after translating, copy Generated/<id>.lean to GeneratedBaseline/ (maintainer use)")
    a = ap.parse_args(argv)
    seed = a.seed if a.seed is not None else int(os.environ.get("VERIF_SEED", "1") or 1)
    prop = a.prop.upper()
    try:
        if a.rebaseline:
            mod = importlib.import_module("harness.props." + prop.lower())
            with build.Snapshot(with_ext=getattr(mod, "NEEDS_EXT", True)) as snap, lean.LakeLock():
                F = extract.Facts(prop)
                mod.facts(snap, F)
                if F.skipped:
                    print("cannot rebaseline, skipped facts:", F.skipped)
                    return 2
                extract.write_generated(prop, F)
                extract.rebaseline(prop)
            print("rebaselined", prop)
            return 0
        # C01 and C02 share one Lean model: they take the same lock
        with lean.PropLock("C01" if prop == "C02" else prop):
            return run_check(prop, a.tier, seed, a.replay)
    except InfraError as e:
        print("INFRA-ERROR property=%s: %s" % (prop, e), file=sys.stderr)
        return 2
    except Exception:
        print("INFRA-ERROR property=%s: harness crashed\n%s" % (prop, traceback.format_exc()), file=sys.stderr)
        return 2
