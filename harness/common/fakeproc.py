"""A fake procfs tree on disk (`psutil.PROCFS_PATH` is re-read on every call) plus a few
helpers to patch OS entry points from outside the repository and to reset psutil's
module-level state between cases."""
import contextlib
import os
import shutil
import tempfile


class FakeProc:
    def __init__(self, psutil, prefix="psv-proc-"):
        self.ps = psutil
        self.root = tempfile.mkdtemp(prefix=prefix)
        self.saved = psutil.PROCFS_PATH
        psutil.PROCFS_PATH = self.root

    # ---- tree building
    def path(self, rel):
        return os.path.join(self.root, rel)

    def write(self, rel, data):
        p = self.path(rel)
        os.makedirs(os.path.dirname(p), exist_ok=True)
        if isinstance(data, str):
            data = data.encode("utf-8", "surrogateescape")
        with open(p, "wb") as f:
            f.write(bytes(data))
        return p

    def mkdir(self, rel):
        os.makedirs(self.path(rel), exist_ok=True)

    def symlink(self, rel, target):
        """`target` may be arbitrary bytes/str (os.readlink returns exactly what is stored)."""
        p = self.path(rel)
        os.makedirs(os.path.dirname(p), exist_ok=True)
        if os.path.lexists(p):
            os.unlink(p)
        os.symlink(target, p if isinstance(target, str) else os.fsencode(p))

    def remove(self, rel):
        p = self.path(rel)
        if os.path.isdir(p) and not os.path.islink(p):
            shutil.rmtree(p, ignore_errors=True)
        elif os.path.lexists(p):
            os.unlink(p)

    def clear(self):
        for n in os.listdir(self.root):
            self.remove(n)

    def close(self):
        self.ps.PROCFS_PATH = self.saved
        shutil.rmtree(self.root, ignore_errors=True)

    def __enter__(self):
        return self

    def __exit__(self, *a):
        self.close()


def reset_psutil_state(ps):
    """Forget every module-level cache psutil keeps between calls."""
    ps._pmap.clear() if hasattr(ps, "_pmap") else None
    if hasattr(ps, "_pids_reused"):
        ps._pids_reused.clear()
    ps._LOWEST_PID = None
    ps._TOTAL_PHYMEM = None
    for name in ("_last_cpu_times", "_last_per_cpu_times", "_last_cpu_times_2", "_last_per_cpu_times_2"):
        if hasattr(ps, name) and isinstance(getattr(ps, name), dict):
            getattr(ps, name).clear()
    plat = ps._psplatform
    if hasattr(plat, "BOOT_TIME"):
        plat.BOOT_TIME = None
    ps._common.wrap_numbers.cache_clear()
    for mod in (ps, plat, ps._common, getattr(ps, "_psposix", None)):
        if mod is None:
            continue
        for v in list(vars(mod).values()):
            cc = getattr(v, "cache_clear", None)
            if callable(cc) and getattr(v, "__wrapped__", None) is not None:
                try:
                    cc()
                except Exception:
                    pass


@contextlib.contextmanager
def patched(obj, name, value):
    old = getattr(obj, name)
    setattr(obj, name, value)
    try:
        yield
    finally:
        setattr(obj, name, old)


def outcome(fn, *a, **kw):
    """Call the implementation; every exception becomes an observable."""
    try:
        return {"kind": "ok", "value": fn(*a, **kw)}
    except BaseException as e:  # noqa: BLE001 — the class is the observable
        if isinstance(e, (KeyboardInterrupt, SystemExit)):
            raise
        d = {"kind": "exc", "exc": type(e).__name__}
        for attr in ("pid", "name", "seconds"):
            if hasattr(e, attr):
                v = getattr(e, attr)
                if v is None or isinstance(v, (int, float, str)):
                    d[attr] = v
        return d
