"""Documented default arguments of the public calls each property speaks about.

The property statements are written in terms of the documented call forms (`children()` = the direct
children, `wait()` = no timeout, `net_io_counters()` = totals with nowrap, …). The models take every argument
explicitly and most harnesses pass every argument explicitly too, so a changed DEFAULT value — a realistic
breaking change which the pinned test-suite need not notice — would be invisible to the correspondence (found by
tools/automut.py: flipping `recursive=False`, `perdisk=False`, `nowrap=True` survived the C05/C09/C10 checks).

This is the tie for that part of the API: on every run the defaults are read off the freshly imported snapshot
with `inspect.signature` and compared with the documented ones below (which are themselves cross-checked against
docs/index.rst of the snapshot when it is present). A mismatch is a failing input of the property: the call
written without that argument no longer means what the statement says.
"""
import inspect
import os
import re

# property -> [(dotted name under the `psutil` package, {parameter: documented default})]
TABLE = {
    "C04": [("process_iter", {"attrs": None, "ad_value": None})],
    "C05": [("Process.children", {"recursive": False})],
    "C07": [("cpu_times", {"percpu": False}), ("cpu_percent", {"interval": None, "percpu": False}),
            ("cpu_times_percent", {"interval": None, "percpu": False}), ("Process.cpu_percent", {"interval": None})],
    "C09": [("disk_io_counters", {"perdisk": False, "nowrap": True}), ("net_io_counters", {"pernic": False, "nowrap": True})],
    "C10": [("disk_io_counters", {"perdisk": False, "nowrap": True}), ("net_io_counters", {"pernic": False, "nowrap": True})],
    "C11": [("net_connections", {"kind": "inet"}), ("Process.net_connections", {"kind": "inet"})],
    "C13": [("Process.memory_percent", {"memtype": "rss"}), ("Process.memory_maps", {"grouped": True})],
    "C15": [("Process.wait", {"timeout": None}), ("wait_procs", {"timeout": None, "callback": None})],
    "C16": [("Process.as_dict", {"attrs": None, "ad_value": None})],
    "C17": [("disk_partitions", {"all": False})],
    "C18": [("Process.nice", {"value": None}), ("Process.ionice", {"ioclass": None, "value": None}),
            ("Process.rlimit", {"limits": None}), ("Process.cpu_affinity", {"cpus": None})],
    "C19": [("sensors_temperatures", {"fahrenheit": False}), ("cpu_freq", {"percpu": False}), ("cpu_count", {"logical": True})],
}


def _resolve(ps, dotted):
    obj = ps
    for part in dotted.split("."):
        obj = getattr(obj, part)
    return obj


def _doc_defaults(snap_dir):
    """{'children': {'recursive': 'False'}, …} from `.. function::` / `.. method::` lines of docs/index.rst"""
    path = os.path.join(snap_dir, "docs", "index.rst")
    out = {}
    if not os.path.isfile(path):
        return out
    with open(path, encoding="utf-8") as f:
        for line in f:
            m = re.match(r"\s*\.\. (?:function|method):: (\w+)\((.*)\)\s*$", line)
            if not m:
                continue
            params = {}
            for p in m.group(2).split(","):
                if "=" in p:
                    k, v = p.split("=", 1)
                    params[k.strip()] = v.strip().replace('"', "'")
            if params:
                out.setdefault(m.group(1), {}).update(params)
    return out


def check(ctx, res, prop):
    """records a 'spec' disagreement for every documented default the snapshot's signature no longer has"""
    rows = TABLE.get(prop)
    if not rows:
        return
    ps = ctx.psutil
    docs = _doc_defaults(ctx.snap.dir)
    for dotted, want in rows:
        res.count("api_defaults_checked", len(want))
        try:
            sig = inspect.signature(_resolve(ps, dotted))
        except Exception as e:  # noqa: BLE001 - a vanished public name is an observable
            res.disagree("spec", {"api_default": dotted, "param": None}, "%s: %s" % (type(e).__name__, e), None,
                         {"documented": want}, note="public call %s is gone / has no signature" % dotted)
            continue
        for param, default in want.items():
            p = sig.parameters.get(param)
            got = "<no such parameter>" if p is None else ("<required>" if p.default is inspect.Parameter.empty else p.default)
            res.case(("api_default", dotted, param), nontrivial=False)
            if got != default or type(got) is not type(default):
                res.disagree("spec", {"api_default": dotted, "param": param}, repr(got), None, {"documented_default": repr(default)},
                             note="the documented call form psutil.%s() relies on %s=%r; the code's default is %r"
                                  % (dotted, param, default, got))
            d = docs.get(dotted.split(".")[-1], {}).get(param)
            if d is not None and d != repr(default):
                # the table above and the snapshot's docs disagree: a drift of this harness, not of the code
                res.disagree("model", {"api_default": dotted, "param": param}, d, repr(default), None,
                             note="docs/index.rst documents %s=%s, this table says %r" % (param, d, default))


def replay(ctx, rp):
    """True iff the recorded default mismatch is still there"""
    inp = rp.get("input") or {}
    dotted, param = inp.get("api_default"), inp.get("param")
    for rows in TABLE.values():
        for d, want in rows:
            if d == dotted and param in want:
                try:
                    p = inspect.signature(_resolve(ctx.psutil, dotted)).parameters.get(param)
                except Exception:  # noqa: BLE001
                    return True
                if p is None or p.default is inspect.Parameter.empty:
                    return True
                return p.default != want[param] or type(p.default) is not type(want[param])
    return True
