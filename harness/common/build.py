"""Snapshot /repo's current working tree into a private scratch dir and build its C extension.

The extension build is cached under /verif/.cache/ext/<hash>/ keyed by the SHA-256 of every
file that can influence it (setup.py, psutil/*.c, psutil/*.h, psutil/arch/**, pyproject.toml,
plus the compiler flags), so a check still *rebuilds from the current tree* whenever any of
those change, but 20 checks in a row do not compile the same C twenty times.
"""
import hashlib
import os
import shutil
import subprocess
import sys
import tempfile
import fcntl

VERIF = os.path.dirname(os.path.dirname(os.path.dirname(os.path.abspath(__file__))))
REPO = os.environ.get("REPO", "/repo")
CACHE = os.path.join(VERIF, ".cache")
PY = "/venv/bin/python"


class InfraError(Exception):
    """Toolchain / harness failure: exit code 2, never a violation."""


def _ext_inputs(repo):
    files = []
    for name in ("setup.py", "pyproject.toml", "MANIFEST.in"):
        p = os.path.join(repo, name)
        if os.path.isfile(p):
            files.append(p)
    pk = os.path.join(repo, "psutil")
    for root, dirs, fs in os.walk(pk):
        dirs[:] = sorted(d for d in dirs if d not in ("tests", "__pycache__"))
        for f in sorted(fs):
            if f.endswith((".c", ".h")):
                files.append(os.path.join(root, f))
    # _common.py is imported by setup.py (for constants); version lives in __init__.py
    for f in ("_common.py", "__init__.py"):
        files.append(os.path.join(pk, f))
    return files


def ext_hash(repo, extra=""):
    h = hashlib.sha256()
    h.update(extra.encode())
    h.update(sys.version.encode())
    for p in _ext_inputs(repo):
        h.update(os.path.relpath(p, repo).encode())
        with open(p, "rb") as f:
            data = f.read()
        if p.endswith("__init__.py"):
            # only the version line matters for the extension
            import re
            m = re.search(rb"^__version__ = .*$", data, re.M)
            data = m.group(0) if m else b""
        elif p.endswith("_common.py"):
            data = b""  # pure Python helper for setup.py output colouring
        h.update(hashlib.sha256(data).digest())
    return h.hexdigest()[:24]


def copy_tree(repo, dst):
    """Copy the working tree (not .git, not docs, not build output)."""
    def ignore(d, names):
        out = set()
        for n in names:
            if n in (".git", "docs", "build", "dist", "__pycache__", ".cache", ".tox") or \
               n.endswith((".so", ".pyc", ".o", ".egg-info")):
                out.add(n)
        return out
    shutil.copytree(repo, dst, ignore=ignore, symlinks=True)


def build_ext(repo, env_extra=None, tag="std"):
    """Return a directory holding the freshly built (or hash-cached) *.so files."""
    env_extra = env_extra or {}
    key = ext_hash(repo, extra=tag + repr(sorted(env_extra.items())))
    out = os.path.join(CACHE, "ext", key)
    os.makedirs(os.path.join(CACHE, "ext"), exist_ok=True)
    lock = open(os.path.join(CACHE, "ext", ".lock"), "w")
    fcntl.flock(lock, fcntl.LOCK_EX)
    try:
        if os.path.isdir(out) and any(f.endswith(".so") for f in os.listdir(out)):
            return out, True
        scratch = tempfile.mkdtemp(prefix="psv-build-")
        try:
            src = os.path.join(scratch, "src")
            copy_tree(repo, src)
            env = dict(os.environ)
            env.update(env_extra)
            env.pop("PYTHONPATH", None)
            r = subprocess.run([PY, "setup.py", "build_ext", "--inplace"], cwd=src, env=env,
                               stdout=subprocess.PIPE, stderr=subprocess.STDOUT, text=True,
                               timeout=600)
            sos = [f for f in os.listdir(os.path.join(src, "psutil")) if f.endswith(".so")]
            if r.returncode != 0 or not sos:
                raise InfraError("C extension build failed:\n" + r.stdout[-4000:])
            tmp_out = out + ".tmp%d" % os.getpid()
            os.makedirs(tmp_out, exist_ok=True)
            for f in sos:
                shutil.copy2(os.path.join(src, "psutil", f), os.path.join(tmp_out, f))
            os.rename(tmp_out, out)
            return out, False
        finally:
            shutil.rmtree(scratch, ignore_errors=True)
    finally:
        fcntl.flock(lock, fcntl.LOCK_UN)
        lock.close()


class Snapshot:
    """A private importable copy of /repo's current `psutil` package (+ built extension)."""

    def __init__(self, repo=None, env_extra=None, tag="std", with_ext=True):
        self.repo = repo or REPO
        self.dir = tempfile.mkdtemp(prefix="psv-snap-")
        self.pkg = os.path.join(self.dir, "psutil")
        self.ext_cached = None
        try:
            def ignore(d, names):
                return {n for n in names if n in ("tests", "__pycache__") or n.endswith((".so", ".pyc"))}
            shutil.copytree(os.path.join(self.repo, "psutil"), self.pkg, ignore=ignore)
            # docs are needed by a few translator facts (C20); copy only index.rst if present
            doc = os.path.join(self.repo, "docs", "index.rst")
            if os.path.isfile(doc):
                os.makedirs(os.path.join(self.dir, "docs"), exist_ok=True)
                shutil.copy2(doc, os.path.join(self.dir, "docs", "index.rst"))
            if with_ext:
                so_dir, cached = build_ext(self.repo, env_extra=env_extra, tag=tag)
                self.ext_cached = cached
                for f in os.listdir(so_dir):
                    shutil.copy2(os.path.join(so_dir, f), os.path.join(self.pkg, f))
        except Exception:
            self.close()
            raise

    def source(self, rel):
        with open(os.path.join(self.pkg, rel), encoding="utf-8") as f:
            return f.read()

    def repo_state(self):
        """What was checked: git HEAD of the repository the snapshot was taken from, the tracked files that
        differ from it (uncommitted edits ARE checked: the snapshot is of the working tree) and a digest of
        the snapshot's sources — written into the evidence so that a result can be tied to a tree."""
        import hashlib
        import subprocess
        st = {"repo": self.repo}
        try:
            st["head"] = subprocess.run(["git", "-C", self.repo, "rev-parse", "--short", "HEAD"], capture_output=True,
                                        text=True, timeout=20).stdout.strip()
            dirty = subprocess.run(["git", "-C", self.repo, "status", "--porcelain", "--untracked-files=no"],
                                   capture_output=True, text=True, timeout=20).stdout.split("\n")
            st["dirty_files"] = [l[3:] for l in dirty if l.strip()][:50]
        except Exception as e:  # not a git checkout: still fine
            st["head"] = "unknown (%s)" % type(e).__name__
        h = hashlib.sha256()
        for root, dirs, files in os.walk(self.pkg):
            dirs.sort()
            for f in sorted(files):
                if f.endswith((".py", ".c", ".h")):
                    fp = os.path.join(root, f)
                    h.update(os.path.relpath(fp, self.pkg).encode())
                    with open(fp, "rb") as fh:
                        h.update(fh.read())
        st["sources_sha256"] = h.hexdigest()
        return st

    def import_psutil(self):
        """Import the snapshot's psutil into this interpreter (must not be imported yet)."""
        for m in list(sys.modules):
            if m == "psutil" or m.startswith("psutil."):
                raise InfraError("psutil already imported from %r" % getattr(sys.modules[m], "__file__", "?"))
        sys.path.insert(0, self.dir)
        import psutil  # noqa
        if not os.path.abspath(psutil.__file__).startswith(os.path.abspath(self.dir)):
            raise InfraError("imported psutil from %s, expected snapshot %s" % (psutil.__file__, self.dir))
        return psutil

    def close(self):
        shutil.rmtree(self.dir, ignore_errors=True)

    def __enter__(self):
        return self

    def __exit__(self, *a):
        self.close()
