import sys
from harness.common.runner import main

if __name__ == "__main__":
    sys.exit(main(sys.argv[1:]))
