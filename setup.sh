#!/bin/sh
# Offline setup after a fresh restore: build the Lean library (models, specs, proofs) and
# pre-build /repo's C extension into the hash-keyed cache. Needs no network.
set -e
cd "$(dirname "$0")"
command -v lake >/dev/null || { echo "lake not on PATH" >&2; exit 2; }
# Generated/ must hold the facts of the tree the proofs were made on (a check run regenerates them anyway)
cp lean/GeneratedBaseline/*.lean lean/PsutilModel/Generated/ 2>/dev/null || true
python3 tools/gen_root.py
(cd lean && lake build 2>&1 | tail -5) || echo "WARNING: lake build reported failures; the affected checks will report them" >&2
PYTHONPATH="$(pwd)" /venv/bin/python - <<'PY'
from harness.common import build
d, cached = build.build_ext(build.REPO)
print("extension:", d, "(cached)" if cached else "(built)")
PY
echo "setup ok"
