/-
  Base/C09Sysfs.lean — a directory tree as `os.listdir` / `os.walk` present it (added for C09's
  `read_sysfs`; import-free apart from Base.Bytes).

  `SysDir.node name files subs`: a directory with its base name, its non-directory entries
  (name, content) and its sub-directories, each list in the order the OS lists them.
  `walk` = `os.walk(top)` (top-down, `followlinks=False`: a symlinked sub-directory is simply not
  part of `subs`), yielding `(basename(root), files)` per directory; `walkList blocks` = the two
  nested loops `for block in os.listdir(d): for root, _, files in os.walk(join(d, block))`.
-/
import PsutilModel.Base.Bytes
namespace Psutil.C09

inductive SysDir where
  | node (name : Bytes) (files : List (Bytes × Bytes)) (subs : List SysDir)

def SysDir.name : SysDir → Bytes
  | .node n _ _ => n

mutual
/-- `os.walk(dir)`, top-down: the directory itself, then every sub-directory in listing order -/
def SysDir.walk : SysDir → List (Bytes × List (Bytes × Bytes))
  | .node n fs subs => (n, fs) :: walkList subs
def walkList : List SysDir → List (Bytes × List (Bytes × Bytes))
  | [] => []
  | d :: r => d.walk ++ walkList r
end

theorem walk_node (n : Bytes) (fs : List (Bytes × Bytes)) (subs : List SysDir) :
    (SysDir.node n fs subs).walk = (n, fs) :: walkList subs := by
  rw [SysDir.walk]

theorem walkList_nil : walkList [] = [] := by rw [walkList]

theorem walkList_cons (d : SysDir) (r : List SysDir) : walkList (d :: r) = d.walk ++ walkList r := by
  rw [walkList]

theorem walkList_append (a b : List SysDir) : walkList (a ++ b) = walkList a ++ walkList b := by
  induction a with
  | nil => simp [walkList_nil]
  | cons d r ih => simp [walkList_cons, ih]

theorem walkList_map {α : Type} (f : α → SysDir) (xs : List α) :
    walkList (xs.map f) = xs.flatMap fun x => (f x).walk := by
  induction xs with
  | nil => simp [walkList_nil]
  | cons x r ih => simp [walkList_cons, ih]

end Psutil.C09
