/-
  Base/Dec.lean — number rendering (as the kernel's `%llu`, `%o`, `%X` do) and parsing
  (as Python's `int(s)`, `int(s, 8)`, `int(s, 16)` do on plain digit strings), with the
  round-trip theorem for every natural number. Import-free.
-/
import PsutilModel.Base.Bytes
namespace Psutil

/-- A positional notation: radix, digit → character, character → digit value. -/
structure Radix where
  base : Nat
  hbase : 2 ≤ base
  chr : Nat → Nat
  val : Nat → Option Nat
  val_chr : ∀ d, d < base → val (chr d) = some d

def renderRadixAux (r : Radix) (n : Nat) (acc : Bytes) : Bytes :=
  if _h : n < r.base then r.chr n :: acc
  else renderRadixAux r (n / r.base) (r.chr (n % r.base) :: acc)
termination_by n
decreasing_by
  have := r.hbase
  exact Nat.div_lt_self (by omega) (by omega)

def renderRadix (r : Radix) (n : Nat) : Bytes := renderRadixAux r n []

def parseRadixAux (r : Radix) : Bytes → Nat → Option Nat
  | [], acc => some acc
  | c :: cs, acc =>
    match r.val c with
    | some d => parseRadixAux r cs (acc * r.base + d)
    | none => none

/-- `int(s, base)` restricted to non-empty plain digit strings (no sign, blanks, `_`). -/
def parseRadix? (r : Radix) : Bytes → Option Nat
  | [] => none
  | cs => parseRadixAux r cs 0

def numDigits (r : Radix) (n : Nat) : Nat :=
  if _h : n < r.base then 1 else numDigits r (n / r.base) + 1
termination_by n
decreasing_by
  have := r.hbase
  exact Nat.div_lt_self (by omega) (by omega)

theorem parse_renderAux (r : Radix) (n : Nat) :
    ∀ (acc : Bytes) (a : Nat),
      parseRadixAux r (renderRadixAux r n acc) a
        = parseRadixAux r acc (a * r.base ^ numDigits r n + n) := by
  induction n using Nat.strongRecOn with
  | _ n ih =>
    intro acc a
    unfold renderRadixAux numDigits
    by_cases h : n < r.base
    · simp [h, parseRadixAux, r.val_chr n h]
    · have hb := r.hbase
      have hlt : n / r.base < n := Nat.div_lt_self (by omega) (by omega)
      simp only [h, dite_false]
      rw [ih (n / r.base) hlt]
      have hm : n % r.base < r.base := Nat.mod_lt _ (by omega)
      simp only [parseRadixAux, r.val_chr _ hm]
      congr 1
      rw [Nat.pow_succ, Nat.add_mul, Nat.mul_assoc, Nat.add_assoc]
      congr 1
      have := Nat.div_add_mod n r.base
      rw [Nat.mul_comm] at this
      exact this

theorem renderRadixAux_ne_nil (r : Radix) (n : Nat) (acc : Bytes) :
    renderRadixAux r n acc ≠ [] := by
  induction n using Nat.strongRecOn generalizing acc with
  | _ n ih =>
    unfold renderRadixAux
    by_cases h : n < r.base
    · simp [h]
    · have hb := r.hbase
      simp only [h, dite_false]
      exact ih _ (Nat.div_lt_self (by omega) (by omega)) _

theorem parse_render (r : Radix) (n : Nat) : parseRadix? r (renderRadix r n) = some n := by
  unfold renderRadix
  have key := parse_renderAux r n [] 0
  cases h : renderRadixAux r n [] with
  | nil => exact absurd h (renderRadixAux_ne_nil r n [])
  | cons c cs =>
    rw [h] at key
    simp only [parseRadix?]
    rw [key]
    simp [parseRadixAux]

/-- every character of a rendered number is a digit character of the radix -/
theorem renderRadixAux_chars (r : Radix) (n : Nat) (acc : Bytes) (P : Nat → Prop)
    (hP : ∀ d, d < r.base → P (r.chr d)) (hacc : ∀ c ∈ acc, P c) :
    ∀ c ∈ renderRadixAux r n acc, P c := by
  induction n using Nat.strongRecOn generalizing acc with
  | _ n ih =>
    unfold renderRadixAux
    by_cases h : n < r.base
    · simp only [h, dite_true]
      intro c hc
      cases hc with
      | head => exact hP n h
      | tail _ hm => exact hacc c hm
    · have hb := r.hbase
      simp only [h, dite_false]
      apply ih _ (Nat.div_lt_self (by omega) (by omega))
      intro c hc
      cases hc with
      | head => exact hP _ (Nat.mod_lt _ (by omega))
      | tail _ hm => exact hacc c hm

theorem renderRadix_chars (r : Radix) (n : Nat) (P : Nat → Prop)
    (hP : ∀ d, d < r.base → P (r.chr d)) : ∀ c ∈ renderRadix r n, P c :=
  renderRadixAux_chars r n [] P hP (by simp)

/-! ### The three notations psutil meets -/

def decimal : Radix where
  base := 10
  hbase := by decide
  chr d := 48 + d
  val c := if 48 ≤ c ∧ c ≤ 57 then some (c - 48) else none
  val_chr d h := by
    have h1 : 48 ≤ 48 + d ∧ 48 + d ≤ 57 := by omega
    simp only [h1, and_self, if_true]
    congr 1; omega

def octal : Radix where
  base := 8
  hbase := by decide
  chr d := 48 + d
  val c := if 48 ≤ c ∧ c ≤ 55 then some (c - 48) else none
  val_chr d h := by
    have h1 : 48 ≤ 48 + d ∧ 48 + d ≤ 55 := by omega
    simp only [h1, and_self, if_true]
    congr 1; omega

/-- upper-case hexadecimal as printed by `%X`; `int(s, 16)` also accepts lower case -/
def hexUpper : Radix where
  base := 16
  hbase := by decide
  chr d := if d < 10 then 48 + d else 55 + d
  val c :=
    if 48 ≤ c ∧ c ≤ 57 then some (c - 48)
    else if 65 ≤ c ∧ c ≤ 70 then some (c - 55)
    else if 97 ≤ c ∧ c ≤ 102 then some (c - 87)
    else none
  val_chr d h := by
    by_cases hd : d < 10
    · have h1 : 48 ≤ 48 + d ∧ 48 + d ≤ 57 := by omega
      simp only [hd, if_true, h1, and_self]
      congr 1; omega
    · have h1 : ¬ (48 ≤ 55 + d ∧ 55 + d ≤ 57) := by omega
      have h2 : 65 ≤ 55 + d ∧ 55 + d ≤ 70 := by omega
      simp only [hd, if_false, h1, h2, and_self, if_true]
      congr 1; omega

def renderDec (n : Nat) : Bytes := renderRadix decimal n
def parseDec? (s : Bytes) : Option Nat := parseRadix? decimal s

theorem parseDec_renderDec (n : Nat) : parseDec? (renderDec n) = some n :=
  parse_render decimal n

theorem renderDec_ne_nil (n : Nat) : renderDec n ≠ [] := renderRadixAux_ne_nil decimal n []

theorem renderDec_isDigit (n : Nat) : ∀ c ∈ renderDec n, isDigit c = true := by
  apply renderRadix_chars decimal n (fun c => isDigit c = true)
  intro d hd
  have hd' : d < 10 := hd
  show isDigit (48 + d) = true
  simp only [isDigit, Bool.and_eq_true, decide_eq_true_eq]
  omega

theorem isDigit_not_ws (c : Nat) (h : isDigit c = true) : isWs c = false := by
  simp only [isDigit, Bool.and_eq_true, decide_eq_true_eq] at h
  simp only [isWs, Bool.or_eq_false_iff, beq_eq_false_iff_ne, Bool.and_eq_false_iff,
    decide_eq_false_iff_not]
  omega

theorem renderDec_noWs (n : Nat) : NoWs (renderDec n) :=
  fun c hc => isDigit_not_ws c (renderDec_isDigit n c hc)

/-- a rendered decimal never contains byte `c` unless `c` is a digit -/
theorem renderDec_not_mem (n c : Nat) (h : isDigit c = false) : c ∉ renderDec n := by
  intro hm
  have := renderDec_isDigit n c hm
  simp [this] at h

/-- signed decimal as `%d` prints and `int()` reads -/
def renderInt (i : Int) : Bytes :=
  if i < 0 then 45 :: renderDec i.natAbs else renderDec i.natAbs

def parseInt? : Bytes → Option Int
  | 45 :: cs => (parseDec? cs).map (fun n => - (n : Int))
  | cs => (parseDec? cs).map (fun n => (n : Int))

end Psutil
