/-
  Base/C09Int.lean — CPython's `int(s)` (base 10) on a `str` whose characters are all ASCII, and the
  byte-level test for UTF-8 encoded Unicode spaces (added for C09; import-free apart from Base).

  `int(s)`: surrounding ASCII whitespace (9–13 and 32 — NOT 0x1c–0x1f, which `str.strip()` removes
  but `int()` of an ASCII string rejects: found by the correspondence) is removed, then an optional `+`/`-`,
  then decimal digits where a single `_` may stand between two digits; leading zeros are allowed;
  anything else is ValueError. (Not modelled: the 4300-digit limit of `sys.set_int_max_str_digits`
  and non-ASCII decimal digits — see `hasNonAscii` in the model: such tokens are reported as
  outside the model, never as a value.)

  Unicode spaces: `str.split()` / `str.strip()` also split at U+0085, U+00A0, U+1680,
  U+2000–U+200A, U+2028, U+2029, U+202F, U+205F, U+3000. Their UTF-8 encodings start with a lead
  byte (C2, E1, E2, E3), which is never a continuation byte, so "the encoding occurs at some
  byte offset" is exactly "the decoded text (UTF-8, surrogateescape) contains the character".
-/
import PsutilModel.Base.Bytes
import PsutilModel.Base.Dec
import PsutilModel.Base.C09Text
namespace Psutil.C09

/-- digits with single underscores between them; `prev` = the previous character was a digit -/
def pyDigits : Bytes → Bool → Nat → Option Nat
  | [], prev, acc => if prev then some acc else none
  | c :: cs, prev, acc =>
    if isDigit c then pyDigits cs true (acc * 10 + (c - 48))
    else if c = 95 ∧ prev = true then pyDigits cs false acc
    else none

def pyIntCore (s : Bytes) : Option Int :=
  match s with
  | [] => none
  | c :: cs =>
    if c = 43 then (pyDigits cs false 0).map Int.ofNat
    else if c = 45 then (pyDigits cs false 0).map (fun n => -(n : Int))
    else (pyDigits (c :: cs) false 0).map Int.ofNat

/-- `int(t)` for an all-ASCII `t` (`none` = ValueError) -/
def pyInt? (t : Bytes) : Option Int := pyIntCore (stripP isWs t)

/-- a token made of decimal digits only — what `%u`, `%lu`, `%llu` print -/
def PlainTok (t : Bytes) : Prop := t ≠ [] ∧ ∀ c ∈ t, isDigit c = true

theorem pyDigits_plain (cs : Bytes) (h : ∀ c ∈ cs, isDigit c = true) (prev : Bool) (acc : Nat)
    (hne : cs ≠ [] ∨ prev = true) :
    pyDigits cs prev acc = parseRadixAux decimal cs acc := by
  induction cs generalizing prev acc with
  | nil =>
    cases hne with
    | inl h => exact absurd rfl h
    | inr h => simp [pyDigits, parseRadixAux, h]
  | cons c r ih =>
    have hc := h c (by simp)
    have hc' : 48 ≤ c ∧ c ≤ 57 := by
      simpa [isDigit] using hc
    simp only [pyDigits, hc, if_true, parseRadixAux, decimal, hc', and_self]
    exact ih (fun d hd => h d (by simp [hd])) true _ (Or.inr rfl)

/-- on a digits-only token `int()` is plain decimal reading: the model's treatment of the tokens
    the kernel prints is exact, and nothing else about `int()` matters for them -/
theorem pyInt_plain (t : Bytes) (h : PlainTok t) : pyInt? t = (parseDec? t).map Int.ofNat := by
  obtain ⟨hne, hd⟩ := h
  have hs : stripP isWs t = t := by
    have := stripP_pad isWs [] t [] (by intro c hc; cases hc) (by intro c hc; cases hc)
      (fun c hc => isDigit_not_ws c (hd c (List.mem_of_mem_head? hc)))
      (fun c hc => isDigit_not_ws c (hd c (List.mem_of_getLast? hc))) hne
    simpa using this
  unfold pyInt?
  rw [hs]
  cases t with
  | nil => exact absurd rfl hne
  | cons c r =>
    have hc := hd c (by simp)
    have hc' : 48 ≤ c ∧ c ≤ 57 := by simpa [isDigit] using hc
    have h43 : c ≠ 43 := by omega
    have h45 : c ≠ 45 := by omega
    simp only [pyIntCore, h43, h45, if_false]
    rw [pyDigits_plain (c :: r) hd false 0 (Or.inl (by simp))]
    rfl

theorem plain_renderDec (n : Nat) : PlainTok (renderDec n) := ⟨renderDec_ne_nil n, renderDec_isDigit n⟩

theorem pyInt_renderDec (n : Nat) : pyInt? (renderDec n) = some (Int.ofNat n) := by
  rw [pyInt_plain _ (plain_renderDec n), parseDec_renderDec]
  rfl

/-! ### UTF-8 encoded Unicode spaces -/

/-- does the UTF-8 encoding of a character with `str.isspace()` and code point ≥ 0x80 start here? -/
def uniWsAt (s : Bytes) : Bool :=
  match s with
  | a :: b :: r =>
    if a = 0xC2 then b = 0x85 || b = 0xA0
    else match r with
      | c :: _ =>
        if a = 0xE1 then b = 0x9A && c = 0x80
        else if a = 0xE2 then
          (b = 0x80 && ((0x80 ≤ c && c ≤ 0x8A) || c = 0xA8 || c = 0xA9 || c = 0xAF)) || (b = 0x81 && c = 0x9F)
        else if a = 0xE3 then b = 0x80 && c = 0x80
        else false
      | [] => false
  | _ => false

def hasUniSpace : Bytes → Bool
  | [] => false
  | c :: r => uniWsAt (c :: r) || hasUniSpace r

def isUniLead (c : Nat) : Bool := c = 0xC2 || c = 0xE1 || c = 0xE2 || c = 0xE3

theorem uniWsAt_noLead (c : Nat) (r : Bytes) (h : isUniLead c = false) : uniWsAt (c :: r) = false := by
  simp only [isUniLead, Bool.or_eq_false_iff, decide_eq_false_iff_not] at h
  obtain ⟨⟨⟨h1, h2⟩, h3⟩, h4⟩ := h
  cases r with
  | nil => rfl
  | cons b r' =>
    cases r' with
    | nil => simp [uniWsAt, h1]
    | cons d r'' => simp [uniWsAt, h1, h2, h3, h4]

/-- text without any of the four lead bytes (in particular: ASCII text) has no Unicode space -/
theorem hasUniSpace_noLead (s : Bytes) (h : ∀ c ∈ s, isUniLead c = false) : hasUniSpace s = false := by
  induction s with
  | nil => rfl
  | cons c r ih =>
    simp only [hasUniSpace, uniWsAt_noLead c r (h c (by simp)), Bool.false_or]
    exact ih (fun d hd => h d (by simp [hd]))

theorem uniWsAt_append (c : Nat) (r post : Bytes) (hh : ∀ x, post.head? = some x → x < 128) :
    uniWsAt (c :: (r ++ post)) = uniWsAt (c :: r) := by
  cases r with
  | nil =>
    cases post with
    | nil => rfl
    | cons x p =>
      have hx := hh x rfl
      cases p with
      | nil =>
        simp only [List.nil_append, uniWsAt]
        split <;> simp <;> omega
      | cons y q =>
        simp only [List.nil_append, uniWsAt]
        have h1 : x ≠ 0x85 := by omega
        have h2 : x ≠ 0xA0 := by omega
        have h3 : x ≠ 0x9A := by omega
        have h4 : x ≠ 0x80 := by omega
        have h5 : x ≠ 0x81 := by omega
        simp [h1, h2, h3, h4, h5]
  | cons b r' =>
    cases r' with
    | nil =>
      cases post with
      | nil => rfl
      | cons x p =>
        have hx := hh x rfl
        simp only [List.cons_append, List.nil_append, uniWsAt]
        have h1 : x ≠ 0x80 := by omega
        have h2 : x ≠ 0xA8 := by omega
        have h3 : x ≠ 0xA9 := by omega
        have h4 : x ≠ 0xAF := by omega
        have h5 : x ≠ 0x9F := by omega
        have h6 : ¬ (0x80 ≤ x) := by omega
        simp [h1, h2, h3, h4, h5, h6]
    | cons d r'' => rfl

theorem hasUniSpace_append_right (n post : Bytes) (hh : ∀ x, post.head? = some x → x < 128)
    (hp : hasUniSpace post = false) : hasUniSpace (n ++ post) = hasUniSpace n := by
  induction n with
  | nil => simpa [hasUniSpace] using hp
  | cons c r ih =>
    simp only [List.cons_append, hasUniSpace, uniWsAt_append c r post hh, ih]

theorem hasUniSpace_append_left (pre s : Bytes) (hpre : ∀ c ∈ pre, isUniLead c = false) :
    hasUniSpace (pre ++ s) = hasUniSpace s := by
  induction pre with
  | nil => rfl
  | cons c r ih =>
    simp only [List.cons_append, hasUniSpace, uniWsAt_noLead c _ (hpre c (by simp)), Bool.false_or]
    exact ih (fun d hd => hpre d (by simp [hd]))

def hasNonAscii (t : Bytes) : Bool := t.any fun c => decide (128 ≤ c)

end Psutil.C09
