/-
  Base/Bytes.lean — byte strings and the few Python string primitives psutil's parsers use.

  A byte is a `Nat` (the theorems then hold for every list of naturals, a superset of the
  byte strings a kernel can print); import-free so that drivers can run without Mathlib.
-/
namespace Psutil

abbrev Bytes := List Nat

/-- ASCII whitespace as used by `bytes.split()` / `bytes.strip()`. -/
def isWs (c : Nat) : Bool := c == 32 || (9 ≤ c && c ≤ 13)

def isDigit (c : Nat) : Bool := 48 ≤ c && c ≤ 57

/-! ### `bytes.split()` (no argument): runs of whitespace separate, empty tokens dropped -/

def splitWsGo : Bytes → Bytes → List Bytes
  | [], cur => if cur.isEmpty then [] else [cur.reverse]
  | c :: cs, cur =>
    if isWs c then
      (if cur.isEmpty then splitWsGo cs [] else cur.reverse :: splitWsGo cs [])
    else splitWsGo cs (c :: cur)

def splitWs (s : Bytes) : List Bytes := splitWsGo s []

/-- `b' '.join(fs)` -/
def joinWith (sep : Bytes) : List Bytes → Bytes
  | [] => []
  | [f] => f
  | f :: g :: fs => f ++ sep ++ joinWith sep (g :: fs)

def NoWs (t : Bytes) : Prop := ∀ c ∈ t, isWs c = false

theorem splitWsGo_token (t rest cur : Bytes) (h : NoWs t) :
    splitWsGo (t ++ rest) cur = splitWsGo rest (t.reverse ++ cur) := by
  induction t generalizing cur with
  | nil => simp
  | cons c t ih =>
    have hc : isWs c = false := h c (by simp)
    have ht : NoWs t := fun d hd => h d (by simp [hd])
    simp [splitWsGo, hc, ih _ ht]

theorem splitWsGo_ws (c : Nat) (rest cur : Bytes) (hc : isWs c = true) (hcur : cur ≠ []) :
    splitWsGo (c :: rest) cur = cur.reverse :: splitWsGo rest [] := by
  cases cur with
  | nil => exact absurd rfl hcur
  | cons a as => simp [splitWsGo, hc]

/-- Tokens that are non-empty and whitespace-free survive `split()` of their join by any
    single whitespace byte `sp` (space for `/proc/*/stat`, tab or space elsewhere). -/
theorem splitWs_join (sp : Nat) (hsp : isWs sp = true) (fs : List Bytes)
    (h : ∀ f ∈ fs, f ≠ [] ∧ NoWs f) : splitWs (joinWith [sp] fs) = fs := by
  unfold splitWs
  induction fs with
  | nil => simp [joinWith, splitWsGo]
  | cons f fs ih =>
    have hf := h f (by simp)
    cases fs with
    | nil =>
      have : splitWsGo (f ++ []) [] = splitWsGo [] (f.reverse ++ []) := splitWsGo_token f [] [] hf.2
      simp only [List.append_nil] at this
      simp only [joinWith]
      rw [this]
      have hne : f.reverse ≠ [] := by simpa using hf.1
      cases hr : f.reverse with
      | nil => exact absurd hr hne
      | cons a as =>
        have : f = (a :: as).reverse := by rw [← hr]; simp
        simp [splitWsGo, this]
    | cons g gs =>
      have ih' := ih (fun x hx => h x (by simp [hx]))
      simp only [joinWith] at ih' ⊢
      rw [List.append_assoc, splitWsGo_token f _ [] hf.2]
      simp only [List.append_nil, List.singleton_append]
      rw [splitWsGo_ws sp _ _ hsp (by simpa using hf.1)]
      simp [ih']

/-! ### `s.split(sep)` with a one-byte separator: empty fields preserved -/

def splitOn (sep : Nat) : Bytes → List Bytes
  | [] => [[]]
  | c :: cs =>
    if c = sep then [] :: splitOn sep cs
    else match splitOn sep cs with
      | [] => [[c]]
      | h :: t => (c :: h) :: t

theorem splitOn_ne_nil (sep : Nat) (s : Bytes) : splitOn sep s ≠ [] := by
  induction s with
  | nil => simp [splitOn]
  | cons c cs ih =>
    unfold splitOn
    split
    · simp
    · split <;> simp

theorem splitOn_noSep (sep : Nat) (t : Bytes) (h : sep ∉ t) : splitOn sep t = [t] := by
  induction t with
  | nil => simp [splitOn]
  | cons c cs ih =>
    have hc : c ≠ sep := fun e => h (by simp [e])
    have hcs : sep ∉ cs := fun m => h (by simp [m])
    simp [splitOn, hc, ih hcs]

theorem splitOn_append (sep : Nat) (t rest : Bytes) (h : sep ∉ t) :
    splitOn sep (t ++ sep :: rest) = t :: splitOn sep rest := by
  induction t with
  | nil => simp [splitOn]
  | cons c cs ih =>
    have hc : c ≠ sep := fun e => h (by simp [e])
    have hcs : sep ∉ cs := fun m => h (by simp [m])
    simp [splitOn, hc, ih hcs]

/-- `sep.join(fs)` then `split(sep)` gives `fs` back when no field contains `sep`
    (empty fields allowed) and there is at least one field. -/
theorem splitOn_join (sep : Nat) (fs : List Bytes) (hne : fs ≠ [])
    (h : ∀ f ∈ fs, sep ∉ f) : splitOn sep (joinWith [sep] fs) = fs := by
  induction fs with
  | nil => exact absurd rfl hne
  | cons f fs ih =>
    cases fs with
    | nil => simpa [joinWith] using splitOn_noSep sep f (h f (by simp))
    | cons g gs =>
      have ih' := ih (by simp) (fun x hx => h x (by simp [hx]))
      simp only [joinWith] at ih' ⊢
      rw [List.append_assoc]
      simp only [List.singleton_append]
      rw [splitOn_append sep f _ (h f (by simp)), ih']

/-! ### `find` / `rfind` of one byte -/

/-- index of the first occurrence -/
def findIdx? (c : Nat) : Bytes → Option Nat
  | [] => none
  | x :: xs => if x = c then some 0 else (findIdx? c xs).map (· + 1)

/-- index of the last occurrence -/
def rfindIdx? (c : Nat) : Bytes → Option Nat
  | [] => none
  | x :: xs =>
    match rfindIdx? c xs with
    | some i => some (i + 1)
    | none => if x = c then some 0 else none

theorem findIdx?_first (c : Nat) (pre suf : Bytes) (h : c ∉ pre) :
    findIdx? c (pre ++ c :: suf) = some pre.length := by
  induction pre with
  | nil => simp [findIdx?]
  | cons x xs ih =>
    have hx : x ≠ c := fun e => h (by simp [e])
    have hxs : c ∉ xs := fun m => h (by simp [m])
    simp [findIdx?, hx, ih hxs]

theorem rfindIdx?_none (c : Nat) (s : Bytes) (h : c ∉ s) : rfindIdx? c s = none := by
  induction s with
  | nil => rfl
  | cons x xs ih =>
    have hx : x ≠ c := fun e => h (by simp [e])
    have hxs : c ∉ xs := fun m => h (by simp [m])
    simp [rfindIdx?, ih hxs, hx]

/-- The last occurrence is found for an arbitrary prefix (e.g. an attacker-chosen comm). -/
theorem rfindIdx?_last (c : Nat) (pre suf : Bytes) (h : c ∉ suf) :
    rfindIdx? c (pre ++ c :: suf) = some pre.length := by
  induction pre with
  | nil => simp [rfindIdx?, rfindIdx?_none c suf h]
  | cons x xs ih => simp [rfindIdx?, ih]

/-! ### strip -/

def lstripWs : Bytes → Bytes
  | [] => []
  | c :: cs => if isWs c then lstripWs cs else c :: cs

def rstripWs (s : Bytes) : Bytes := (lstripWs s.reverse).reverse

def stripWs (s : Bytes) : Bytes := rstripWs (lstripWs s)

/-! ### lines: split on `\n` keeping no terminators (binary-mode iteration / `splitlines` on
    `\n`-only content); a trailing `\n` does not create an empty last line. -/

def linesOf (s : Bytes) : List Bytes :=
  match (splitOn 10 s).reverse with
  | [] :: rest => rest.reverse
  | l => l.reverse

def startsWith (p s : Bytes) : Bool := p.isPrefixOf s

def endsWith (p s : Bytes) : Bool := p.reverse.isPrefixOf s.reverse

def ofString (s : String) : Bytes := s.toUTF8.toList.map (·.toNat)

end Psutil
