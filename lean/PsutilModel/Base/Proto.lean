/-
  Base/Proto.lean — line protocol for the model drivers: one JSON value per input line,
  one JSON value per output line. Imported by `Driver/*.lean` only (not by models/proofs).

  Conventions shared with harness/common/lean.py:
    * byte strings travel as lower-case hex strings ("" = empty);
    * naturals/integers are JSON numbers of any size;
    * `{"op": ...}` objects in, `{"ok": ...}` / `{"exc": "ClassName", ...}` objects out;
    * a line the driver cannot decode is answered with `{"bad": "<reason>"}` — never a default.
-/
import Lean.Data.Json
import PsutilModel.Base.Bytes
open Lean
namespace Psutil.Proto

def hexVal (c : Char) : Option Nat :=
  if '0' ≤ c ∧ c ≤ '9' then some (c.toNat - 48)
  else if 'a' ≤ c ∧ c ≤ 'f' then some (c.toNat - 87)
  else if 'A' ≤ c ∧ c ≤ 'F' then some (c.toNat - 55)
  else none

def unhexAux : List Char → Bytes → Option Bytes
  | [], acc => some acc.reverse
  | [_], _ => none
  | a :: b :: rest, acc =>
    match hexVal a, hexVal b with
    | some x, some y => unhexAux rest ((x * 16 + y) :: acc)
    | _, _ => none

def unhex (s : String) : Option Bytes := unhexAux s.toList []

def hexDigit (n : Nat) : Char := if n < 10 then Char.ofNat (48 + n) else Char.ofNat (87 + n)

def hex (b : Bytes) : String :=
  String.ofList (b.flatMap fun c => [hexDigit ((c / 16) % 16), hexDigit (c % 16)])

abbrev R := Except String

def field (j : Json) (k : String) : R Json :=
  match j.getObjVal? k with
  | .ok v => .ok v
  | .error _ => .error s!"missing field {k}"

def asNat (j : Json) : R Nat :=
  match j.getNat? with
  | .ok n => .ok n
  | .error _ => .error s!"not a nat: {j.compress}"

def asInt (j : Json) : R Int :=
  match j.getInt? with
  | .ok n => .ok n
  | .error _ => .error s!"not an int: {j.compress}"

def asBool (j : Json) : R Bool :=
  match j.getBool? with
  | .ok n => .ok n
  | .error _ => .error s!"not a bool: {j.compress}"

def asStr (j : Json) : R String :=
  match j.getStr? with
  | .ok n => .ok n
  | .error _ => .error s!"not a string: {j.compress}"

def asBytes (j : Json) : R Bytes := do
  let s ← asStr j
  match unhex s with
  | some b => .ok b
  | none => .error s!"not hex: {s}"

def asList (f : Json → R α) (j : Json) : R (List α) :=
  match j.getArr? with
  | .ok a => a.toList.mapM f
  | .error _ => .error s!"not an array: {j.compress}"

def asOpt (f : Json → R α) (j : Json) : R (Option α) :=
  if j.isNull then .ok none else (f j).map some

def natF (j : Json) (k : String) : R Nat := field j k >>= asNat
def intF (j : Json) (k : String) : R Int := field j k >>= asInt
def boolF (j : Json) (k : String) : R Bool := field j k >>= asBool
def strF (j : Json) (k : String) : R String := field j k >>= asStr
def bytesF (j : Json) (k : String) : R Bytes := field j k >>= asBytes
def listF (f : Json → R α) (j : Json) (k : String) : R (List α) := field j k >>= asList f
def optF (f : Json → R α) (j : Json) (k : String) : R (Option α) :=
  match j.getObjVal? k with
  | .ok v => asOpt f v
  | .error _ => .ok none

def jNat (n : Nat) : Json := Json.num (JsonNumber.fromNat n)
def jInt (n : Int) : Json := Json.num (JsonNumber.fromInt n)
def jBytes (b : Bytes) : Json := Json.str (hex b)
def jList (f : α → Json) (l : List α) : Json := Json.arr (l.map f).toArray
def jOpt (f : α → Json) : Option α → Json
  | none => Json.null
  | some a => f a
def jObj (kvs : List (String × Json)) : Json := Json.mkObj kvs
def ok (v : Json) : Json := jObj [("ok", v)]
def exc (cls : String) (extra : List (String × Json) := []) : Json :=
  jObj (("exc", Json.str cls) :: extra)
def bad (why : String) : Json := jObj [("bad", Json.str why)]

/-- exact rational as `[num, den]` (den > 0) -/
def jRat (q : Rat) : Json := Json.arr #[jInt q.num, jNat q.den]

/-- Run a stateful handler over stdin lines until EOF. -/
partial def runLoop {σ : Type} (h : IO.FS.Stream) (out : IO.FS.Stream) (st : σ)
    (handle : σ → Json → σ × Json) : IO Unit := do
  let line ← h.getLine
  if line.isEmpty then return ()
  let t := line.trimAscii.toString
  if t.isEmpty then
    runLoop h out st handle
  else
    match Json.parse t with
    | .error e =>
      out.putStrLn (bad s!"json: {e}").compress
      out.flush
      runLoop h out st handle
    | .ok j =>
      let (st', r) := handle st j
      out.putStrLn r.compress
      out.flush
      runLoop h out st' handle

def run {σ : Type} (init : σ) (handle : σ → Json → σ × Json) : IO Unit := do
  let i ← IO.getStdin
  let o ← IO.getStdout
  runLoop i o init handle
  o.flush

/-- Lift a decoder-style handler: decoding failures become `{"bad": ...}` and keep the state. -/
def total {σ : Type} (f : σ → Json → R (σ × Json)) : σ → Json → σ × Json :=
  fun st j => match f st j with
    | .ok r => r
    | .error e => (st, bad e)

end Psutil.Proto
