/-
  Base/C09Text.lean — text-mode variants of the string primitives (added for C09; import-free).

  `/proc/net/dev` and `/proc/diskstats` are opened by psutil in *text* mode, so `split()` /
  `strip()` are the `str` methods: besides the bytes' whitespace set they also treat the
  ASCII separators FS GS RS US (0x1c–0x1f) as whitespace, and `readlines()` applies
  universal-newline translation. The functions here are parametrised by the whitespace
  predicate; lemmas are about lines laid out the way the kernel's `printf` formats do
  (tokens separated by runs of blanks, right-aligned in a minimum width).
-/
import PsutilModel.Base.Bytes
namespace Psutil.C09

/-- ASCII whitespace of `str.split()` / `str.strip()` (non-ASCII Unicode spaces are outside
    the byte-level model; see the property's assumptions). -/
def isWsT (c : Nat) : Bool := isWs c || (28 ≤ c && c ≤ 31)

/-- universal newlines of a text-mode file object: `\r\n` and lone `\r` read as `\n` -/
def univNlGo : Bool → Bytes → Bytes
  | _, [] => []
  | afterCR, c :: r =>
    if c = 13 then 10 :: univNlGo true r
    else if c = 10 ∧ afterCR = true then univNlGo false r
    else c :: univNlGo false r

def univNl (s : Bytes) : Bytes := univNlGo false s

theorem univNl_id (s : Bytes) (h : 13 ∉ s) : univNl s = s := by
  unfold univNl
  induction s with
  | nil => rfl
  | cons c r ih =>
    have hc : c ≠ 13 := fun e => h (by simp [e])
    have hr : 13 ∉ r := fun m => h (by simp [m])
    simp [univNlGo, hc, ih hr]

section split
variable (p : Nat → Bool)

def splitGo : Bytes → Bytes → List Bytes
  | [], cur => if cur.isEmpty then [] else [cur.reverse]
  | c :: cs, cur =>
    if p c then
      (if cur.isEmpty then splitGo cs [] else cur.reverse :: splitGo cs [])
    else splitGo cs (c :: cur)

/-- `s.split()` -/
def splitP (s : Bytes) : List Bytes := splitGo p s []

def AllP (t : Bytes) : Prop := ∀ c ∈ t, p c = true
def NoP (t : Bytes) : Prop := ∀ c ∈ t, p c = false

theorem splitGo_token (t rest cur : Bytes) (h : NoP p t) :
    splitGo p (t ++ rest) cur = splitGo p rest (t.reverse ++ cur) := by
  induction t generalizing cur with
  | nil => simp
  | cons c t ih =>
    have hc : p c = false := h c (by simp)
    have ht : NoP p t := fun d hd => h d (by simp [hd])
    simp [splitGo, hc, ih _ ht]

/-- leading blanks are skipped -/
theorem splitGo_gap_nil (g rest : Bytes) (h : AllP p g) :
    splitGo p (g ++ rest) [] = splitGo p rest [] := by
  induction g with
  | nil => rfl
  | cons c g ih =>
    have hc : p c = true := h c (by simp)
    have hg : AllP p g := fun d hd => h d (by simp [hd])
    simp [splitGo, hc, ih hg]

/-- a non-empty run of blanks ends the current token -/
theorem splitGo_gap_cur (g rest cur : Bytes) (h : AllP p g) (hg : g ≠ []) (hcur : cur ≠ []) :
    splitGo p (g ++ rest) cur = cur.reverse :: splitGo p rest [] := by
  cases g with
  | nil => exact absurd rfl hg
  | cons c g =>
    have hc : p c = true := h c (by simp)
    have hg' : AllP p g := fun d hd => h d (by simp [hd])
    cases cur with
    | nil => exact absurd rfl hcur
    | cons a as =>
      simp only [List.cons_append, splitGo, hc, if_true, List.isEmpty_cons, Bool.false_eq_true,
        if_false]
      rw [splitGo_gap_nil p g rest hg']

theorem splitGo_allP (g cur : Bytes) (h : AllP p g) (hcur : cur ≠ []) :
    splitGo p g cur = [cur.reverse] := by
  cases g with
  | nil =>
    cases cur with
    | nil => exact absurd rfl hcur
    | cons a as => simp [splitGo]
  | cons c g =>
    have := splitGo_gap_cur p (c :: g) [] cur h (by simp) hcur
    simp only [List.append_nil] at this
    rw [this]
    simp [splitGo]

theorem splitGo_allP_nil (g : Bytes) (h : AllP p g) : splitGo p g [] = [] := by
  have := splitGo_gap_nil p g [] h
  simp only [List.append_nil] at this
  rw [this]
  simp [splitGo]

/-- `(gap, token)` pairs laid one after the other -/
def glue : List (Bytes × Bytes) → Bytes
  | [] => []
  | gt :: r => gt.1 ++ gt.2 ++ glue r

def GoodItems (items : List (Bytes × Bytes)) : Prop :=
  ∀ gt ∈ items, gt.1 ≠ [] ∧ AllP p gt.1 ∧ gt.2 ≠ [] ∧ NoP p gt.2

theorem splitGo_glue_cur (items : List (Bytes × Bytes)) (trail cur : Bytes)
    (hi : GoodItems p items) (ht : AllP p trail) (hcur : cur ≠ []) :
    splitGo p (glue items ++ trail) cur = cur.reverse :: items.map (·.2) := by
  induction items generalizing cur with
  | nil => simpa [glue] using splitGo_allP p trail cur ht hcur
  | cons gt r ih =>
    have ⟨hg1, hg2, ht1, ht2⟩ := hi gt (by simp)
    have hr : GoodItems p r := fun x hx => hi x (by simp [hx])
    simp only [glue, List.append_assoc]
    rw [splitGo_gap_cur p gt.1 _ cur hg2 hg1 hcur, splitGo_token p gt.2 _ [] ht2]
    simp only [List.append_nil]
    have := ih (cur := gt.2.reverse) hr (by simpa using ht1)
    rw [this]
    simp

/-- Tokens separated by non-empty runs of blanks (the first gap may be empty, trailing
    blanks allowed) are exactly what `split()` returns. -/
theorem splitP_layout (g0 t0 : Bytes) (items : List (Bytes × Bytes)) (trail : Bytes)
    (hg0 : AllP p g0) (ht0 : t0 ≠ [] ∧ NoP p t0) (hi : GoodItems p items) (ht : AllP p trail) :
    splitP p (g0 ++ t0 ++ glue items ++ trail) = t0 :: items.map (·.2) := by
  unfold splitP
  simp only [List.append_assoc]
  rw [splitGo_gap_nil p g0 _ hg0, splitGo_token p t0 _ [] ht0.2]
  simp only [List.append_nil]
  have := splitGo_glue_cur p items trail t0.reverse hi ht (by simpa using ht0.1)
  rw [this]
  simp

theorem splitP_glue (items : List (Bytes × Bytes)) (trail : Bytes)
    (hi : GoodItems p items) (ht : AllP p trail) :
    splitP p (glue items ++ trail) = items.map (·.2) := by
  cases items with
  | nil => simpa [glue, splitP] using splitGo_allP_nil p trail ht
  | cons gt r =>
    have ⟨_, hg2, ht1, ht2⟩ := hi gt (by simp)
    have hr : GoodItems p r := fun x hx => hi x (by simp [hx])
    have := splitP_layout p gt.1 gt.2 r trail hg2 ⟨ht1, ht2⟩ hr ht
    simpa [glue] using this

/-! ### strip -/

def lstripP : Bytes → Bytes
  | [] => []
  | c :: cs => if p c then lstripP cs else c :: cs

def rstripP (s : Bytes) : Bytes := (lstripP p s.reverse).reverse

/-- `s.strip()` -/
def stripP (s : Bytes) : Bytes := rstripP p (lstripP p s)

theorem lstripP_pad (g s : Bytes) (hg : AllP p g) : lstripP p (g ++ s) = lstripP p s := by
  induction g with
  | nil => rfl
  | cons c g ih =>
    have hc : p c = true := hg c (by simp)
    simp [lstripP, hc, ih (fun d hd => hg d (by simp [hd]))]

theorem lstripP_head (s : Bytes) (h : ∀ c, s.head? = some c → p c = false) : lstripP p s = s := by
  cases s with
  | nil => rfl
  | cons c cs => simp [lstripP, h c rfl]

/-- blanks around a string whose first and last characters are not blank are removed, and
    nothing else -/
theorem stripP_pad (g s g' : Bytes) (hg : AllP p g) (hg' : AllP p g')
    (hh : ∀ c, s.head? = some c → p c = false) (hl : ∀ c, s.getLast? = some c → p c = false)
    (hne : s ≠ []) :
    stripP p (g ++ s ++ g') = s := by
  unfold stripP rstripP
  rw [List.append_assoc, lstripP_pad p g _ hg]
  have h1 : lstripP p (s ++ g') = s ++ g' := by
    apply lstripP_head
    intro c hc
    cases s with
    | nil => exact absurd rfl hne
    | cons a as => exact hh c (by simpa using hc)
  rw [h1, List.reverse_append,
    lstripP_pad p g'.reverse _ (fun c hc => hg' c (by simpa using hc))]
  rw [lstripP_head p s.reverse (fun c hc => hl c (by simpa [List.head?_reverse] using hc))]
  simp

end split

/-! ### lines -/

/-- every line terminated by `\n` -/
def unlines : List Bytes → Bytes
  | [] => []
  | l :: ls => l ++ 10 :: unlines ls

theorem splitOn_unlines (ls : List Bytes) (h : ∀ l ∈ ls, 10 ∉ l) :
    splitOn 10 (unlines ls) = ls ++ [[]] := by
  induction ls with
  | nil => simp [unlines, splitOn]
  | cons l ls ih =>
    simp only [unlines]
    rw [splitOn_append 10 l _ (h l (by simp)), ih (fun x hx => h x (by simp [hx]))]
    simp

theorem linesOf_unlines (ls : List Bytes) (h : ∀ l ∈ ls, 10 ∉ l) : linesOf (unlines ls) = ls := by
  unfold linesOf
  rw [splitOn_unlines ls h]
  simp

end Psutil.C09
