/-
  Model/C05Dyn.lean — the tree walkers of psutil once more, over a richer world than Model/C05.lean:

    * a read of `/proc/<pid>/stat` has THREE outcomes: the file is gone (ENOENT/ESRCH), it cannot be
      read (EACCES/EPERM: `Rd.denied`), or it is read (`Rd.ok ppid start`). A zombie (state `Z`) is a
      readable stat file like any other — `XTable.read` shows that the state letter is never looked at;
    * `ppid_map()` runs over a *listing* (`pids()`) and a world: a listed PID whose file is gone is
      skipped, an unreadable one is skipped when the fact `mapSkipsDenied` holds (psutil ≥ cdbd31b) and
      lets a bare `PermissionError` escape otherwise; likewise `mapSkipsGone` for a listed PID whose file is gone;
    * every `parent()` call of the `parents()` loop sees its own worlds (`PStep`: the listing for
      `pids()[0]`, the world of the identity check, of the own-stat read of `ppid()`, of
      `Process(ppid)`): an ancestor may exit, be reaped, or have its PID reused between two steps;
    * `with p.oneshot():` — `Process.ppid` is `@memoize_when_activated`: a cached ppid is answered
      without the identity check and without reading the stat file (`Oneshot`).

  Same branch order as the Python (psutil/__init__.py: children, parent, parents, ppid, is_running,
  _raise_if_pid_reused; psutil/_pslinux.py: ppid_map). The caller object is built on a readable stat
  file (`Caller.ctime` known); objects created inside the calls (`Process(child)`, `Process(ppid)`)
  may be built on an unreadable one: then `create_time()` raises `AccessDenied(pid)`, which none of
  the `except` clauses catches — the explicit outcome `XOut.denied`.
-/
import PsutilModel.Model.C05
namespace Psutil.C05

/-! ## World -/

/-- state of one listed process as far as this property can see it -/
inductive St where
  | run        -- stat readable, any state letter but Z
  | zombie     -- stat readable, state Z (exited, not reaped: still listed, ppid/starttime intact)
  | denied     -- stat exists but open/read gives EACCES/EPERM
deriving DecidableEq, Repr

structure XRow where
  pid : Nat
  ppid : Nat
  start : Nat
  st : St
deriving DecidableEq, Repr

abbrev XTable := List XRow

/-- one read of `/proc/<pid>/stat` -/
inductive Rd where
  | gone
  | denied
  | ok (ppid start : Nat)
deriving DecidableEq, Repr

/-- what a read of `/proc/<pid>/stat` gives, per PID -/
abbrev XWorld := Nat → Rd

def XTable.read (T : XTable) : XWorld := fun pid =>
  match List.find? (fun r => r.pid == pid) T with
  | none => .gone
  | some r =>
    match r.st with
    | .denied => .denied
    | _ => .ok r.ppid r.start            -- run and zombie alike: the state letter is not consulted

def XTable.pids (T : XTable) : List Nat := T.map (·.pid)

/-- `Process(pid).create_time()` as the old model sees it (an unreadable file has no start time) -/
def lookOfW (w : XWorld) : Look := fun p =>
  match w p with
  | .ok _ s => some s
  | _ => none

inductive XOut (α : Type) where
  | ok (v : α)
  | nsp (pid : Nat)            -- psutil.NoSuchProcess(pid)
  | denied (pid : Nat)         -- psutil.AccessDenied(pid)
  | permissionError            -- builtins.PermissionError out of ppid_map()
  | fileNotFound               -- builtins.FileNotFoundError / ProcessLookupError out of ppid_map()
  | indexError
  | diverged
deriving DecidableEq, Repr

def XOut.ofOut {α : Type} : Out α → XOut α
  | .ok v => .ok v
  | .nsp p => .nsp p
  | .indexError => .indexError
  | .diverged => .diverged

structure XCfg where
  base : Cfg
  /-- `ppid_map()` lists `PermissionError` in the `except` of the open/read of a stat file -/
  mapSkipsDenied : Bool
  /-- …and `FileNotFoundError` / `ProcessLookupError`: a process that exits between `pids()` and the read -/
  mapSkipsGone : Bool
deriving Repr

/-! ## Identity of the caller -/

/-- `Process.is_running()`; an unreadable stat gives `Process(self.pid)._ident = (pid, None)`, which
    differs from the caller's `(pid, ctime)`: the PID counts as reused -/
def isRunningX (w : XWorld) (me : Caller) : Caller × Bool :=
  if me.gone || me.reused then (me, false)
  else
    match w me.pid with
    | .gone => ({ me with gone := true }, false)
    | .denied => ({ me with gone := true, reused := true }, false)
    | .ok _ s =>
      if s == me.ctime then (me, true)
      else ({ me with gone := true, reused := true }, false)

def raiseIfPidReusedX (goneRaises : Bool) (w : XWorld) (me : Caller) : Caller × Bool :=
  if me.reused then (me, true)
  else
    let r := isRunningX w me
    if !r.2 && r.1.reused then (r.1, true)
    else (r.1, goneRaises && r.1.gone)

/-! ## ppid_map() / children() -/

/-- the bare OSError subclasses `ppid_map()` lets escape when its `except` does not list them -/
inductive MapErr where
  | permission     -- PermissionError (EACCES / EPERM)
  | notFound       -- FileNotFoundError / ProcessLookupError (ENOENT / ESRCH)
deriving DecidableEq, Repr

/-- `_pslinux.ppid_map()` over the listing `L` in world `w`: the dict is filled in listing order, the first
    stat file whose error is not tolerated ends the call -/
def ppidMapX (skipDenied skipGone : Bool) (w : XWorld) : List Nat → Except MapErr PpidMap
  | [] => .ok []
  | p :: ps =>
    match w p with
    | .gone => if skipGone then ppidMapX skipDenied skipGone w ps else .error .notFound
    | .denied => if skipDenied then ppidMapX skipDenied skipGone w ps else .error .permission
    | .ok pp _ =>
      match ppidMapX skipDenied skipGone w ps with
      | .error e => .error e
      | .ok m => .ok ((p, pp) :: m)

/-- what happens when one child PID is examined: `child = Process(pid)`, `child.create_time()` -/
inductive Exam where
  | take | skip | raise
deriving DecidableEq, Repr

def examOf (op : Cmp) (ct : Nat) (w : XWorld) (pid : Nat) : Exam :=
  match w pid with
  | .gone => .skip                                   -- NoSuchProcess: `pass`
  | .denied => .raise                                -- AccessDenied(pid): not caught
  | .ok _ s => if op.eval ct s then .take else .skip

/-- the `for … in …: try: … except (NoSuchProcess, ZombieProcess): pass` loop over candidate PIDs;
    `.error p` = AccessDenied(p) raised at the first unreadable candidate -/
def filterX (ex : Nat → Exam) : List Nat → Except Nat (List Nat)
  | [] => .ok []
  | p :: ps =>
    match ex p with
    | .raise => .error p
    | .skip => filterX ex ps
    | .take =>
      match filterX ex ps with
      | .error q => .error q
      | .ok l => .ok (p :: l)

def walkX (seenGuard : Bool) (ex : Nat → Exam) (pm : PpidMap) :
    Nat → List Nat → List Nat → List Nat → Option (Except Nat (List Nat))
  | 0, _, _, _ => none
  | _ + 1, _, [], ret => some (.ok ret)
  | fuel + 1, seen, pid :: rest, ret =>
    if seenGuard && seen.contains pid then walkX seenGuard ex pm fuel seen rest ret
    else
      match filterX ex (kidsOf pm pid) with
      | .error p => some (.error p)
      | .ok acc => walkX seenGuard ex pm fuel (pid :: seen) (acc.reverse ++ rest) (ret ++ acc)

/-- `Process.children(recursive)`: identity check and `ppid_map()` over listing `L` in world `w0`,
    every later look-up in world `wl` -/
def childrenX (c : XCfg) (me : Caller) (recursive : Bool) (L : List Nat) (w0 wl : XWorld) :
    Caller × XOut (List Nat) :=
  let g := if c.base.childrenGuarded then raiseIfPidReusedX c.base.goneRaises w0 me else (me, false)
  if g.2 then (g.1, .nsp me.pid)
  else
    match ppidMapX c.mapSkipsDenied c.mapSkipsGone w0 L with
    | .error .permission => (g.1, .permissionError)
    | .error .notFound => (g.1, .fileNotFound)
    | .ok pm =>
      let pm' := usedMap c.base me.pid pm
      if !recursive then
        match filterX (examOf c.base.childOp me.ctime wl) (kidsOf pm' me.pid) with
        | .error p => (g.1, .denied p)
        | .ok l => (g.1, .ok l)
      else
        match walkX c.base.seenGuard (examOf c.base.descOp me.ctime wl) pm' (walkFuel pm') [] [me.pid] [] with
        | none => (g.1, .diverged)
        | some (.error p) => (g.1, .denied p)
        | some (.ok l) => (g.1, .ok l)

/-! ## parent() / parents() with a world per step -/

/-- the worlds ONE `parent()` call sees, in the order it reads them -/
structure PStep where
  listing : List Nat       -- `pids()` (only read while `_LOWEST_PID` is not cached)
  wi : XWorld              -- `Process(self.pid)` inside `is_running()` (identity check of `ppid()`)
  wo : XWorld              -- `self._proc.ppid()`: the caller's own stat file
  wp : XWorld              -- `Process(ppid)` and its `create_time()`

def lowestPidX (ps : Ps) (L : List Nat) : Ps × Option Nat :=
  match ps.lowest with
  | some l => (ps, some l)
  | none =>
    match L.min? with
    | none => (ps, none)
    | some m => (⟨some m⟩, some m)

/-- `with p.oneshot():` state of `Process.ppid`: `none` = not inside a oneshot block,
    `some none` = inside, nothing cached yet, `some (some pp)` = inside, `ppid()` already answered `pp` -/
abbrev Oneshot := Option (Option Nat)

/-- `Process.ppid()` when nothing is cached: `_raise_if_pid_reused()`, then the own stat file -/
def ppidFresh (c : Cfg) (s : PStep) (me : Caller) (os : Oneshot) : Caller × Oneshot × XOut Nat :=
  let g := if c.ppidGuarded then raiseIfPidReusedX c.goneRaises s.wi me else (me, false)
  if g.2 then (g.1, os, .nsp me.pid)
  else
    match s.wo me.pid with
    | .gone => (g.1, os, .nsp me.pid)
    | .denied => (g.1, os, .denied me.pid)
    | .ok pp _ => (g.1, (match os with | none => none | some _ => some (some pp)), .ok pp)

/-- `Process.ppid()` (memoised inside oneshot: a cached value skips the identity check and the read) -/
def ppidX (c : Cfg) (s : PStep) (me : Caller) (os : Oneshot) : Caller × Oneshot × XOut Nat :=
  match os with
  | some (some pp) => (me, os, .ok pp)
  | _ => ppidFresh c s me os

def parentCoreX (c : Cfg) (s : PStep) (me : Caller) (os : Oneshot) : Caller × Oneshot × XOut (Option Row) :=
  match ppidX c s me os with
  | (me', os', .ok pp) =>
    match s.wp pp with
    | .gone => (me', os', .ok none)                               -- Process(ppid): NoSuchProcess → None
    | .denied => (me', os', .denied pp)                           -- parent.create_time(): AccessDenied(ppid)
    | .ok gp st =>
      if c.parentOp.eval st me.ctime then (me', os', .ok (some ⟨pp, gp, st⟩))
      else (me', os', .ok none)
  | (me', os', .nsp p) => (me', os', .nsp p)
  | (me', os', .denied p) => (me', os', .denied p)
  | (me', os', .permissionError) => (me', os', .permissionError)
  | (me', os', .fileNotFound) => (me', os', .fileNotFound)
  | (me', os', .indexError) => (me', os', .indexError)
  | (me', os', .diverged) => (me', os', .diverged)

def parentX (c : Cfg) (ps : Ps) (s : PStep) (me : Caller) (os : Oneshot) :
    Ps × Caller × Oneshot × XOut (Option Row) :=
  if c.lowestStop then
    match lowestPidX ps s.listing with
    | (ps', none) => (ps', me, os, .indexError)
    | (ps', some lowest) =>
      if me.pid == lowest then
        if c.rootGuarded then
          -- the repaired stop: `self._raise_if_pid_reused()` (world `wi`: the only look-up of this call)
          let g := raiseIfPidReusedX c.goneRaises s.wi me
          if g.2 then (ps', g.1, os, .nsp me.pid) else (ps', g.1, os, .ok none)
        else (ps', me, os, .ok none)
      else (ps', parentCoreX c s me os)
  else (ps, parentCoreX c s me os)

/-- the loop of `parents()`: iteration `i` sees the worlds `W i` -/
def parentsLoopX (c : Cfg) (W : Nat → PStep) :
    Nat → Nat → Ps → List Nat → Caller → Oneshot → List Row → Ps × XOut (List Row)
  | 0, _, ps, _, _, _, _ => (ps, .diverged)
  | fuel + 1, i, ps, seen, cur, os, acc =>
    match parentX c ps (W i) cur os with
    | (ps', _, _, .ok none) => (ps', .ok acc)
    | (ps', _, _, .ok (some q)) =>
      if c.parentsSeen && seen.contains q.pid then (ps', .ok acc)
      else parentsLoopX c W fuel (i + 1) ps' (q.pid :: seen) (callerOf q) none (acc ++ [q])
    | (ps', _, _, .nsp p) => (ps', .nsp p)
    | (ps', _, _, .denied p) => (ps', .denied p)
    | (ps', _, _, .permissionError) => (ps', .permissionError)
    | (ps', _, _, .fileNotFound) => (ps', .fileNotFound)
    | (ps', _, _, .indexError) => (ps', .indexError)
    | (ps', _, _, .diverged) => (ps', .diverged)

/-- `Process.parents()` with `fuel` iterations allowed; step `i` of the loop sees `W i` -/
def parentsX (c : Cfg) (fuel : Nat) (ps : Ps) (W : Nat → PStep) (me : Caller) (os : Oneshot) :
    Ps × XOut (List Row) :=
  parentsLoopX c W fuel 0 ps [me.pid] me os []

/-- Inside `with p.oneshot():` the platform method `_parse_stat_file()` is memoised as well: once ANOTHER
    stat-based method (`name()`, `status()`, `cpu_times()`, `create_time()` of the platform object, …) has
    run in the block, `self._proc.ppid()` is answered from the stat file AS IT WAS READ THEN (world `wc`),
    not from the file as it is now. The front-end `Process.ppid()` still runs its identity check on a
    fresh `Process(self.pid)` (world `wi`), and `Process(ppid)` is looked up afresh (world `wp`). -/
def PStep.withStatMemo (s : PStep) (wc : XWorld) : PStep := { s with wo := wc }

/-- all four worlds of a step taken from one table -/
def stepOfX (T : XTable) : PStep := ⟨T.pids, T.read, T.read, T.read⟩

/-- a plain table as an extended one (everything readable and running) -/
def Table.toX (T : Table) : XTable := T.map fun r => ⟨r.pid, r.ppid, r.start, .run⟩

end Psutil.C05
