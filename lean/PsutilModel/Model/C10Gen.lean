/- Model/C10Gen.lean — the C10 model instantiated with the facts the translator extracted. -/
import PsutilModel.Model.C10
import PsutilModel.Model.C10Plat
import PsutilModel.Model.C10Lock
import PsutilModel.Generated.C10
namespace Psutil.C10

/-- does `disk_io_counters(perdisk=True)` keep its own nowrap history? -/
def genFormsSeparate : Bool :=
  decide (Gen.C10.diskPerName ≠ Gen.C10.diskName) && decide (Gen.C10.diskPerName ≠ Gen.C10.netName)

/-- both front ends, each on its own, take the raw sample and call `wrap_numbers` inside one `with <lock>:`, and
    it is the same module-level lock for both (one sampling order over both functions) -/
def genSampleUnderLock : Bool :=
  Gen.C10.sampleUnderLockDisk && Gen.C10.sampleUnderLockNet
    && decide (Gen.C10.samplingLocks.eraseDups.length = 1)

/-- … and that lock is an OBJECT created once, when the module is imported, named by a module-level name that is never
    rebound: no caller looks a lock up (or creates one) at call time (Model/C10Lock) -/
def genSamplingLockStatic : Bool := Gen.C10.samplingLockStatic && genSampleUnderLock

/-- how the front ends come by their sampling lock, as extracted -/
def lockPolicy : LockPolicy := if genSamplingLockStatic then .static (fun _ => 0) else .lazy

/-- configuration of the model as extracted from the current source -/
def cfg : Cfg :=
  { emptyFeedsWrap := Gen.C10.emptyFeedsWrap
    strictLess := Gen.C10.wrapIsStrictLess
    namesDistinct := decide (Gen.C10.diskName ≠ Gen.C10.netName)
      && Gen.C10.diskClearName == Gen.C10.diskName && Gen.C10.netClearName == Gen.C10.netName
      -- no cache_clear reaches into the other function's history, or clears a name nobody uses
      && Gen.C10.netClearNames == [Gen.C10.netName]
      && Gen.C10.diskClearNames.all (fun n => n == Gen.C10.diskName || n == Gen.C10.diskPerName)
    formsSeparate := genFormsSeparate
    clearPer := genFormsSeparate && Gen.C10.diskClearNames.contains Gen.C10.diskPerName
    linuxFilter := Gen.C10.linuxSkipsPartitions
    lockedRun := Gen.C10.runUnderLock
    lockedClear := Gen.C10.clearUnderLock
    rkAccumulate := Gen.C10.rkAccumulates
    sampleUnderLock := genSampleUnderLock }

/-- the branch table of `_pslinux.disk_io_counters.read_procfs()` as extracted -/
def layouts : List Layout := Gen.C10.diskstatsLayouts

/-- **closed world**: everything in `psutil/*.py` that refers to `wrap_numbers`, to the instance `_wn`, to the front
    ends' sampling lock or to one of the three cache names, as `file:function:kind`. The model's alphabet of
    public operations (`FOp`: the two front ends, their `cache_clear`s, `wrap_numbers.cache_clear()`) is complete
    only if nothing else reaches the cache. -/
structure Users where
  wrapNumbers : List String
  wn : List String
  nowrapLock : List String
  names : List String
  deriving DecidableEq

def users : Users :=
  ⟨Gen.C10.wrapNumbersRefs, Gen.C10.wnRefs, Gen.C10.nowrapLockRefs, Gen.C10.cacheNameRefs⟩

/-- the users the model was written for -/
def modelledUsers : Users where
  wrapNumbers := ["__init__.py:<module>:cache_clear", "__init__.py:<module>:import",
    "__init__.py:_disk_io_counters_cache_clear:cache_clear()", "__init__.py:_disk_io_counters_cache_clear:cache_clear()",
    "__init__.py:disk_io_counters:call", "__init__.py:net_io_counters:call",
    "_common.py:<module>:cache_clear=", "_common.py:<module>:cache_info=", "_common.py:<module>:def"]
  wn := ["_common.py:<module>:=_WrapNumbers()", "_common.py:<module>:cache_clear", "_common.py:<module>:cache_info",
    "_common.py:wrap_numbers:lock", "_common.py:wrap_numbers:run()"]
  nowrapLock := ["__init__.py:<module>:=threading.Lock()", "__init__.py:disk_io_counters:with",
    "__init__.py:net_io_counters:with"]
  names := ["__init__.py:<module>:psutil.net_io_counters", "__init__.py:_disk_io_counters_cache_clear:psutil.disk_io_counters",
    "__init__.py:_disk_io_counters_cache_clear:psutil.disk_io_counters.perdisk",
    "__init__.py:disk_io_counters:psutil.disk_io_counters", "__init__.py:disk_io_counters:psutil.disk_io_counters.perdisk",
    "__init__.py:net_io_counters:psutil.net_io_counters"]

/-- normalised-AST digests (docstrings and comments removed) of the function bodies transcribed in
    Model/C10.lean / Model/C10Dict.lean, as extracted -/
def bodies : List (String × String) :=
  [("_WrapNumbers.run", Gen.C10.astRun), ("_WrapNumbers._remove_dead_reminders", Gen.C10.astRemoveDead),
   ("_WrapNumbers._add_dict", Gen.C10.astAddDict), ("_WrapNumbers.cache_clear", Gen.C10.astCacheClear)]

/-- … and of the text the transcription was made from (psutil/_common.py at /repo 875e1d0) -/
def transcribedBodies : List (String × String) :=
  [("_WrapNumbers.run", "e813e1562f855cc6"), ("_WrapNumbers._remove_dead_reminders", "6b0ec5919bca19db"),
   ("_WrapNumbers._add_dict", "22ab44049d33f0c5"), ("_WrapNumbers.cache_clear", "9cd948166ae3d38c")]

end Psutil.C10
