/- Model/C10Gen.lean — the C10 model instantiated with the facts the translator extracted. -/
import PsutilModel.Model.C10
import PsutilModel.Generated.C10
namespace Psutil.C10

/-- does `disk_io_counters(perdisk=True)` keep its own nowrap history? -/
def genFormsSeparate : Bool :=
  decide (Gen.C10.diskPerName ≠ Gen.C10.diskName) && decide (Gen.C10.diskPerName ≠ Gen.C10.netName)

/-- configuration of the model as extracted from the current source -/
def cfg : Cfg :=
  { emptyFeedsWrap := Gen.C10.emptyFeedsWrap
    strictLess := Gen.C10.wrapIsStrictLess
    namesDistinct := decide (Gen.C10.diskName ≠ Gen.C10.netName)
      && Gen.C10.diskClearName == Gen.C10.diskName && Gen.C10.netClearName == Gen.C10.netName
      -- no cache_clear reaches into the other function's history, or clears a name nobody uses
      && Gen.C10.netClearNames == [Gen.C10.netName]
      && Gen.C10.diskClearNames.all (fun n => n == Gen.C10.diskName || n == Gen.C10.diskPerName)
    formsSeparate := genFormsSeparate
    clearPer := genFormsSeparate && Gen.C10.diskClearNames.contains Gen.C10.diskPerName
    linuxFilter := Gen.C10.linuxSkipsPartitions
    lockedRun := Gen.C10.runUnderLock
    lockedClear := Gen.C10.clearUnderLock
    rkAccumulate := Gen.C10.rkAccumulates
    sampleUnderLock := Gen.C10.sampleUnderLock }

end Psutil.C10
