/- Model/C10Gen.lean — the C10 model instantiated with the facts the translator extracted. -/
import PsutilModel.Model.C10
import PsutilModel.Generated.C10
namespace Psutil.C10

/-- configuration of the model as extracted from the current source -/
def cfg : Cfg :=
  { emptyFeedsWrap := Gen.C10.emptyFeedsWrap
    strictLess := Gen.C10.wrapIsStrictLess
    namesDistinct := decide (Gen.C10.diskName ≠ Gen.C10.netName)
      && Gen.C10.diskClearName == Gen.C10.diskName && Gen.C10.netClearName == Gen.C10.netName }

end Psutil.C10
