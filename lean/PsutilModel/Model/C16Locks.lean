/-
  Model/C16Locks.lean — SEVERAL Process objects, each with its own lock, used by any number of threads the way
  the library itself uses them: `psutil.process_iter(attrs=…)` (and `as_dict()`, `__str__`) take the lock of ONE
  object (`with self.oneshot()` on `self`), work, release it, and only then go on to the next object; the objects of
  process_iter()'s module-level cache are shared between the iterating threads, and every thread may visit them in
  its own order. (Translator facts `oneshotCallers`, `oneshotOnSelfOnly`: no library code enters a second object's
  oneshot() while holding one.) What happens inside the block is Model/C16Conc2.lean's business; here a session is
  just acquire · release. Import-free.
-/
namespace Psutil.C16.Locks

structure St where
  held : Nat → Option Nat        -- object → thread holding its lock
  cur : Nat → Option Nat         -- thread → object whose lock it holds
  prog : Nat → List Nat          -- thread → objects it still has to visit, in ITS order

inductive Step (s : St) : St → Prop
  | acquire (t o : Nat) (rest : List Nat) : s.cur t = none → s.prog t = o :: rest → s.held o = none →
      Step s { held := fun x => if x = o then some t else s.held x,
               cur := fun x => if x = t then some o else s.cur x,
               prog := fun x => if x = t then rest else s.prog x }
  | release (t o : Nat) : s.cur t = some o →
      Step s { s with held := fun x => if x = o then none else s.held x,
                      cur := fun x => if x = t then none else s.cur x }

/-- any programs, nobody holds anything -/
def init (prog : Nat → List Nat) : St := { held := fun _ => none, cur := fun _ => none, prog := prog }

inductive Reach (prog : Nat → List Nat) : St → Prop
  | init : Reach prog (init prog)
  | step {s s' : St} : Reach prog s → Step s s' → Reach prog s'

def Finished (s : St) (t : Nat) : Prop := s.cur t = none ∧ s.prog t = []

end Psutil.C16.Locks
