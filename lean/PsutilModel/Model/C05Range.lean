/-
  Model/C05Range.lean — the RANGE GATE of `psutil.Process(pid)`: the path from a listed PID to a
  `Process` object.

    psutil/__init__.py       Process._init():  `if pid < 0: raise ValueError`
                                               `try: _psplatform.cext.check_pid_range(pid)`
                                               `except OverflowError: raise NoSuchProcess(pid, "process PID out of range")`
                                               … `self._proc = _psplatform.Process(pid)` … `self._get_ident()`
    psutil/_psutil_common.c  psutil_check_pid_range():  `PyArg_ParseTuple(args, _Py_PARSE_PID, &pid)`
                                               (OverflowError when the int does not fit a `pid_t`) and whatever
                                               further test on `pid` the helper makes

  Every look-up the tree walkers make through a NEW `Process` object goes through this gate before any file
  is read: `Process(self.pid)` inside `is_running()` (identity check), `Process(child)` in both loops of
  `children()`, `Process(ppid)` in `parent()`. A PID the gate refuses is `NoSuchProcess` for the walkers —
  exactly like a process that vanished — whatever `/proc` shows. What is NOT gated: `ppid_map()` / `pids()`
  (they read `/proc` directly) and `self._proc.ppid()` (the caller's own, already built platform object).

  Model/C05.lean and Model/C05Dyn.lean are untouched: the gated walkers are the old ones run in gated
  worlds (`ctorLook`, `ctorW`, `PStep.gated`); `childrenXG` is `childrenX` with the identity-check world
  separated from the world `ppid_map()` reads (`childrenX_eq_G` in Proofs/C05Range.lean: `childrenX = childrenXG` on equal worlds, by `rfl`).
-/
import PsutilModel.Model.C05
import PsutilModel.Model.C05Dyn
namespace Psutil.C05

/-- facts about the gate, re-derived from the source on every run -/
structure RCfg where
  /-- smallest non-negative PID for which `psutil_check_pid_range()` (Linux build) raises, as far as the translator can read
      it: `2^(width of pid_t − 1)` from the `_Py_PARSE_PID` conversion, lowered by any `pid >= N` / `pid > N` refusal in the body -/
  cLimit : Nat
  /-- …and `pid` is used in no other way in that helper (no other test, helper call, loop): nothing else refuses a PID -/
  cShapeKnown : Bool
  /-- `Process._init()`: between `pid < 0` (ValueError) and the construction of the platform object the ONLY
      refusal of a PID is `cext.check_pid_range(pid)` → OverflowError → NoSuchProcess -/
  initOnlyC : Bool
deriving Repr

/-- smallest PID `Process(pid)` refuses as "out of range" (what the model's gate uses) -/
def RCfg.limit (rc : RCfg) : Nat := rc.cLimit

/-- `Process(pid).create_time()` through the gate: a refused PID is NoSuchProcess without any file being read -/
def ctorLook (rc : RCfg) (look : Look) : Look := fun p => if p < rc.limit then look p else none

/-- the same in the richer world: a refused PID looks like a vanished process -/
def ctorW (rc : RCfg) (w : XWorld) : XWorld := fun p => if p < rc.limit then w p else .gone

/-- `psutil.Process(pid)` -/
def mkProcessR (rc : RCfg) (look : Look) (pid : Nat) : Out Caller := mkProcess (ctorLook rc look) pid

/-- `Process.children(recursive)`: identity check and child look-ups are gated, `pm` (= `ppid_map()`) is not -/
def childrenR (rc : RCfg) (c : Cfg) (me : Caller) (recursive : Bool) (look0 : Look) (pm : PpidMap) (look : Look) :
    Caller × Out (List Nat) :=
  children c me recursive (ctorLook rc look0) pm (ctorLook rc look)

/-- `childrenX` of Model/C05Dyn.lean with the world of the identity check (`wi`) separated from the world
    `ppid_map()` reads (`w0`); same body otherwise -/
def childrenXG (c : XCfg) (me : Caller) (recursive : Bool) (L : List Nat) (wi w0 wl : XWorld) :
    Caller × XOut (List Nat) :=
  let g := if c.base.childrenGuarded then raiseIfPidReusedX c.base.goneRaises wi me else (me, false)
  if g.2 then (g.1, .nsp me.pid)
  else
    match ppidMapX c.mapSkipsDenied c.mapSkipsGone w0 L with
    | .error .permission => (g.1, .permissionError)
    | .error .notFound => (g.1, .fileNotFound)
    | .ok pm =>
      let pm' := usedMap c.base me.pid pm
      if !recursive then
        match filterX (examOf c.base.childOp me.ctime wl) (kidsOf pm' me.pid) with
        | .error p => (g.1, .denied p)
        | .ok l => (g.1, .ok l)
      else
        match walkX c.base.seenGuard (examOf c.base.descOp me.ctime wl) pm' (walkFuel pm') [] [me.pid] [] with
        | none => (g.1, .diverged)
        | some (.error p) => (g.1, .denied p)
        | some (.ok l) => (g.1, .ok l)

/-- `Process.children(recursive)` in the richer world, through the gate -/
def childrenXR (rc : RCfg) (c : XCfg) (me : Caller) (recursive : Bool) (L : List Nat) (w0 wl : XWorld) :
    Caller × XOut (List Nat) :=
  childrenXG c me recursive L (ctorW rc w0) w0 (ctorW rc wl)

/-- the worlds of one `parent()` call through the gate: `Process(self.pid)` (identity check) and `Process(ppid)`
    are constructions; the listing and the caller's own stat read are not -/
def PStep.gated (rc : RCfg) (s : PStep) : PStep := { s with wi := ctorW rc s.wi, wp := ctorW rc s.wp }

def ppidXR (rc : RCfg) (c : Cfg) (s : PStep) (me : Caller) (os : Oneshot) : Caller × Oneshot × XOut Nat :=
  ppidX c (s.gated rc) me os

def parentXR (rc : RCfg) (c : Cfg) (ps : Ps) (s : PStep) (me : Caller) (os : Oneshot) :
    Ps × Caller × Oneshot × XOut (Option Row) :=
  parentX c ps (s.gated rc) me os

def parentsXR (rc : RCfg) (c : Cfg) (fuel : Nat) (ps : Ps) (W : Nat → PStep) (me : Caller) (os : Oneshot) :
    Ps × XOut (List Row) :=
  parentsX c fuel ps (fun i => (W i).gated rc) me os

end Psutil.C05
