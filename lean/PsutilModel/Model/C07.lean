/-
  Model/C07.lean — transcription of
    * `_pslinux.set_scputimes_ntuple / cpu_times / per_cpu_times`   (parsing of `/proc/stat`)
    * `psutil._cpu_times_deltas / _cpu_tot_time / _cpu_busy_time`
    * `psutil.cpu_percent / cpu_times_percent` (their `calculate()` closures, the four
      per-thread "last sample" dictionaries, blocking and non-blocking forms)
    * `psutil.Process.cpu_percent` (per-object last samples, `num_cpus` scaling)
  in exact rationals over integer tick counts. Import-free (only Base.Bytes / Base.Dec).

  Everything the translator re-derives from the source is a field of `Cfg`; the model never
  hard-codes a subtraction list, a guard, a clamp or a rounding digit.
-/
import PsutilModel.Base.Bytes
import PsutilModel.Base.Dec
namespace Psutil.C07

/-- the CPU time columns Linux has ever printed in `/proc/stat` -/
inductive Fld
  | user | nice | system | idle | iowait | irq | softirq | steal | guest | guestNice
  deriving DecidableEq, Repr

def Fld.ofName? (s : String) : Option Fld :=
  if s == "user" then some .user else if s == "nice" then some .nice
  else if s == "system" then some .system else if s == "idle" then some .idle
  else if s == "iowait" then some .iowait else if s == "irq" then some .irq
  else if s == "softirq" then some .softirq else if s == "steal" then some .steal
  else if s == "guest" then some .guest else if s == "guest_nice" then some .guestNice
  else none

/-- facts re-derived from /repo's source by the translator (Generated/C07.lean → Model/C07Gen.lean) -/
structure Cfg where
  /-- `fields = ['user', …, 'softirq']` in `set_scputimes_ntuple` -/
  base : List Fld
  /-- `if vlen >= N: fields.append(name)` in source order -/
  opt : List (Nat × Fld)
  /-- `values[sliceFrom : len(scputimes._fields) + sliceExtra]` -/
  sliceFrom : Nat
  sliceExtra : Nat
  /-- the same slice in `per_cpu_times` -/
  pcSliceFrom : Nat
  pcSliceExtra : Nat
  /-- both comprehensions are `float(x) / CLOCK_TICKS` -/
  divTicks : Bool
  /-- `line.startswith(b'cpu')` in `per_cpu_times` -/
  perCpuPrefix : Bytes
  /-- `_cpu_times_deltas` clips with `max(0, delta)` -/
  clipZero : Bool
  /-- `_cpu_tot_time`: `tot -= getattr(times, f, 0)` for these, in order -/
  totSub : List Fld
  /-- `_cpu_busy_time`: `busy -= times.f` (attribute must exist) -/
  busySubReq : List Fld
  /-- `_cpu_busy_time`: `busy -= getattr(times, f, 0)` -/
  busySubOpt : List Fld
  /-- `cpu_percent.calculate`: `(busy / all) * pctFactor`, `round(_, pctDigits)` -/
  pctFactor : Nat
  pctDigits : Nat
  /-- `cpu_times_percent.calculate`: `scale = tpNumer / max(1, all)` (tpMaxOne) or
      `tpNumer / all if all > 0 else 0` (not tpMaxOne) -/
  tpNumer : Nat
  tpMaxOne : Bool
  tpDigits : Nat
  /-- `min(max(tpLo, x), tpHi)` -/
  tpLo : Nat
  tpHi : Nat
  /-- the four `_last_*` dictionaries are four different objects, each used by one branch -/
  dictsDistinct : Bool
  /-- `Process.cpu_percent`: `round(_, procDigits)`, `* procFactor` -/
  procFactor : Nat
  procDigits : Nat
  /-- how `Process.cpu_percent` measures the wall clock between two calls:
      `false` — it remembers `_timer() * num_cpus` and subtracts two such products
                (`delta_time = st2 - st1`, the code as found: the two products may use two
                different CPU counts);
      `true`  — it remembers the raw `_timer()` and scales the DIFFERENCE by the current
                `num_cpus` (`delta_time = (st2 - st1) * num_cpus`, the repaired shape) -/
  procScaleDelta : Bool
  /-- facts with no degree of freedom in the model (checked by `Cfg.Good` only):
      `delta_proc = (pt2.user - pt1.user) + (pt2.system - pt1.system)`; `num_cpus = cpu_count() or 1`;
      `except ZeroDivisionError: return 0.0` in the three places; the `interval < 0` guards;
      `tot = sum(times)`; `busy = _cpu_tot_time(times)`; first `Process.cpu_percent` call returns 0.0 -/
  shapeOk : Bool
  /-- what kind of container the four `_last_*` objects are (translator facts `lastDictDefs`,
      `lastDictOtherUses`, `lastStoreBound`):
      `none`   — builtin `dict`s (dict displays and `.copy()`s of them) that the module only ever
                 reads with `.get(tid)` / `[tid]` and writes with `[tid] = …`: every sample ever filed
                 stays until the same key is written again, however many keys there are;
      `some n` — a container that holds at most `n` entries: filing a sample under a NEW key while
                 `n` entries are held first drops the entry that was inserted first (the shape the
                 theorems refute: `C07_bounded_store_counterexample`) -/
  storeBound : Option Nat := none

/-- one `scputimes` tuple, seconds, in the order of `scputimes._fields` -/
abbrev Sample := List Rat

/-! ## Python arithmetic helpers -/

/-- `max(a, b)` of Python: `a` unless `b > a` -/
def rmax (a b : Rat) : Rat := if a < b then b else a
/-- `min(a, b)` of Python: `a` unless `b < a` -/
def rmin (a b : Rat) : Rat := if b < a then b else a

/-- round half to even -/
def roundHalfEven (x : Rat) : Int :=
  let f := x.floor
  let r := x - (f : Rat)
  if r < 1 / 2 then f
  else if 1 / 2 < r then f + 1
  else if f % 2 = 0 then f else f + 1

def pow10 (d : Nat) : Rat := ((10 ^ d : Nat) : Rat)

/-- `round(x, d)` on the exact value -/
def roundN (d : Nat) (x : Rat) : Rat := (roundHalfEven (x * pow10 d) : Rat) / pow10 d

/-! ## `/proc/stat` -/

inductive Exc
  | valueError          -- `float(token)` / negative interval
  | typeError           -- `scputimes(*fields)` with the wrong number of values
  | attributeError      -- `times.idle` on a tuple without that field
  | zeroDivisionError   -- `/ CLOCK_TICKS` with CLOCK_TICKS = 0 (never on a real host)
  | noSuchProcess       -- `self._proc.cpu_times()` of `Process.cpu_percent` when `/proc/<pid>/stat` is gone
  deriving DecidableEq, Repr

abbrev PRes := Except Exc

/-- `scputimes._fields` as fixed by `set_scputimes_ntuple` from the number of values on the
    first line it saw -/
def fieldsFor (c : Cfg) (vlen : Nat) : List Fld :=
  c.base ++ ((c.opt.filter fun p => decide (p.1 ≤ vlen)).map (·.2))

/-- `float(x) / CLOCK_TICKS` for a token the kernel prints (`%llu`) -/
def parseFloatTok (c : Cfg) (tck : Nat) (t : Bytes) : PRes Rat :=
  match parseDec? t with
  | none => .error .valueError
  | some n =>
    if c.divTicks then
      if tck = 0 then .error .zeroDivisionError else .ok ((n : Rat) / (tck : Rat))
    else .ok (n : Rat)

def parseToks (c : Cfg) (tck : Nat) : List Bytes → PRes (List Rat)
  | [] => .ok []
  | t :: ts =>
    match parseFloatTok c tck t with
    | .error e => .error e
    | .ok v =>
      match parseToks c tck ts with
      | .error e => .error e
      | .ok vs => .ok (v :: vs)

/-- `fields = values[a : nf + b]; fields = [float(x) / CLOCK_TICKS …]; scputimes(*fields)` -/
def parseCpuValues (c : Cfg) (sFrom sExtra nf tck : Nat) (values : List Bytes) : PRes Sample :=
  let toks := (values.drop sFrom).take (nf + sExtra - sFrom)
  match parseToks c tck toks with
  | .error e => .error e
  | .ok fs => if fs.length = nf then .ok fs else .error .typeError

/-- `f.readline()` -/
def firstLine (data : Bytes) : Bytes := (linesOf data).headD []

/-- `_pslinux.cpu_times()` on the content of `/proc/stat` -/
def cpuTimes (c : Cfg) (nf tck : Nat) (data : Bytes) : PRes Sample :=
  parseCpuValues c c.sliceFrom c.sliceExtra nf tck (splitWs (firstLine data))

def parseCpuLines (c : Cfg) (nf tck : Nat) : List Bytes → PRes (List Sample)
  | [] => .ok []
  | l :: ls =>
    if startsWith c.perCpuPrefix l then
      match parseCpuValues c c.pcSliceFrom c.pcSliceExtra nf tck (splitWs l) with
      | .error e => .error e
      | .ok s =>
        match parseCpuLines c nf tck ls with
        | .error e => .error e
        | .ok ss => .ok (s :: ss)
    else parseCpuLines c nf tck ls

/-- `_pslinux.per_cpu_times()` -/
def perCpuTimes (c : Cfg) (nf tck : Nat) (data : Bytes) : PRes (List Sample) :=
  parseCpuLines c nf tck ((linesOf data).drop 1)

/-! ## deltas, total, busy -/

def delta (c : Cfg) (a b : Rat) : Rat := if c.clipZero then rmax 0 (b - a) else b - a

/-- `_cpu_times_deltas(t1, t2)` -/
def deltas (c : Cfg) (t1 t2 : Sample) : Sample := List.zipWith (delta c) t1 t2

/-- `getattr(times, f)` -/
def getF (fields : List Fld) (vals : Sample) (f : Fld) : Option Rat := (fields.zip vals).lookup f

/-- `acc -= getattr(times, f, 0)` for each `f` -/
def subOpt (fields : List Fld) (vals : Sample) (acc : Rat) (fs : List Fld) : Rat :=
  fs.foldl (fun a f => a - (getF fields vals f).getD 0) acc

/-- `acc -= times.f` for each `f` (AttributeError when missing) -/
def subReq (fields : List Fld) (vals : Sample) (acc : Rat) : List Fld → Option Rat
  | [] => some acc
  | f :: fs =>
    match getF fields vals f with
    | none => none
    | some v => subReq fields vals (acc - v) fs

/-- `_cpu_tot_time(times)` -/
def totTime (c : Cfg) (fields : List Fld) (vals : Sample) : Rat :=
  subOpt fields vals vals.sum c.totSub

/-- `_cpu_busy_time(times)` -/
def busyTime (c : Cfg) (fields : List Fld) (vals : Sample) : Option Rat :=
  match subReq fields vals (totTime c fields vals) c.busySubReq with
  | none => none
  | some b => some (subOpt fields vals b c.busySubOpt)

/-- `cpu_percent.calculate(t1, t2)` -/
def calcPercent (c : Cfg) (fields : List Fld) (t1 t2 : Sample) : PRes Rat :=
  let d := deltas c t1 t2
  let all := totTime c fields d
  match busyTime c fields d with
  | none => .error .attributeError
  | some busy =>
    if all = 0 then .ok 0                                    -- ZeroDivisionError → 0.0
    else .ok (roundN c.pctDigits (busy / all * (c.pctFactor : Rat)))

/-- `scale` of `cpu_times_percent.calculate` -/
def tpScale (c : Cfg) (all : Rat) : Rat :=
  if c.tpMaxOne then (c.tpNumer : Rat) / rmax 1 all
  else if 0 < all then (c.tpNumer : Rat) / all else 0

def clampTp (c : Cfg) (x : Rat) : Rat := rmin (rmax (c.tpLo : Rat) x) (c.tpHi : Rat)

/-- `cpu_times_percent.calculate(t1, t2)` -/
def calcTimesPercent (c : Cfg) (fields : List Fld) (t1 t2 : Sample) : PRes Sample :=
  let d := deltas c t1 t2
  let all := totTime c fields d
  let scale := tpScale c all
  .ok (d.map fun fd => clampTp c (roundN c.tpDigits (fd * scale)))

/-! ## the front ends and their per-thread dictionaries -/

inductive Fn | percent | timesPercent
  deriving DecidableEq, Repr

/-- which of the four code paths / dictionaries: `_last_cpu_times`, `_last_per_cpu_times`,
    `_last_cpu_times_2`, `_last_per_cpu_times_2` -/
structure Fam where
  fn : Fn
  percpu : Bool
  deriving DecidableEq, Repr

/-- what a dictionary holds: one tuple, or a list of tuples (one per CPU) -/
inductive Stored
  | one (s : Sample)
  | many (l : List Sample)
  deriving DecidableEq, Repr

/-- Python truthiness of the stored object (`last.get(tid) or cpu_times()`): a named tuple
    with ≥ 1 field is true, an empty list is false -/
def Stored.truthy : Stored → Bool
  | .one s => !s.isEmpty
  | .many l => !l.isEmpty

abbrev Tid := Nat
abbrev St := Fam → Tid → Option Stored

def St.init : St := fun _ _ => none

def St.set (s : St) (f : Fam) (t : Tid) (v : Stored) : St :=
  fun f' t' => if f' = f ∧ t' = t then some v else s f' t'

structure Env where
  cfg : Cfg
  vlen : Nat      -- number of values on the first line `set_scputimes_ntuple` saw
  tck : Nat

def Env.fields (e : Env) : List Fld := fieldsFor e.cfg e.vlen

/-- `cpu_times()` / `cpu_times(percpu=True)` -/
def sample (e : Env) (percpu : Bool) (data : Bytes) : PRes Stored :=
  let nf := e.fields.length
  if percpu then
    match perCpuTimes e.cfg nf e.tck data with
    | .error x => .error x
    | .ok l => .ok (.many l)
  else
    match cpuTimes e.cfg nf e.tck data with
    | .error x => .error x
    | .ok s => .ok (.one s)

/-- returned value -/
inductive Val
  | num (v : Rat)                 -- cpu_percent()
  | nums (vs : List Rat)          -- cpu_percent(percpu=True)
  | tup (vs : List Rat)           -- cpu_times_percent()
  | tups (vs : List (List Rat))   -- cpu_times_percent(percpu=True)
  deriving DecidableEq, Repr

def mapPairs {β : Type} (f : Sample → Sample → PRes β) : List Sample → List Sample → PRes (List β)
  | a :: as, b :: bs =>
    match f a b with
    | .error e => .error e
    | .ok v =>
      match mapPairs f as bs with
      | .error e => .error e
      | .ok vs => .ok (v :: vs)
  | _, _ => .ok []                -- `zip` stops at the shorter list

/-- `calculate` applied the way each branch does (`zip(tot1, tot2)` for percpu) -/
def calcStored (e : Env) (fn : Fn) : Stored → Stored → PRes Val
  | .one a, .one b =>
    match fn with
    | .percent => (calcPercent e.cfg e.fields a b).map .num
    | .timesPercent => (calcTimesPercent e.cfg e.fields a b).map .tup
  | .many as, .many bs =>
    match fn with
    | .percent => (mapPairs (calcPercent e.cfg e.fields) as bs).map .nums
    | .timesPercent => (mapPairs (calcTimesPercent e.cfg e.fields) as bs).map .tups
  | _, _ => .error .typeError     -- cannot happen: a dictionary only ever holds its own kind

structure Call where
  fn : Fn
  tid : Tid
  interval : Option Rat           -- None / number
  percpu : Bool
  reads : List Bytes              -- what `/proc/stat` contains at each successive read
  deriving Repr

inductive Out
  | ok (v : Val) (nreads : Nat)
  | exc (e : Exc) (nreads : Nat)
  | starved                       -- the scenario did not say what a further read returns
  deriving DecidableEq, Repr

/-- which dictionary a branch really uses; with `dictsDistinct = false` the `_2` ones alias -/
def slot (c : Cfg) (f : Fam) : Fam := if c.dictsDistinct then f else ⟨.percent, f.percpu⟩

def Call.fam (c : Call) : Fam := ⟨c.fn, c.percpu⟩

def Call.blocking (c : Call) : Bool :=
  match c.interval with
  | some i => decide (0 < i)
  | none => false

def Call.negative (c : Call) : Bool :=
  match c.interval with
  | some i => decide (i < 0)
  | none => false

/-- second half shared by both paths: `last[tid] = sample(); return calculate(t1, last[tid])` -/
def finish (e : Env) (s : St) (c : Call) (t1 : Stored) (data : Bytes) (n : Nat) : St × Out :=
  match sample e c.percpu data with
  | .error x => (s, .exc x n)
  | .ok t2 =>
    let s' := s.set (slot e.cfg c.fam) c.tid t2
    match calcStored e c.fn t1 t2 with
    | .error x => (s', .exc x n)
    | .ok v => (s', .ok v n)

/-- one call of `cpu_percent` / `cpu_times_percent` -/
def step (e : Env) (s : St) (c : Call) : St × Out :=
  if c.negative then (s, .exc .valueError 0)
  else
    let prev : Option Stored :=
      if c.blocking then none
      else match s (slot e.cfg c.fam) c.tid with
        | some v => if v.truthy then some v else none
        | none => none
    match prev with
    | some t1 =>
      match c.reads with
      | [] => (s, .starved)
      | r :: _ => finish e s c t1 r 1
    | none =>
      match c.reads with
      | [] => (s, .starved)
      | r0 :: rest =>
        match sample e c.percpu r0 with
        | .error x => (s, .exc x 1)
        | .ok t1 =>
          match rest with
          | [] => (s, .starved)
          | r1 :: _ => finish e s c t1 r1 2

/-- the module-level code that runs when `psutil` is imported by thread `tid0`:
    `try: _last_cpu_times = {tid0: cpu_times()}  except Exception: _last_cpu_times = {}`,
    the same for `_last_per_cpu_times` with `cpu_times(percpu=True)`, and further down
    `_last_cpu_times_2 = _last_cpu_times.copy()`, `_last_per_cpu_times_2 = _last_per_cpu_times.copy()`.
    `r0`, `r1` are what `/proc/stat` contains at those two reads. -/
def importState (e : Env) (tid0 : Tid) (r0 r1 : Bytes) : St :=
  let d1 : Tid → Option Stored :=
    match sample e false r0 with
    | .ok v => fun t => if t = tid0 then some v else none
    | .error _ => fun _ => none
  let d2 : Tid → Option Stored :=
    match sample e true r1 with
    | .ok v => fun t => if t = tid0 then some v else none
    | .error _ => fun _ => none
  fun fam t => if fam.percpu then d2 t else d1 t

def runAll (e : Env) (s : St) : List Call → St
  | [] => s
  | c :: cs => runAll e (step e s c).1 cs

/-- the outputs, in order, of the calls of a history -/
def outputs (e : Env) (s : St) : List Call → List Out
  | [] => []
  | c :: cs => (step e s c).2 :: outputs e (step e s c).1 cs

/-! ## interleavings: the same code at the granularity of its dictionary accesses -/

/-- the shared-memory accesses one call performs, in program order -/
inductive MOp
  | getLast                 -- `t1 = last.get(tid)` (kept only when truthy)
  | sampleT1 (v : Stored)   -- `t1 = t1 or cpu_times()` — a fresh sample, used when t1 is missing
  | forceT1 (v : Stored)    -- blocking form: `t1 = cpu_times()`
  | store (v : Stored)      -- `last[tid] = cpu_times()`
  | load                    -- `t2 = last[tid]` (the `return calculate(t1, last[tid])` re-read)
  deriving Repr

structure Loc where
  t1 : Option Stored
  t2 : Option Stored
  deriving DecidableEq, Repr

structure MSt where
  last : Tid → Option Stored      -- one dictionary
  loc : Tid → Loc                 -- each thread's private variables

def MSt.setLoc (s : MSt) (t : Tid) (l : Loc) : MSt :=
  { s with loc := fun t' => if t' = t then l else s.loc t' }

def mstep (s : MSt) (t : Tid) : MOp → MSt
  | .getLast =>
    s.setLoc t { s.loc t with t1 := match s.last t with
                                     | some v => if v.truthy then some v else none
                                     | none => none }
  | .sampleT1 v =>
    match (s.loc t).t1 with
    | some _ => s
    | none => s.setLoc t { s.loc t with t1 := some v }
  | .forceT1 v => s.setLoc t { s.loc t with t1 := some v }
  | .store v => { s with last := fun t' => if t' = t then some v else s.last t' }
  | .load => s.setLoc t { s.loc t with t2 := s.last t }

def mrun (s : MSt) : List (Tid × MOp) → MSt
  | [] => s
  | (t, op) :: rest => mrun (mstep s t op) rest

/-! ## `Process.cpu_percent` -/

structure PLast where
  sys : Rat          -- `_last_sys_cpu_times` (= `_timer() * num_cpus`, or the raw `_timer()`: `procStamp`)
  user : Rat         -- `_last_proc_cpu_times.user`
  system : Rat       -- `_last_proc_cpu_times.system`
  deriving DecidableEq, Repr

abbrev PSt := Nat → Option PLast       -- per `Process` object

def PSt.init : PSt := fun _ => none

def PSt.set (s : PSt) (o : Nat) (v : PLast) : PSt := fun o' => if o' = o then some v else s o'

structure PCall where
  obj : Nat
  interval : Option Rat
  ncpuRaw : Option Int                 -- what `cpu_count_logical()` returns
  timer : List Rat                     -- successive values of `_timer()`
  times : List (Nat × Nat)             -- successive (utime, stime) tick counts in /proc/<pid>/stat
  /-- `some k`: the process is gone when this call reads `/proc/<pid>/stat` for the (k+1)-th time
      (`self._proc.cpu_times()` raises NoSuchProcess there); `none`: it stays alive -/
  vanishAt : Option Nat := none
  deriving Repr

inductive POut
  | val (v : Rat)
  | exc (e : Exc)
  | starved
  deriving DecidableEq, Repr

/-- `cpu_count() or 1` -/
def numCpus : Option Int → Rat
  | some n => if n < 1 then 1 else (n : Rat)
  | none => 1

def PCall.blocking (c : PCall) : Bool :=
  match c.interval with
  | some i => decide (0 < i)
  | none => false

def PCall.negative (c : PCall) : Bool :=
  match c.interval with
  | some i => decide (i < 0)
  | none => false

/-- does one of the `self._proc.cpu_times()` reads this call really performs find the process gone?
    (a blocking call reads twice — before and after the sleep —, a non-blocking call once) -/
def PCall.vanishes (c : PCall) : Bool :=
  match c.vanishAt with
  | some k => if c.blocking then decide (k ≤ 1) else decide (k = 0)
  | none => false

def procSecs (tck : Nat) (ticks : Nat) : Rat := (ticks : Rat) / (tck : Rat)

/-- what a call remembers as its time stamp: `timer()` = `_timer() * num_cpus` (as found) or the
    raw `_timer()` (repaired shape) -/
def procStamp (c : Cfg) (n t : Rat) : Rat := if c.procScaleDelta then t else t * n

/-- the arithmetic after both samples are known -/
def procFinish (c : Cfg) (n : Rat) (a b : PLast) : Rat :=
  let deltaProc := (b.user - a.user) + (b.system - a.system)
  let deltaTime := if c.procScaleDelta then (b.sys - a.sys) * n else b.sys - a.sys
  if deltaTime = 0 then 0                                   -- ZeroDivisionError → 0.0
  else roundN c.procDigits (deltaProc / deltaTime * (c.procFactor : Rat) * n)

def pstep (c : Cfg) (tck : Nat) (s : PSt) (p : PCall) : PSt × POut :=
  if p.negative then (s, .exc .valueError)
  else if p.vanishes then (s, .exc .noSuchProcess)   -- raised between `st = _timer()` and the two stores: nothing is remembered
  else
    let n := numCpus p.ncpuRaw
    if p.blocking then
      match p.timer, p.times with
      | t1 :: t2 :: _, (u1, s1) :: (u2, s2) :: _ =>
        let a : PLast := ⟨procStamp c n t1, procSecs tck u1, procSecs tck s1⟩
        let b : PLast := ⟨procStamp c n t2, procSecs tck u2, procSecs tck s2⟩
        (s.set p.obj b, .val (procFinish c n a b))
      | _, _ => (s, .starved)
    else
      match p.timer, p.times with
      | t2 :: _, (u2, s2) :: _ =>
        let b : PLast := ⟨procStamp c n t2, procSecs tck u2, procSecs tck s2⟩
        match s p.obj with
        | none => (s.set p.obj b, .val 0)
        | some a => (s.set p.obj b, .val (procFinish c n a b))
      | _, _ => (s, .starved)

def prunAll (c : Cfg) (tck : Nat) (s : PSt) : List PCall → PSt
  | [] => s
  | p :: ps => prunAll c tck (pstep c tck s p).1 ps

/-! ## the `_last_*` objects as the containers they are

`St` above is a total function `Fam → Tid → Option Stored`: it can remember a sample for every
thread identifier there is. The code files the samples in four Python `dict` objects. Below the
same front ends run over that container — an insertion-ordered association list, one entry per
key, with the retention policy `Cfg.storeBound` — so that HOW MANY threads have a sample filed at
the same time (the population of the dictionary) is a dimension of the model, not an assumption
hidden in the type of `St`. -/

/-- a Python `dict` keyed by thread identifier: the items in insertion order -/
abbrev PyDict := List (Tid × Stored)

/-- `d.get(t)` / `d[t]` -/
def PyDict.get : PyDict → Tid → Option Stored
  | [], _ => none
  | (k, x) :: r, t => if k = t then some x else PyDict.get r t

/-- `d[t] = v` of a builtin `dict`: an existing key keeps its position and gets the new value, a new
    key is appended; no other item is touched -/
def PyDict.setItem : PyDict → Tid → Stored → PyDict
  | [], t, v => [(t, v)]
  | (k, x) :: r, t, v => if k = t then (t, v) :: r else (k, x) :: PyDict.setItem r t v

/-- `d[t] = v` of the container the code uses (`bound` = `Cfg.storeBound`) -/
def PyDict.store (bound : Option Nat) (d : PyDict) (t : Tid) (v : Stored) : PyDict :=
  match bound with
  | none => d.setItem t v
  | some n =>
    if (d.get t).isSome then d.setItem t v            -- overwriting never makes room
    else if n ≤ d.length then PyDict.setItem (d.drop 1) t v   -- full: the item inserted first goes
    else d.setItem t v

/-- the four dictionaries `_last_cpu_times`, `_last_per_cpu_times`, `_last_cpu_times_2`,
    `_last_per_cpu_times_2` -/
structure CSt where
  sys1 : PyDict
  per1 : PyDict
  sys2 : PyDict
  per2 : PyDict
  deriving Repr

def CSt.init : CSt := ⟨[], [], [], []⟩

/-- the dictionary of a function/variant -/
def CSt.dict (s : CSt) (f : Fam) : PyDict :=
  match f.fn, f.percpu with
  | .percent, false => s.sys1
  | .percent, true => s.per1
  | .timesPercent, false => s.sys2
  | .timesPercent, true => s.per2

def CSt.setDict (s : CSt) (f : Fam) (d : PyDict) : CSt :=
  match f.fn, f.percpu with
  | .percent, false => { s with sys1 := d }
  | .percent, true => { s with per1 := d }
  | .timesPercent, false => { s with sys2 := d }
  | .timesPercent, true => { s with per2 := d }

/-- what the dictionaries hold, as the function `St` the first model works with -/
def CSt.view (s : CSt) : St := fun f t => (s.dict f).get t

/-- `_last_X[t] = v` -/
def CSt.put (b : Option Nat) (s : CSt) (f : Fam) (t : Tid) (v : Stored) : CSt :=
  s.setDict f ((s.dict f).store b t v)

/-- `finish` over the container -/
def cfinish (e : Env) (s : CSt) (c : Call) (t1 : Stored) (data : Bytes) (n : Nat) : CSt × Out :=
  match sample e c.percpu data with
  | .error x => (s, .exc x n)
  | .ok t2 =>
    let s' := s.put e.cfg.storeBound (slot e.cfg c.fam) c.tid t2
    match calcStored e c.fn t1 t2 with
    | .error x => (s', .exc x n)
    | .ok v => (s', .ok v n)

/-- `step` over the container: one call of `cpu_percent` / `cpu_times_percent` -/
def cstep (e : Env) (s : CSt) (c : Call) : CSt × Out :=
  if c.negative then (s, .exc .valueError 0)
  else
    let prev : Option Stored :=
      if c.blocking then none
      else match (s.dict (slot e.cfg c.fam)).get c.tid with
        | some v => if v.truthy then some v else none
        | none => none
    match prev with
    | some t1 =>
      match c.reads with
      | [] => (s, .starved)
      | r :: _ => cfinish e s c t1 r 1
    | none =>
      match c.reads with
      | [] => (s, .starved)
      | r0 :: rest =>
        match sample e c.percpu r0 with
        | .error x => (s, .exc x 1)
        | .ok t1 =>
          match rest with
          | [] => (s, .starved)
          | r1 :: _ => cfinish e s c t1 r1 2

def crunAll (e : Env) (s : CSt) : List Call → CSt
  | [] => s
  | c :: cs => crunAll e (cstep e s c).1 cs

/-- the module-level priming code over the container: two dict displays with one item (or `{}`
    when the read failed) and two `.copy()`s -/
def cimportState (e : Env) (tid0 : Tid) (r0 r1 : Bytes) : CSt :=
  let d1 : PyDict :=
    match sample e false r0 with
    | .ok v => [(tid0, v)]
    | .error _ => []
  let d2 : PyDict :=
    match sample e true r1 with
    | .ok v => [(tid0, v)]
    | .error _ => []
  ⟨d1, d2, d1, d2⟩

end Psutil.C07
