/- Model/C11Gen.lean — the C11 model instantiated with the facts the translator extracted. -/
import PsutilModel.Model.C11
import PsutilModel.Generated.C11
namespace Psutil.C11

/-- decode_address: `except ValueError:` → `_Ipv6UnsupportedError` when `supports_ipv6()` is false, else re-raise -/
def decodeV6HandlerShape : List String :=
  ["except ValueError", "if not supports_ipv6(): raise _Ipv6UnsupportedError from None", "raise"]

/-- process_inet: both `decode_address` calls inside one `try`, `except _Ipv6UnsupportedError: continue` -/
def inetV6TryShape : List String :=
  ["laddr = NetConnections.decode_address(laddr, family)", "raddr = NetConnections.decode_address(raddr, family)",
   "except _Ipv6UnsupportedError", "continue"]

/-- configuration of the model as extracted from the current source -/
def cfg : Cfg :=
  { littleEndian := Gen.C11.littleEndian
    afInet := Gen.C11.afInet
    afInet6 := Gen.C11.afInet6
    afUnix := Gen.C11.afUnix
    sockStream := Gen.C11.sockStream
    tcpStatuses := Gen.C11.tcpStatuses
    connNone := Gen.C11.connNone
    tmap := Gen.C11.tmap
    connKinds := Gen.C11.connTmap.map (·.1)
    inodesExtend := Gen.C11.inodesExtend
    unixPathRest := Gen.C11.unixPathRest
    linkSkipClasses := Gen.C11.linkSkipClasses
    linkSkipErrnos := Gen.C11.linkSkipErrnos
    allSkipClasses := Gen.C11.allSkipClasses
    v6RaiseUnsupported := Gen.C11.decodeV6Handler == decodeV6HandlerShape
    v6SkipLine := Gen.C11.inetV6Try == inetV6TryShape
    inetN := Gen.C11.inetIdx.getD 0 0
    iLaddr := Gen.C11.inetIdx.getD 1 0
    iRaddr := Gen.C11.inetIdx.getD 2 0
    iStatus := Gen.C11.inetIdx.getD 3 0
    iInode := Gen.C11.inetIdx.getD 4 0
    unixN := Gen.C11.unixIdx.getD 0 0
    uType := Gen.C11.unixIdx.getD 1 0
    uInode := Gen.C11.unixIdx.getD 2 0 }

end Psutil.C11
