/- Model/C11Gen.lean — the C11 model instantiated with the facts the translator extracted. -/
import PsutilModel.Model.C11
import PsutilModel.Generated.C11
namespace Psutil.C11

/-- configuration of the model as extracted from the current source -/
def cfg : Cfg :=
  { littleEndian := Gen.C11.littleEndian
    afInet := Gen.C11.afInet
    afInet6 := Gen.C11.afInet6
    afUnix := Gen.C11.afUnix
    sockStream := Gen.C11.sockStream
    tcpStatuses := Gen.C11.tcpStatuses
    connNone := Gen.C11.connNone
    tmap := Gen.C11.tmap
    connKinds := Gen.C11.connTmap.map (·.1)
    inodesExtend := Gen.C11.inodesExtend
    unixPathRest := Gen.C11.unixPathRest
    inetN := Gen.C11.inetIdx.getD 0 0
    iLaddr := Gen.C11.inetIdx.getD 1 0
    iRaddr := Gen.C11.inetIdx.getD 2 0
    iStatus := Gen.C11.inetIdx.getD 3 0
    iInode := Gen.C11.inetIdx.getD 4 0
    unixN := Gen.C11.unixIdx.getD 0 0
    uType := Gen.C11.unixIdx.getD 1 0
    uInode := Gen.C11.unixIdx.getD 2 0 }

end Psutil.C11
