/- Model/C11Gen.lean — the C11 model instantiated with the facts the translator extracted, and the statement lists
   the hand transcription in Model/C11.lean was made from (`shapesExpected`). -/
import PsutilModel.Model.C11
import PsutilModel.Generated.C11
namespace Psutil.C11

/-- decode_address: `except ValueError:` → `_Ipv6UnsupportedError` when `supports_ipv6()` is false, else re-raise -/
def decodeV6HandlerShape : List String :=
  ["except ValueError", "if not supports_ipv6(): raise _Ipv6UnsupportedError from None", "raise"]

/-- process_inet: both `decode_address` calls inside one `try`, `except _Ipv6UnsupportedError: continue` -/
def inetV6TryShape : List String :=
  ["laddr = NetConnections.decode_address(laddr, family)", "raddr = NetConnections.decode_address(raddr, family)",
   "except _Ipv6UnsupportedError", "continue"]

/-- get_all_inodes keeps the holders of every process: `setdefault(inode, []).extend(pairs)` per inode -/
def mergeExtendShape : List String :=
  ["for (inode, pairs) in self.get_proc_inodes(pid).items():", "  inodes.setdefault(inode, []).extend(pairs)"]

/-- process_unix: the path is everything after `"<inode> "` -/
def pathRestExpr : String := "line.split(None, 6)[6].rstrip('\\n').partition(' ')[2]"

/-! ### the four `inet_ntop` calls of decode_address (fact `ntopCalls`: tests above the call ↦ second argument) -/

def kV4LE : String := "family == socket.AF_INET & LITTLE_ENDIAN"
def kV4BE : String := "family == socket.AF_INET & not LITTLE_ENDIAN"
def kV6LE : String := "not family == socket.AF_INET & LITTLE_ENDIAN"
def kV6BE : String := "not family == socket.AF_INET & not LITTLE_ENDIAN"

def ntopArg (k : String) : String := (Gen.C11.ntopCalls.lookup k).getD ""

/-- the decoded four bytes reversed / as they are -/
def argRev : String := "base64.b16decode(ip)[::-1]"
def argPlain : String := "base64.b16decode(ip)"
/-- every 32-bit word byte-swapped (read little-endian, written big-endian or the other way round) -/
def argSwaps : List String :=
  ["struct.pack('>4I', *struct.unpack('<4I', ip))", "struct.pack('<4I', *struct.unpack('>4I', ip))"]
/-- the sixteen bytes as they are (read and written with the same byte order) -/
def argIds : List String :=
  ["struct.pack('<4I', *struct.unpack('<4I', ip))", "struct.pack('>4I', *struct.unpack('>4I', ip))", "ip"]

/-- the calls sit under exactly the four tests, and every argument is an expression the model's flags can express -/
def ntopKnownNow : Bool :=
  Gen.C11.ntopCalls.map (·.1) == [kV4LE, kV4BE, kV6LE, kV6BE]
  && [kV4LE, kV4BE].all (fun k => ntopArg k == argRev || ntopArg k == argPlain)
  && [kV6LE, kV6BE].all (fun k => argSwaps.contains (ntopArg k) || argIds.contains (ntopArg k))


/-! ### the dict `inodes` shared by all the tables of a query (facts `allInodesInit`, `procInodesInit`, `inetLookup`,
    `unixLookup`) -/

def plainDictExprs : List String := ["{}", "dict()"]
def defaultDictExprs : List String := ["defaultdict(list)", "collections.defaultdict(list)"]

/-- the vocabulary of `_dict_uses` (harness/props/c11.py) -/
def lookupOf (uses : List String) : Lookup :=
  if uses == ["guarded-subscript"] then .guarded
  else if uses == ["subscript"] then .subscript
  else if uses == ["get"] then .get
  else if uses == ["setdefault"] then .setdefault
  else .unknown

/-- configuration of the model as extracted from the current source -/
def cfg : Cfg :=
  { littleEndian := Gen.C11.littleEndian
    afInet := Gen.C11.afInet
    afInet6 := Gen.C11.afInet6
    afUnix := Gen.C11.afUnix
    sockStream := Gen.C11.sockStream
    tcpStatuses := Gen.C11.tcpStatuses
    connNone := Gen.C11.connNone
    tmap := Gen.C11.tmap
    connKinds := Gen.C11.connTmap.map (·.1)
    inodesExtend := Gen.C11.mergeStmts == mergeExtendShape
    unixPathRest := Gen.C11.unixPathExpr == pathRestExpr
    linkSkipClasses := Gen.C11.linkSkipClasses
    linkSkipErrnos := Gen.C11.linkSkipErrnos
    allSkipClasses := Gen.C11.allSkipClasses
    v6RaiseUnsupported := Gen.C11.decodeV6Handler == decodeV6HandlerShape
    v6SkipLine := Gen.C11.inetV6Try == inetV6TryShape
    v4RevLE := ntopArg kV4LE == argRev
    v4RevBE := ntopArg kV4BE == argRev
    v6SwapLE := argSwaps.contains (ntopArg kV6LE)
    v6SwapBE := argSwaps.contains (ntopArg kV6BE)
    ntopKnown := ntopKnownNow
    allInodesDefault := defaultDictExprs.contains Gen.C11.allInodesInit
    procInodesDefault := defaultDictExprs.contains Gen.C11.procInodesInit
    inodesInitKnown := [Gen.C11.allInodesInit, Gen.C11.procInodesInit].all
      (fun e => plainDictExprs.contains e || defaultDictExprs.contains e)
    inetLookup := lookupOf Gen.C11.inetLookup
    unixLookup := lookupOf Gen.C11.unixLookup
    inetN := Gen.C11.inetIdx.getD 0 0
    iLaddr := Gen.C11.inetIdx.getD 1 0
    iRaddr := Gen.C11.inetIdx.getD 2 0
    iStatus := Gen.C11.inetIdx.getD 3 0
    iInode := Gen.C11.inetIdx.getD 4 0
    unixN := Gen.C11.unixIdx.getD 0 0
    uType := Gen.C11.unixIdx.getD 1 0
    uInode := Gen.C11.unixIdx.getD 2 0 }

/-! ### statement lists of the transcribed functions

  `Model/C11.lean` is a hand transcription of these statements (docstrings and comments are not code). The translator
  re-extracts each list on every run (`Gen.C11.shape…`); `cfg_shapes_good` (Props) requires them to be what is written
  here, so an edit of `decode_address`, of the inode parsing in `get_proc_inodes`, of `inodes[inode][0]`, of a
  `filter_pid` test, of the `if pid:` in `retrieve`, of `_check_conn_kind` or of one of its call sites, of the `readlink`
  wrapper … breaks a theorem even when the finer-grained facts above do not see it. -/

def expectedShapeDecodeAddress : List String :=
  ["@staticmethod",
   "def decode_address(addr, family):",
   "  ip, port = addr.split(':')",
   "  port = int(port, 16)",
   "  if not port:",
   "    return ()",
   "  ip = ip.encode('ascii')",
   "  if family == socket.AF_INET:",
   "    if LITTLE_ENDIAN:",
   "      ip = socket.inet_ntop(family, base64.b16decode(ip)[::-1])",
   "    else:",
   "      ip = socket.inet_ntop(family, base64.b16decode(ip))",
   "  else:",
   "    ip = base64.b16decode(ip)",
   "    try:",
   "      if LITTLE_ENDIAN:",
   "        ip = socket.inet_ntop(socket.AF_INET6, struct.pack('>4I', *struct.unpack('<4I', ip)))",
   "      else:",
   "        ip = socket.inet_ntop(socket.AF_INET6, struct.pack('<4I', *struct.unpack('<4I', ip)))",
   "    except ValueError:",
   "      if not supports_ipv6():",
   "        raise _Ipv6UnsupportedError from None",
   "      raise",
   "  return _common.addr(ip, port)"]

def expectedShapeGetProcInodes : List String :=
  ["def get_proc_inodes(self, pid):",
   "  inodes = defaultdict(list)",
   "  for fd in os.listdir(f'{self._procfs_path}/{pid}/fd'):",
   "    try:",
   "      inode = readlink(f'{self._procfs_path}/{pid}/fd/{fd}')",
   "    except (FileNotFoundError, ProcessLookupError):",
   "      continue",
   "    except OSError as err:",
   "      if err.errno == errno.EINVAL:",
   "        continue",
   "      if err.errno == errno.ENAMETOOLONG:",
   "        debug(err)",
   "        continue",
   "      raise",
   "    else:",
   "      if inode.startswith('socket:['):",
   "        inode = inode[8:][:-1]",
   "        inodes[inode].append((pid, int(fd)))",
   "  return inodes"]

def expectedShapeGetAllInodes : List String :=
  ["def get_all_inodes(self):",
   "  inodes = {}",
   "  for pid in pids():",
   "    try:",
   "      for (inode, pairs) in self.get_proc_inodes(pid).items():",
   "        inodes.setdefault(inode, []).extend(pairs)",
   "    except (FileNotFoundError, ProcessLookupError, PermissionError):",
   "      continue",
   "  return inodes"]

def expectedShapeProcessInet : List String :=
  ["@staticmethod",
   "def process_inet(file, family, type_, inodes, filter_pid=None):",
   "  if file.endswith('6') and (not os.path.exists(file)):",
   "    return",
   "  with open_text(file) as f:",
   "    f.readline()",
   "    for (lineno, line) in enumerate(f, 1):",
   "      try:",
   "        _, laddr, raddr, status, _, _, _, _, _, inode = line.split()[:10]",
   "      except ValueError:",
   "        msg = f'error while parsing {file}; malformed line {lineno} {line!r}'",
   "        raise RuntimeError(msg) from None",
   "      if inode in inodes:",
   "        pid, fd = inodes[inode][0]",
   "      else:",
   "        pid, fd = (None, -1)",
   "      if filter_pid is not None and filter_pid != pid:",
   "        continue",
   "      else:",
   "        if type_ == socket.SOCK_STREAM:",
   "          status = TCP_STATUSES[status]",
   "        else:",
   "          status = _common.CONN_NONE",
   "        try:",
   "          laddr = NetConnections.decode_address(laddr, family)",
   "          raddr = NetConnections.decode_address(raddr, family)",
   "        except _Ipv6UnsupportedError:",
   "          continue",
   "        yield (fd, family, type_, laddr, raddr, status, pid)"]

def expectedShapeProcessUnix : List String :=
  ["@staticmethod",
   "def process_unix(file, family, inodes, filter_pid=None):",
   "  with open_text(file) as f:",
   "    f.readline()",
   "    for line in f:",
   "      tokens = line.split()",
   "      try:",
   "        _, _, _, _, type_, _, inode = tokens[0:7]",
   "      except ValueError:",
   "        if ' ' not in line:",
   "          continue",
   "        msg = f'error while parsing {file}; malformed line {line!r}'",
   "        raise RuntimeError(msg)",
   "      if inode in inodes:",
   "        pairs = inodes[inode]",
   "      else:",
   "        pairs = [(None, -1)]",
   "      for (pid, fd) in pairs:",
   "        if filter_pid is not None and filter_pid != pid:",
   "          continue",
   "        else:",
   "          path = line.split(None, 6)[6].rstrip('\\n').partition(' ')[2]",
   "          type_ = _common.socktype_to_enum(int(type_))",
   "          raddr = ''",
   "          status = _common.CONN_NONE",
   "          yield (fd, family, type_, path, raddr, status, pid)"]

def expectedShapeRetrieve : List String :=
  ["def retrieve(self, kind, pid=None):",
   "  self._procfs_path = get_procfs_path()",
   "  if pid is not None:",
   "    inodes = self.get_proc_inodes(pid)",
   "    if not inodes:",
   "      return []",
   "  else:",
   "    inodes = self.get_all_inodes()",
   "  ret = set()",
   "  for (proto_name, family, type_) in self.tmap[kind]:",
   "    path = f'{self._procfs_path}/net/{proto_name}'",
   "    if family in {socket.AF_INET, socket.AF_INET6}:",
   "      ls = self.process_inet(path, family, type_, inodes, filter_pid=pid)",
   "    else:",
   "      ls = self.process_unix(path, family, inodes, filter_pid=pid)",
   "    for (fd, family, type_, laddr, raddr, status, bound_pid) in ls:",
   "      if pid:",
   "        conn = _common.pconn(fd, family, type_, laddr, raddr, status)",
   "      else:",
   "        conn = _common.sconn(fd, family, type_, laddr, raddr, status, bound_pid)",
   "      ret.add(conn)",
   "  return list(ret)"]

def expectedShapeLinuxSys : List String :=
  ["def net_connections(kind='inet'):",
   "  return _net_connections.retrieve(kind)"]

def expectedShapeLinuxProc : List String :=
  ["@wrap_exceptions",
   "def net_connections(self, kind='inet'):",
   "  ret = _net_connections.retrieve(kind, self.pid)",
   "  self._raise_if_not_alive()",
   "  return ret"]

def expectedShapeReadlink : List String :=
  ["def readlink(path):",
   "  assert isinstance(path, str), path",
   "  path = os.readlink(path)",
   "  path = path.split('\\x00')[0]",
   "  if path.endswith(' (deleted)') and (not path_exists_strict(path)):",
   "    path = path[:-10]",
   "  return path"]

def expectedShapeCheckKind : List String :=
  ["def _check_conn_kind(kind):",
   "  kinds = tuple(_common.conn_tmap)",
   "  if kind not in kinds:",
   "    msg = f'invalid kind argument {kind!r}; valid ones are: {kinds}'",
   "    raise ValueError(msg)"]

def expectedShapeFrontSys : List String :=
  ["def net_connections(kind='inet'):",
   "  _check_conn_kind(kind)",
   "  return _psplatform.net_connections(kind)"]

def expectedShapeFrontProc : List String :=
  ["def net_connections(self, kind='inet'):",
   "  _check_conn_kind(kind)",
   "  return self._proc.net_connections(kind)"]

def expectedShapeFrontAlias : List String :=
  ["@_common.deprecated_method(replacement='net_connections')",
   "def connections(self, kind='inet'):",
   "  return self.net_connections(kind=kind)"]

/-- (function, statement list now, statement list the model was transcribed from) -/
def shapesNow : List (String × List String) :=
  [("shapeDecodeAddress", Gen.C11.shapeDecodeAddress),
   ("shapeGetProcInodes", Gen.C11.shapeGetProcInodes),
   ("shapeGetAllInodes", Gen.C11.shapeGetAllInodes),
   ("shapeProcessInet", Gen.C11.shapeProcessInet),
   ("shapeProcessUnix", Gen.C11.shapeProcessUnix),
   ("shapeRetrieve", Gen.C11.shapeRetrieve),
   ("shapeLinuxSys", Gen.C11.shapeLinuxSys),
   ("shapeLinuxProc", Gen.C11.shapeLinuxProc),
   ("shapeReadlink", Gen.C11.shapeReadlink),
   ("shapeCheckKind", Gen.C11.shapeCheckKind),
   ("shapeFrontSys", Gen.C11.shapeFrontSys),
   ("shapeFrontProc", Gen.C11.shapeFrontProc),
   ("shapeFrontAlias", Gen.C11.shapeFrontAlias)]

def shapesExpected : List (String × List String) :=
  [("shapeDecodeAddress", expectedShapeDecodeAddress),
   ("shapeGetProcInodes", expectedShapeGetProcInodes),
   ("shapeGetAllInodes", expectedShapeGetAllInodes),
   ("shapeProcessInet", expectedShapeProcessInet),
   ("shapeProcessUnix", expectedShapeProcessUnix),
   ("shapeRetrieve", expectedShapeRetrieve),
   ("shapeLinuxSys", expectedShapeLinuxSys),
   ("shapeLinuxProc", expectedShapeLinuxProc),
   ("shapeReadlink", expectedShapeReadlink),
   ("shapeCheckKind", expectedShapeCheckKind),
   ("shapeFrontSys", expectedShapeFrontSys),
   ("shapeFrontProc", expectedShapeFrontProc),
   ("shapeFrontAlias", expectedShapeFrontAlias)]

end Psutil.C11
