/-
  Model/C01Kill.lean — the paths along which a caller-chosen PID reaches kill(2) (seeded round C01-8).

  The identity machine of Model/C01.lean covers the kill(2) that `Process._send_signal` makes for an OBJECT.  The package
  has other `os.kill` call sites (the existence probe `os.kill(pid, 0)` of `_psposix.pid_exists`, reached from
  `psutil.pid_exists(pid)` and from `Process.wait()` through `wait_pid`), and there the PID is whatever integer the
  caller passed: negative numbers and 0 included.  kill(2) addresses a process GROUP for such an argument whatever the
  signal, so the clause "no psutil call ever signals PID 0 or a negative PID" is about the pid argument of EVERY
  kill(2), signal 0 included.

  The model is the call graph the translator extracts (`Generated/C01.lean: killSites / killRoots`): one `Site` per
  call through which a function hands its PID to `os.kill` or to a package function that (transitively) does, with
  the sign classes of that PID for which control reaches the call (the guards that dominate it, evaluated over
  {negative, zero, positive}).  `killsOf` = the pid arguments of the kill(2) calls a call of a function makes.
  Import-free.
-/
namespace Psutil.C01.Kill

/-- what kill(2) makes of its pid argument: a process group (`neg`: group |pid|, or everybody for -1), the caller's
    own group (`zero`), one process (`pos`) -/
inductive Cls where
  | neg | zero | pos
  deriving DecidableEq, Repr

def clsOf (p : Int) : Cls := if p < 0 then .neg else if p = 0 then .zero else .pos

def Cls.all : List Cls := [.neg, .zero, .pos]

/-- one call site through which a PID flows towards kill(2) -/
structure Site where
  /-- function containing the call (`file:Class.function`) -/
  fn : String
  /-- `os.kill`, or the package function the PID is handed to -/
  callee : String
  /-- `pid` = the function's own PID (its pid parameter / `self.pid`) is what is handed on; anything else = `other:<expr>` -/
  arg : String
  /-- sign classes of the function's PID for which control reaches this call -/
  reach : List Cls
  deriving Repr

structure KCfg where
  sites : List Site
  /-- public entry points, each with the classes the caller can make its PID take -/
  roots : List (String × List Cls)

def isKill (s : Site) : Bool := s.callee == "os.kill"

def sitesOf (cfg : KCfg) (fn : String) (c : Cls) : List Site :=
  cfg.sites.filter fun s => s.fn == fn && s.reach.contains c

/-- pid arguments of the kill(2) calls that a call of `fn` with PID `p` issues (every reached site runs once: the
    probes and signal paths of the package are loop-free in the PID) -/
def killsOf (cfg : KCfg) : Nat → String → Int → List Int
  | 0, _, _ => []
  | n + 1, fn, p =>
    (sitesOf cfg fn (clsOf p)).flatMap fun s => if isKill s then [p] else killsOf cfg n s.callee p

/-- the same walk over sign classes: does a PID of class `c` given to `fn` reach kill(2)? -/
def reachB (cfg : KCfg) : Nat → String → Cls → Bool
  | 0, _, _ => false
  | n + 1, fn, c => (sitesOf cfg fn c).any fun s => isKill s || reachB cfg n s.callee c

/-- is there a chain of `n` package calls from `fn` that has not ended yet? (`false` at the fuel = the walks above
    saw every path) -/
def alive (cfg : KCfg) : Nat → String → Cls → Bool
  | 0, _, _ => true
  | n + 1, fn, c => (sitesOf cfg fn c).any fun s => !isKill s && alive cfg n s.callee c

def fuel (cfg : KCfg) : Nat := cfg.sites.length + 1

/-- the obligation on the extracted call graph, decidable: every site hands on the function's own PID; the graph has
    an `os.kill` site and an entry point; no chain is longer than the fuel; and from every public entry point, for every
    class its PID can take, kill(2) is reached for positive PIDs only -/
def goodB (cfg : KCfg) : Bool :=
  cfg.sites.all (fun s => s.arg == "pid")
    && cfg.sites.any isKill
    && !cfg.roots.isEmpty
    && cfg.roots.all (fun r => r.2.all fun c => !alive cfg (fuel cfg) r.1 c)
    && cfg.roots.all (fun r => r.2.all fun c => !reachB cfg (fuel cfg) r.1 c || c == .pos)

end Psutil.C01.Kill
