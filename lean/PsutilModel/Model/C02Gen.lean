/- Model/C02Gen.lean — the shared identity-machine model (Model/C01.lean) instantiated with the facts
   the translator extracted for the C02 check (Generated/C02.lean). -/
import PsutilModel.Model.C01
import PsutilModel.Generated.C02
namespace Psutil.C02
open Psutil.C01

def signalMethods : List String := ["send_signal", "suspend", "resume", "terminate", "kill"]

/-- configuration of the model as extracted from the current source -/
def cfg : Cfg :=
  { clk := Gen.C02.clockTicks
    goneRaises := Gen.C02.goneRaises
    bootWriteOnce := Gen.C02.bootWriteOnce && Gen.C02.bootStoresElsewhere.isEmpty
    createUsesCache := Gen.C02.createBoot == "or" || Gen.C02.createBoot == "isNotNone"
    createNoneTest := Gen.C02.createBoot == "isNotNone"
    guardSignal := signalMethods.all Gen.C02.guardedMethods.contains
    guardNice := Gen.C02.guardedMethods.contains "nice"
    guardIonice := Gen.C02.guardedMethods.contains "ionice"
    guardRlimit := Gen.C02.guardedMethods.contains "rlimit"
    guardAffinity := Gen.C02.guardedMethods.contains "cpu_affinity"
    guardPpid := Gen.C02.guardedMethods.contains "ppid"
    pid0Refused := Gen.C02.pid0Refused
    negRejected := Gen.C02.negRejectedPy || Gen.C02.negRejectedC
    rlimitPid0Refused := Gen.C02.rlimitPid0Refused
    sigStop := (Gen.C02.signalMap.lookup "suspend").getD 0
    sigCont := (Gen.C02.signalMap.lookup "resume").getD 0
    sigTerm := (Gen.C02.signalMap.lookup "terminate").getD 0
    sigKill := (Gen.C02.signalMap.lookup "kill").getD 0
    ioNoValue := Gen.C02.ioNoValue
    affinityAll := Gen.C02.affinityResetMask }

end Psutil.C02
