/- Model/C02Gen.lean — the shared identity-machine model (Model/C01.lean) instantiated with the facts
   the translator extracted for the C02 check (Generated/C02.lean). -/
import PsutilModel.Model.C01
import PsutilModel.Model.C02Fault
import PsutilModel.Model.C02Stat
import PsutilModel.Generated.C02
namespace Psutil.C02
open Psutil.C01

def signalMethods : List String := ["send_signal", "suspend", "resume", "terminate", "kill"]

/-- configuration of the model as extracted from the current source -/
def cfg : Cfg :=
  { clk := Gen.C02.clockTicks
    goneRaises := Gen.C02.goneRaises
    bootWriteOnce := Gen.C02.bootWriteOnce && Gen.C02.bootStoresElsewhere.isEmpty
    createUsesCache := Gen.C02.createBoot == "or" || Gen.C02.createBoot == "isNotNone"
    createNoneTest := Gen.C02.createBoot == "isNotNone"
    guardSignal := signalMethods.all Gen.C02.guardedMethods.contains
    guardNice := Gen.C02.guardedMethods.contains "nice"
    guardIonice := Gen.C02.guardedMethods.contains "ionice"
    guardRlimit := Gen.C02.guardedMethods.contains "rlimit"
    guardAffinity := Gen.C02.guardedMethods.contains "cpu_affinity"
    guardPpid := Gen.C02.guardedMethods.contains "ppid"
    pid0Refused := Gen.C02.pid0Refused
    negRejected := Gen.C02.negRejectedPy || Gen.C02.negRejectedC
    rlimitPid0Refused := Gen.C02.rlimitPid0Refused
    sigStop := (Gen.C02.signalMap.lookup "suspend").getD 0
    sigCont := (Gen.C02.signalMap.lookup "resume").getD 0
    sigTerm := (Gen.C02.signalMap.lookup "terminate").getD 0
    sigKill := (Gen.C02.signalMap.lookup "kill").getD 0
    ioNoValue := Gen.C02.ioNoValue
    affinityAll := Gen.C02.affinityResetMask }

/-! ### the path of a transient OSError from the read of `/proc/pid/stat` to the caller (seeded round 5) -/

/-- `_parse_stat_file` reads the file with a bare `bcat(path)`: no `fallback=`, no `try`, no detour -/
def statReadBare : Bool :=
  Gen.C02.statReadShape
    == ["def(self) @wrap_exceptions @memoize_when_activated", "data = bcat(f'{self._procfs_path}/{self.pid}/stat')"]

/-- `cat()` without `fallback` lets the error of `open()` / `read()` out; `bcat` hands `fallback` through -/
def catBare : Bool :=
  Gen.C02.catShape
    == ["def(fname, fallback=_DEFAULT, _open=open_text)",
        "if fallback is _DEFAULT: with _open(fname) as f: return f.read() else: try: with _open(fname) as f: return f.read() except OSError: return fallback",
        "def(fname, fallback=_DEFAULT)", "return cat(fname, fallback=fallback, _open=open_binary)"]

/-- `wrap_exceptions` translates PermissionError, ProcessLookupError and FileNotFoundError — nothing wider -/
def wrapNarrow : Bool :=
  Gen.C02.wrapHandlers
    == ["PermissionError: raise AccessDenied(pid, name) from err",
        "ProcessLookupError: self._raise_if_zombie(); raise NoSuchProcess(pid, name) from err",
        "FileNotFoundError: self._raise_if_zombie(); if not os.path.exists(f'{self._procfs_path}/{pid}/stat'): raise NoSuchProcess(pid, name) from err; raise"]

/-- `is_running()` sets `_gone` for NoSuchProcess only (ZombieProcess: True) -/
def isRunningNarrow : Bool :=
  Gen.C02.isRunningHandlers == ["ZombieProcess: return True", "NoSuchProcess: self._gone = True; return False"]

/-- `_init` goes on for AccessDenied / ZombieProcess, re-raises (or, for Popen, flags) NoSuchProcess — nothing wider -/
def initNarrow : Bool :=
  Gen.C02.initHandlers
    == ["AccessDenied: pass", "ZombieProcess: pass",
        "NoSuchProcess: if not _ignore_nsp: msg = 'process PID not found' raise NoSuchProcess(pid, msg=msg) from None; self._gone = True"]

/-- how a transient OSError of the stat read reaches the caller, as extracted: the error itself when every stage of
    the path is the narrow one transcribed in Model/C02Fault.lean; otherwise (some stage swallows more than it did)
    the model the driver runs treats the read as answering "no such process" — the worst case for C02 -/
def statFault : StatFault :=
  if statReadBare && catBare && wrapNarrow && isRunningNarrow && initNarrow then .propagates else .asGone

/-! ### the reader of `/proc/<pid>/stat` (seeded round 5, C02-6): the shape facts of harness/props/c01_stat.py
     (`stat_facts`: the data flow of `_parse_stat_file` / `create_time`, helpers inlined), re-extracted for this check -/

/-- the reader exactly as the translator extracted it (obligation `scfg_good`, Props/C02.lean) -/
def scfgRaw : StatCfg :=
  { search := if Gen.C02.statSearch == "find" then .find else .rfind
    needle := Gen.C02.statNeedle
    skip := Gen.C02.statSkip
    ctimeIdx := Gen.C02.statCtimeIdx
    statusIdx := Gen.C02.statStatusIdx }

/-- every shape fact was recognised (`rfind`/`find` of a byte string, whitespace split, the stat record's
    'create_time' divided by CLOCK_TICKS) -/
def scfgRecognised : Bool :=
  (Gen.C02.statSearch == "rfind" || Gen.C02.statSearch == "find") && Gen.C02.statSplit == "ws"
    && Gen.C02.createReads == "float(create_time)/CLOCK_TICKS"

/-- the reader the DRIVER runs: the extracted one; when the translator did not recognise the shape, the baseline
    reader of proc(5) (last `)`, two bytes further, field 19 = starttime, field 0 = state) so that the specification
    side still follows the objects and a concrete failing input can be named — the obligation `scfg_good` is on the
    raw facts and fails in that case -/
def scfg : StatCfg := if scfgRecognised then scfgRaw else ⟨.rfind, [41], 2, 19, 0⟩

end Psutil.C02
