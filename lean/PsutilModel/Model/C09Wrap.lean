/-
  Model/C09Wrap.lean — the DEFAULT call form of the two front ends, `nowrap=True`, over a HISTORY of calls in
  one process (seeded round 5):

    with _nowrap_lock:
        rawdict  = _psplatform.<fn>(…)                 -- Model/C09 (`netPlatform`, `diskPlatform`)
        wrapdict = _wrap_numbers(rawdict, <name>)      -- `Slot.run` on the slot `<name>`
    if not rawdict: return {} if per else None
    rawdict = wrapdict
    … per device `nt(*fields)` / system-wide `nt(*(sum(x) for x in zip(*rawdict.values())))`   -- `frontEnd`

  and `_common._WrapNumbers.run/_add_dict/_remove_dead_reminders/cache_clear` behind `_wrap_numbers`:
  per `name` the dict of the previous call (`cache[name]`) and the amounts added to a counter that was seen to
  go backwards (`reminders[name][(key, i)]`, a `defaultdict(int)`: absent = 0).

  `reminder_keys[name][key]` only records which entries of `reminders[name]` to delete when `key` is no longer
  listed; every entry that is not recorded there is 0 (an entry is created non-zero only by the `+=` next to the
  `.add(remkey)`), so "delete the recorded entries of a vanished key" is "every entry of that key becomes 0" —
  the pair is modelled as one total function (the same abstraction as Model/C10, proved against the three
  concrete dicts there: C10_concrete_refines).

  What the model is pinned to: translator facts `wrapStrictLess` (the comparison), `wrapNames` /
  `wrapClearNames` (which `name` each call form uses / each `cache_clear` clears) are PARAMETERS; every other
  statement of the four functions and of the `nowrap=True` path of the front ends is pinned verbatim by the
  facts `wrapFrame` / `frontWrapFrame` (obligation `C09_wrap_code_frame`).
  Import-free (Model/C09 only).
-/
import PsutilModel.Model.C09
namespace Psutil.C09

/-- per-`name` state of `_WrapNumbers` -/
structure Slot where
  /-- `cache[name]`; `none` = `name not in self.cache` -/
  cache : Option Dict
  /-- `reminders[name][(key, i)]` (0 = absent) -/
  rem : Bytes → Nat → Nat

def Slot.init : Slot := ⟨none, fun _ _ => 0⟩

def tupAt (t : List Nat) (i : Nat) : Nat := t.getD i 0

/-- `if input_value < old_value` (strict) / `<=` -/
def wrapped (strict : Bool) (new old : Nat) : Bool :=
  if strict then decide (new < old) else decide (new ≤ old)

/-- `_remove_dead_reminders` followed by the `+=` of the main loop -/
def remAfter (strict : Bool) (old input : Dict) (rem : Bytes → Nat → Nat) : Bytes → Nat → Nat :=
  fun k i =>
    match input.lookup k, old.lookup k with
    | some v, some o => if wrapped strict (tupAt v i) (tupAt o i) then rem k i + tupAt o i else rem k i
    | none, some _ => 0            -- `gone_key`: its reminders are deleted
    | _, none => rem k i

/-- `new_dict`: a key the previous dict does not have keeps its raw tuple (`except KeyError`), every other
    value is `input_value + reminders[(key, i)]` -/
def wrapOut (old input : Dict) (rem' : Bytes → Nat → Nat) : Dict :=
  input.map fun kv =>
    match old.lookup kv.1 with
    | none => kv
    | some _ => (kv.1, kv.2.mapIdx fun i x => x + rem' kv.1 i)

/-- `old_tuple[i]` raises IndexError when the previous tuple of a key is shorter than the new one
    (unreachable from the front ends: every tuple a platform function stores has the width of its namedtuple) -/
def widthMismatch (old input : Dict) : Bool :=
  input.any fun kv =>
    match old.lookup kv.1 with
    | none => false
    | some o => decide (o.length < kv.2.length)

/-- `_WrapNumbers.run(input_dict, name)` on the slot of `name`: the new slot and the returned dict -/
def Slot.run (strict : Bool) (s : Slot) (input : Dict) : Res (Slot × Dict) :=
  match s.cache with
  | none => .ok (⟨some input, fun _ _ => 0⟩, input)                 -- `_add_dict`; `return input_dict`
  | some old =>
    if widthMismatch old input then .err .indexError
    else
      let rem' := remAfter strict old input s.rem
      .ok (⟨some input, rem'⟩, wrapOut old input rem')               -- `self.cache[name] = input_dict`

/-- the three dicts of `_wn`, keyed by `name` -/
abbrev WState := String → Slot

def WState.init : WState := fun _ => Slot.init

def WState.set (w : WState) (n : String) (s : Slot) : WState := fun m => if m = n then s else w m

/-- `cache_clear(name)` for every name of the list (`pop(name, None)` on the three dicts) -/
def WState.clear (w : WState) (ns : List String) : WState := ns.foldl (fun w n => w.set n Slot.init) w

/-- a front end called with `nowrap=True`: `raw` is what the platform function returned / raised (an exception
    leaves the `with` block before `_wrap_numbers` is called). The EMPTY dict is fed as well. -/
def frontEndWrap (strict : Bool) (name : String) (ntFields : List String) (agg : AggCfg) (emptyPer emptyTot : Out)
    (per : Bool) (w : WState) (raw : Res Dict) : WState × Out :=
  match raw with
  | .err e => (w, .exc e)
  | .ok d =>
    match (w name).run strict d with
    | .err e => (w, .exc e)
    | .ok (s', wd) =>
      (w.set name s',
       -- `if not rawdict: return …` tests the RAW dict; `rawdict = wrapdict` afterwards
       frontEnd ntFields agg emptyPer emptyTot per (.ok (if d.isEmpty then [] else wd)))

/-- one step of a history of calls in one process -/
inductive MStep
  | net (pernic nowrap : Bool) (file : Bytes)
  | disk (perdisk nowrap : Bool) (sysBlock : List Bytes) (file : Bytes)
  | clearNet            -- `psutil.net_io_counters.cache_clear()`
  | clearDisk           -- `psutil.disk_io_counters.cache_clear()`

end Psutil.C09
