/- Model/C04Gen.lean — the C04 model instantiated with the facts the translator extracted. -/
import PsutilModel.Model.C04
import PsutilModel.Generated.C04
namespace Psutil.C04

/-- configuration of the model as extracted from the current source -/
def cfg : Cfg :=
  { drainFirst := Gen.C04.drainFirst
    rangeGuard := Gen.C04.rangeGuard
    validNames := Gen.C04.validNames
    noAccessAttrs := Gen.C04.noAccessAttrs
    reuseAttrs := Gen.C04.reuseAttrs
    goneRefused := Gen.C04.goneRefused
    popGuarded := Gen.C04.popGuarded }

end Psutil.C04
