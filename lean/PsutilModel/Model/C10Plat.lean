/-
  Model/C10Plat.lean — where the "raw kernel value" of a disk comes from on Linux: one line of
  `/proc/diskstats`, read by `_pslinux.disk_io_counters.read_procfs()` through an `if/elif` chain on
  the number of whitespace-separated fields. The chain itself (guards, index of the name, index of
  every counter) is a translator fact (`Gen.C10.diskstatsLayouts`, see Model/C10Gen `layouts`); this
  file only says how such a table is applied. (How the bytes of the file become fields is C09's model.)
  Import-free.
-/
import PsutilModel.Model.C10
namespace Psutil.C10

/-- one branch: guard = disjunction of `flen == n` (`(false, n)`) / `flen >= n` (`(true, n)`),
    index of the device name, and for each of the nine counters psutil reports — in the order
    read_count, write_count, read_bytes, write_bytes, read_time, write_time, read_merged_count,
    write_merged_count, busy_time — the index of the field it is read from (`none`: constant 0) -/
abbrev Layout := List (Bool × Nat) × Nat × List (Option Nat)

def guardHolds (g : List (Bool × Nat)) (flen : Nat) : Bool :=
  g.any fun (ge, n) => if ge then decide (n ≤ flen) else decide (flen = n)

/-- the first branch whose guard holds (`none`: `ValueError("not sure how to interpret line")`) -/
def layoutFor (tbl : List Layout) (flen : Nat) : Option Layout := tbl.find? fun l => guardHolds l.1 flen

/-- `rbytes *= DISK_SECTOR_SIZE`, `wbytes *= DISK_SECTOR_SIZE` (positions 2 and 3 of the tuple) -/
def sectorSize : Nat := 512

/-- (index of the name, the nine raw counters) of a line whose numeric fields are `vals`
    (`vals[i]` = integer value of field `i`; the entry at the name's index is not looked at) -/
def countersOf (tbl : List Layout) (vals : List Nat) : Option (Nat × List Nat) :=
  (layoutFor tbl vals.length).map fun l =>
    (l.2.1, l.2.2.mapIdx fun j c =>
      let v := match c with | some i => vals.getD i 0 | none => 0
      if j = 2 ∨ j = 3 then v * sectorSize else v)

end Psutil.C10
