/-
  Model/C08Int.lean — CPython's `int(b"...")` (base 10) on ARBITRARY bytes, as used by
  `int(fields[1])`, `int(line.split()[1])` and `int(line.split(b' ')[1])` in _pslinux.py:

      [blanks] [+|-] digit (["_"] digit)* [blanks]          (Objects/longobject.c, PyLong_FromString)

  blanks = Py_ISSPACE = { 9..13, 32 }; anything else (empty string, NUL, non-ASCII digits, `0x..`,
  `1e3`, a doubled / leading / trailing `_`, a blank after the sign) is a ValueError.
  Not modelled: the interpreter-wide limit of 4300 digits (sys.set_int_max_str_digits) — a setting
  of the interpreter, not of psutil's source; no kernel prints more than 20 digits.
  Import-free; structural recursion only (so concrete texts reduce under `decide`).
-/
import PsutilModel.Base.Bytes
import PsutilModel.Base.Dec
namespace Psutil.C08

/-- what the previous byte of the literal was -/
inductive LitSt
  | start | digit | under
  deriving DecidableEq, Repr

/-- `digit (["_"] digit)*` → its value; `none` = malformed -/
def litGo : Bytes → LitSt → Nat → Option Nat
  | [], .digit, acc => some acc
  | [], _, _ => none
  | c :: cs, st, acc =>
    if isDigit c then litGo cs .digit (acc * 10 + (c - 48))
    else if c == 95 && st == .digit then litGo cs .under acc
    else none

/-- outcome of `int(s)`: a ValueError, a natural number, or a negative number (`neg n` = `-n`, n > 0) -/
inductive IntLit
  | invalid
  | nat (n : Nat)
  | neg (n : Nat)
  deriving DecidableEq, Repr

/-- the optional sign: (is it `-`?, the rest) -/
def signSplit : Bytes → Bool × Bytes
  | 45 :: r => (true, r)
  | 43 :: r => (false, r)
  | t => (false, t)

/-- `int(s)` for a bytes object `s` -/
def pyIntLit (s : Bytes) : IntLit :=
  let sb := signSplit (stripWs s)
  match litGo sb.2 .start 0 with
  | none => .invalid
  | some n => if sb.1 && n != 0 then .neg n else .nat n

end Psutil.C08
