/-
  Model/C09.lean — transcription of
    * `_pslinux.net_io_counters()`            (/proc/net/dev)
    * `_pslinux.disk_io_counters(perdisk)`    (/proc/diskstats branch of it, `is_storage_device`)
    * `psutil.net_io_counters(pernic, nowrap=False)` / `psutil.disk_io_counters(perdisk, nowrap=False)`
    * `_psposix.disk_usage(path)`             (over the `os.statvfs` result)
  Import-free (Base only). The column maps, the diskstats branch table, the sector size, the
  namedtuple field names and the `disk_usage` assignments are *parameters* (`NetCfg`,
  `DiskCfg`, `UsageCfg`); `Model/C09Gen.lean` instantiates them with what the translator
  extracted from the current source.

  Not modelled: the `/sys/block/*/stat` fallback `read_sysfs` (used only when
  `/proc/diskstats` does not exist) and the `nowrap=True` post-processing (property C10).
-/
import PsutilModel.Base.Bytes
import PsutilModel.Base.Dec
import PsutilModel.Base.C09Text
namespace Psutil.C09

/-- the exceptions the modelled code can raise -/
inductive Exc
  | valueError        -- `int('x')`, wrong number of values to unpack, unknown diskstats layout
  | assertionError    -- `assert colon > 0`
  | indexError        -- `fields[i]` out of range (unreachable with the current branch table)
  | nameError         -- a name used before assignment (unreachable with the current tables)
  | typeError         -- namedtuple called with the wrong number of values
  deriving DecidableEq, Repr

inductive Res (α : Type)
  | ok (a : α)
  | err (e : Exc)
  deriving Repr

def Res.bind {α β} (r : Res α) (f : α → Res β) : Res β :=
  match r with
  | .ok a => f a
  | .err e => .err e

/-- a `dict` with byte-string keys in insertion order -/
abbrev Dict := List (Bytes × List Nat)

/-- `d[k] = v`: overwrite in place when present, else append -/
def Dict.set (d : Dict) (k : Bytes) (v : List Nat) : Dict :=
  if d.any (fun kv => kv.1 == k) then d.map (fun kv => if kv.1 == k then (k, v) else kv)
  else d ++ [(k, v)]

/-- local variables after a tuple-unpack: the *last* assignment of a name wins -/
def lookupLast (env : List (String × Nat)) (k : String) : Option Nat := env.reverse.lookup k

/-- `map(int, toks)` on plain decimal tokens (`none` = ValueError) -/
def ints : List Bytes → Option (List Nat)
  | [] => some []
  | t :: r =>
    match parseDec? t, ints r with
    | some n, some ns => some (n :: ns)
    | _, _ => none

/-- the values of the named local variables (`none` = one of them is unbound) -/
def lookups (env : List (String × Nat)) : List String → Option (List Nat)
  | [] => some []
  | k :: r =>
    match lookupLast env k, lookups env r with
    | some v, some vs => some (v :: vs)
    | _, _ => none

/-! ### `_pslinux.net_io_counters` -/

structure NetCfg where
  skip : Nat                -- `lines[2:]`
  rfind : Bool              -- `line.rfind(':')` (true) or `line.find(':')`
  unpack : List String      -- the 16 names on the left of `= map(int, fields)`
  output : List String      -- the names in the tuple stored in `retdict[name]`
  stripSet : Option (List Nat)  -- `line[:colon].strip()` (none) or `.strip(chars)` (some chars)
  univNl : Bool             -- `open_text` reads with universal newlines (true) or `newline="\n"` (false)

/-- which characters `line[:colon].strip(…)` removes from both ends of the name -/
def NetCfg.nameWs (cfg : NetCfg) : Nat → Bool :=
  match cfg.stripSet with
  | none => isWsT
  | some cs => fun c => cs.contains c

def netLine (cfg : NetCfg) (line : Bytes) : Res (Bytes × List Nat) :=
  match (if cfg.rfind then rfindIdx? 58 line else findIdx? 58 line) with
  | none => .err .assertionError            -- rfind = -1
  | some 0 => .err .assertionError          -- colon = 0
  | some (c + 1) =>
    let colon := c + 1
    let name := stripP cfg.nameWs (line.take colon)
    -- `line[colon+1:].strip().split()`; `strip()` before `split()` is a no-op
    let fields := splitP isWsT (line.drop (colon + 1))
    match ints fields with
    | none => .err .valueError
    | some vs =>
      if vs.length ≠ cfg.unpack.length then .err .valueError
      else match lookups (cfg.unpack.zip vs) cfg.output with
        | none => .err .nameError
        | some t => .ok (name, t)

def netFold (cfg : NetCfg) : Dict → List Bytes → Res Dict
  | d, [] => .ok d
  | d, l :: ls =>
    match netLine cfg l with
    | .err e => .err e
    | .ok (name, t) => netFold cfg (d.set name t) ls

/-- lines of a text-mode file: universal-newline translation (when `open_text` asks for it),
    then split at `\n` -/
def textLines (univ : Bool) (file : Bytes) : List Bytes :=
  linesOf (if univ then univNl file else file)

def netPlatform (cfg : NetCfg) (file : Bytes) : Res Dict :=
  netFold cfg [] ((textLines cfg.univNl file).drop cfg.skip)

/-! ### `_pslinux.disk_io_counters` (read_procfs branch) -/

structure Branch where
  guard : List (Bool × Nat)       -- disjunction; `(false, n)` = `flen == n`, `(true, n)` = `flen >= n`
  nameIdx : Nat                   -- `name = fields[i]`
  singles : List (String × Nat)   -- `x = int(fields[i])`
  lo : Nat
  hi : Option Nat                 -- the slice `fields[lo:hi]` fed to `map(int, …)`
  unpack : List String            -- names on the left of that unpack
  zeros : List String             -- names assigned `0`

structure DiskCfg where
  branches : List Branch          -- in `if/elif` order; no match = `raise ValueError`
  yieldNames : List String        -- the yielded tuple after `name`
  entryNames : List String        -- `(name, …) = entry` after `name`
  retNames : List String          -- the tuple stored in `retdict[name]`
  scaled : List String            -- names multiplied by `DISK_SECTOR_SIZE`
  sector : Nat
  skipPartitions : Bool           -- the guard is `not perdisk and not is_storage_device(name)`
  slashFrom : Nat                 -- `name.replace('/', '!')`
  slashTo : Nat
  univNl : Bool                   -- as in `NetCfg`

def guardHolds (g : List (Bool × Nat)) (flen : Nat) : Bool :=
  g.any fun c => if c.1 then decide (c.2 ≤ flen) else decide (flen = c.2)

def intAt (fields : List Bytes) (i : Nat) : Res Nat :=
  match fields[i]? with
  | none => .err .indexError
  | some t => match parseDec? t with
    | none => .err .valueError
    | some n => .ok n

def singlesEnv (fields : List Bytes) : List (String × Nat) → Res (List (String × Nat))
  | [] => .ok []
  | (n, i) :: r =>
    (intAt fields i).bind fun v => (singlesEnv fields r).bind fun e => .ok ((n, v) :: e)

def sliceOf (fields : List Bytes) (lo : Nat) : Option Nat → List Bytes
  | none => fields.drop lo
  | some hi => (fields.drop lo).take (hi - lo)

def branchFor (cfg : DiskCfg) (flen : Nat) : Option Branch :=
  cfg.branches.find? fun b => guardHolds b.guard flen

/-- from the unpacked integers to the stored tuple: the locals of the branch, the yielded
    tuple, `(name, …) = entry`, `rbytes *= DISK_SECTOR_SIZE; wbytes *= …`, the tuple stored -/
def diskValues (cfg : DiskCfg) (b : Branch) (e1 : List (String × Nat)) (vs : List Nat) : Res (List Nat) :=
  if vs.length ≠ b.unpack.length then .err .valueError
  else
    let env := e1 ++ b.unpack.zip vs ++ b.zeros.map (fun n => (n, 0))
    match lookups env cfg.yieldNames with
    | none => .err .nameError
    | some entry =>
      if entry.length ≠ cfg.entryNames.length then .err .valueError
      else
        let env2 := (cfg.entryNames.zip entry).map fun kv =>
          if cfg.scaled.contains kv.1 then (kv.1, kv.2 * cfg.sector) else kv
        match lookups env2 cfg.retNames with
        | none => .err .nameError
        | some t => .ok t

def diskFields (cfg : DiskCfg) (fields : List Bytes) : Res (Bytes × List Nat) :=
  match branchFor cfg fields.length with
  | none => .err .valueError
  | some b =>
    match fields[b.nameIdx]? with
    | none => .err .indexError
    | some name =>
      (singlesEnv fields b.singles).bind fun e1 =>
      match ints (sliceOf fields b.lo b.hi) with
      | none => .err .valueError
      | some vs => (diskValues cfg b e1 vs).bind fun t => .ok (name, t)

/-- one iteration of `read_procfs` followed by the body of the `for entry in gen` loop up to
    (not including) the partition filter: the name and the tuple that would be stored -/
def diskLine (cfg : DiskCfg) (line : Bytes) : Res (Bytes × List Nat) :=
  diskFields cfg (splitP isWsT line)

/-- `is_storage_device(name)`: `os.access("/sys/block/" + name.replace('/', '!'), F_OK)`;
    `sysBlock` = the entries of `/sys/block` -/
def isStorageDevice (cfg : DiskCfg) (sysBlock : List Bytes) (name : Bytes) : Bool :=
  let m := name.map fun c => if c = cfg.slashFrom then cfg.slashTo else c
  m == [46] || m == [46, 46] || sysBlock.contains m

def diskFold (cfg : DiskCfg) (storage : Bytes → Bool) (perdisk : Bool) : Dict → List Bytes → Res Dict
  | d, [] => .ok d
  | d, l :: ls =>
    match diskLine cfg l with
    | .err e => .err e
    | .ok (name, t) =>
      if (cfg.skipPartitions && !perdisk && !storage name) then diskFold cfg storage perdisk d ls
      else diskFold cfg storage perdisk (d.set name t) ls

def diskPlatform (cfg : DiskCfg) (storage : Bytes → Bool) (perdisk : Bool) (file : Bytes) : Res Dict :=
  diskFold cfg storage perdisk [] (textLines cfg.univNl file)

/-! ### front ends `psutil.net_io_counters(pernic, nowrap=False)` /
    `psutil.disk_io_counters(perdisk, nowrap=False)` -/

/-- a named tuple as (field name, value) pairs in field order -/
abbrev NT := List (String × Nat)

inductive Out
  | none                                  -- `None`
  | emptyDict                             -- `{}`
  | perdev (d : List (Bytes × NT))
  | total (t : NT)
  | exc (e : Exc)
  deriving Repr

/-- `[sum(x) for x in zip(*rows)]` -/
def sumCols : List (List Nat) → List Nat
  | [] => []
  | r :: rs => rs.foldl (fun acc x => List.zipWith (· + ·) acc x) r

/-- `nt(*vals)` -/
def mkTuple (fields : List String) (vals : List Nat) : Res NT :=
  if vals.length = fields.length then .ok (fields.zip vals) else .err .typeError

def perdevTuples (fields : List String) : Dict → Res (List (Bytes × NT))
  | [] => .ok []
  | kv :: r =>
    (mkTuple fields kv.2).bind fun t => (perdevTuples fields r).bind fun rest => .ok ((kv.1, t) :: rest)

/-- `emptyPer` / `emptyTot`: what `return {} if perdisk else None` returns in either case -/
def frontEnd (ntFields : List String) (emptyPer emptyTot : Out) (per : Bool) (raw : Res Dict) : Out :=
  match raw with
  | .err e => .exc e
  | .ok d =>
    if d.isEmpty then (if per then emptyPer else emptyTot)
    else if per then
      match perdevTuples ntFields d with
      | .ok r => .perdev r
      | .err e => .exc e
    else
      match mkTuple ntFields (sumCols (d.map (·.2))) with
      | .ok t => .total t
      | .err e => .exc e

/-! ### `_psposix.disk_usage` -/

/-- `v = a <op> b` with operands either `st.<attr>` or an earlier variable -/
structure Assign where
  var : String
  op : String          -- "*", "-", "+"
  lhs : String
  rhs : String

structure UsageCfg where
  assigns : List Assign
  pctUsed : String            -- first argument of `usage_percent`
  pctTotal : String           -- second argument
  pctRound : Nat              -- `round_=`
  outTotal : String           -- `sdiskusage(total=…, used=…, free=…)`
  outUsed : String
  outFree : String

def evalAssigns : List Assign → List (String × Int) → Option (List (String × Int))
  | [], env => some env
  | a :: r, env =>
    match env.lookup a.lhs, env.lookup a.rhs with
    | some x, some y =>
      let v : Option Int :=
        if a.op = "*" then some (x * y) else if a.op = "-" then some (x - y)
        else if a.op = "+" then some (x + y) else none
      match v with
      | some v => evalAssigns r ((a.var, v) :: env)
      | none => none
    | _, _ => none

structure Usage where
  total : Int
  used : Int
  free : Int
  /-- `usage_percent(used, total_user)` before rounding, as an exact rational
      (`0` on ZeroDivisionError) -/
  percentExact : Rat
  roundDigits : Nat
  deriving Repr

/-- `st` = the statvfs result as (`"st.f_blocks"`, value) … pairs -/
def diskUsage (cfg : UsageCfg) (st : List (String × Int)) : Option Usage :=
  match evalAssigns cfg.assigns st with
  | none => none
  | some env =>
    match env.lookup cfg.outTotal, env.lookup cfg.outUsed, env.lookup cfg.outFree,
          env.lookup cfg.pctUsed, env.lookup cfg.pctTotal with
    | some t, some u, some f, some pu, some pt =>
      some { total := t, used := u, free := f,
             percentExact := if pt = 0 then 0 else (pu : Rat) / (pt : Rat) * 100,
             roundDigits := cfg.pctRound }
    | _, _, _, _, _ => none

/-- `round(x, 1)` on the exact value: nearest multiple of 1/10, ties to even -/
def round1 (q : Rat) : Rat :=
  let t := q * 10
  let f := t.floor
  let d := t - f
  let r : Int := if d < 1/2 then f else if d > 1/2 then f + 1 else (if f % 2 = 0 then f else f + 1)
  (r : Rat) / 10

end Psutil.C09
