/-
  Model/C09.lean — transcription of
    * `_pslinux.net_io_counters()`            (/proc/net/dev)
    * `_pslinux.disk_io_counters(perdisk)`    (/proc/diskstats branch of it, `is_storage_device`)
    * `psutil.net_io_counters(pernic, nowrap=False)` / `psutil.disk_io_counters(perdisk, nowrap=False)`
    * `_psposix.disk_usage(path)`             (over the `os.statvfs` result)
  Import-free (Base only). The column maps, the diskstats branch table, the sector size, the
  namedtuple field names and the `disk_usage` assignments are *parameters* (`NetCfg`,
  `DiskCfg`, `UsageCfg`); `Model/C09Gen.lean` instantiates them with what the translator
  extracted from the current source.

  `read_sysfs` (the `/sys/block/*/stat` fallback used when `/proc/diskstats` does not exist), the
  choice between the two sources and the `NotImplementedError` branch are modelled over a
  `DiskWorld`. `int()` is `Base/C09Int.pyInt?` (sign, single underscores, leading zeros,
  surrounding whitespace) on ASCII tokens. Outside the value domain of the model (reported as
  `Exc.unmodelled`, never as a value): a *negative* `int()` result, a token with a byte ≥ 0x80
  (`int()` accepts non-ASCII decimal digits), text that `split()` sees containing a UTF-8 encoded
  Unicode space.

  The `nowrap=True` (default) form over a history of calls: Model/C09Wrap.lean (seeded round 5).
-/
import PsutilModel.Base.Bytes
import PsutilModel.Base.Dec
import PsutilModel.Base.C09Text
import PsutilModel.Base.C09Int
import PsutilModel.Base.C09Sysfs
namespace Psutil.C09

/-- the exceptions the modelled code can raise -/
inductive Exc
  | valueError        -- `int('x')`, wrong number of values to unpack, unknown diskstats layout
  | assertionError    -- `assert colon > 0`
  | indexError        -- `fields[i]` out of range (unreachable with the current branch table)
  | nameError         -- a name used before assignment (unreachable with the current tables)
  | typeError         -- namedtuple called with the wrong number of values
  | notImplementedError  -- neither `/proc/diskstats` nor `/sys/block` exists
  | unmodelled        -- not an exception: the input is outside the model's domain (see the header)
  deriving DecidableEq, Repr

inductive Res (α : Type)
  | ok (a : α)
  | err (e : Exc)
  deriving Repr

def Res.bind {α β} (r : Res α) (f : α → Res β) : Res β :=
  match r with
  | .ok a => f a
  | .err e => .err e

/-- a `dict` with byte-string keys in insertion order -/
abbrev Dict := List (Bytes × List Nat)

/-- `d[k] = v`: overwrite in place when present, else append -/
def Dict.set (d : Dict) (k : Bytes) (v : List Nat) : Dict :=
  if d.any (fun kv => kv.1 == k) then d.map (fun kv => if kv.1 == k then (k, v) else kv)
  else d ++ [(k, v)]

/-- local variables after a tuple-unpack: the *last* assignment of a name wins -/
def lookupLast (env : List (String × Nat)) (k : String) : Option Nat := env.reverse.lookup k

/-- `int(t)` for one token of a text-mode `/proc` or `/sys` file -/
def intTok (t : Bytes) : Res Nat :=
  if hasNonAscii t then .err .unmodelled
  else match pyInt? t with
    | none => .err .valueError
    | some (.ofNat n) => .ok n
    | some (.negSucc _) => .err .unmodelled

/-- `map(int, toks)` consumed from left to right by a tuple-unpack -/
def ints : List Bytes → Res (List Nat)
  | [] => .ok []
  | t :: r => (intTok t).bind fun n => (ints r).bind fun ns => .ok (n :: ns)

/-- the values of the named local variables (`none` = one of them is unbound) -/
def lookups (env : List (String × Nat)) : List String → Option (List Nat)
  | [] => some []
  | k :: r =>
    match lookupLast env k, lookups env r with
    | some v, some vs => some (v :: vs)
    | _, _ => none

/-! ### `_pslinux.net_io_counters` -/

structure NetCfg where
  skip : Nat                -- `lines[2:]`
  rfind : Bool              -- `line.rfind(':')` (true) or `line.find(':')`
  unpack : List String      -- the 16 names on the left of `= map(int, fields)`
  output : List String      -- the names in the tuple stored in `retdict[name]`
  stripSet : Option (List Nat)  -- `line[:colon].strip()` (none) or `.strip(chars)` (some chars)
  univNl : Bool             -- `open_text` reads with universal newlines (true) or `newline="\n"` (false)

/-- which characters `line[:colon].strip(…)` removes from both ends of the name -/
def NetCfg.nameWs (cfg : NetCfg) : Nat → Bool :=
  match cfg.stripSet with
  | none => isWsT
  | some cs => fun c => cs.contains c

def netLine (cfg : NetCfg) (line : Bytes) : Res (Bytes × List Nat) :=
  match (if cfg.rfind then rfindIdx? 58 line else findIdx? 58 line) with
  | none => .err .assertionError            -- rfind = -1
  | some 0 => .err .assertionError          -- colon = 0
  | some (c + 1) =>
    let colon := c + 1
    let name := stripP cfg.nameWs (line.take colon)
    -- `line[colon+1:].strip().split()`; `strip()` before `split()` is a no-op
    if hasUniSpace (line.drop (colon + 1)) then .err .unmodelled else
    let fields := splitP isWsT (line.drop (colon + 1))
    match ints fields with
    | .err e => .err e
    | .ok vs =>
      if vs.length ≠ cfg.unpack.length then .err .valueError
      else match lookups (cfg.unpack.zip vs) cfg.output with
        | none => .err .nameError
        | some t => .ok (name, t)

def netFold (cfg : NetCfg) : Dict → List Bytes → Res Dict
  | d, [] => .ok d
  | d, l :: ls =>
    match netLine cfg l with
    | .err e => .err e
    | .ok (name, t) => netFold cfg (d.set name t) ls

/-- lines of a text-mode file: universal-newline translation (when `open_text` asks for it),
    then split at `\n` -/
def textLines (univ : Bool) (file : Bytes) : List Bytes :=
  linesOf (if univ then univNl file else file)

def netPlatform (cfg : NetCfg) (file : Bytes) : Res Dict :=
  netFold cfg [] ((textLines cfg.univNl file).drop cfg.skip)

/-! ### `_pslinux.disk_io_counters` (read_procfs branch) -/

structure Branch where
  guard : List (Bool × Nat)       -- disjunction; `(false, n)` = `flen == n`, `(true, n)` = `flen >= n`
  nameIdx : Nat                   -- `name = fields[i]`
  singles : List (String × Nat)   -- `x = int(fields[i])`
  lo : Nat
  hi : Option Nat                 -- the slice `fields[lo:hi]` fed to `map(int, …)`
  unpack : List String            -- names on the left of that unpack
  zeros : List String             -- names assigned `0`

structure DiskCfg where
  branches : List Branch          -- in `if/elif` order; no match = `raise ValueError`
  yieldNames : List String        -- the yielded tuple after `name`
  entryNames : List String        -- `(name, …) = entry` after `name`
  retNames : List String          -- the tuple stored in `retdict[name]`
  scaled : List String            -- names multiplied by `DISK_SECTOR_SIZE`
  sector : Nat
  skipPartitions : Bool           -- the guard is `not perdisk and not is_storage_device(name)`
  slashFrom : Nat                 -- `name.replace('/', '!')`
  slashTo : Nat
  univNl : Bool                   -- as in `NetCfg`

def guardHolds (g : List (Bool × Nat)) (flen : Nat) : Bool :=
  g.any fun c => if c.1 then decide (c.2 ≤ flen) else decide (flen = c.2)

def intAt (fields : List Bytes) (i : Nat) : Res Nat :=
  match fields[i]? with
  | none => .err .indexError
  | some t => intTok t

def singlesEnv (fields : List Bytes) : List (String × Nat) → Res (List (String × Nat))
  | [] => .ok []
  | (n, i) :: r =>
    (intAt fields i).bind fun v => (singlesEnv fields r).bind fun e => .ok ((n, v) :: e)

def sliceOf (fields : List Bytes) (lo : Nat) : Option Nat → List Bytes
  | none => fields.drop lo
  | some hi => (fields.drop lo).take (hi - lo)

def branchFor (cfg : DiskCfg) (flen : Nat) : Option Branch :=
  cfg.branches.find? fun b => guardHolds b.guard flen

/-- body of `for entry in gen` for one yielded tuple (after `name`), common to both sources:
    `(name, …) = entry`, `rbytes *= DISK_SECTOR_SIZE; wbytes *= …`, the tuple stored -/
def storeEntry (cfg : DiskCfg) (entry : List Nat) : Res (List Nat) :=
  if entry.length ≠ cfg.entryNames.length then .err .valueError
  else
    let env2 := (cfg.entryNames.zip entry).map fun kv =>
      if cfg.scaled.contains kv.1 then (kv.1, kv.2 * cfg.sector) else kv
    match lookups env2 cfg.retNames with
    | none => .err .nameError
    | some t => .ok t

/-- from the unpacked integers to the stored tuple: the locals of the branch, the yielded
    tuple, then `storeEntry` -/
def diskValues (cfg : DiskCfg) (b : Branch) (e1 : List (String × Nat)) (vs : List Nat) : Res (List Nat) :=
  if vs.length ≠ b.unpack.length then .err .valueError
  else
    let env := e1 ++ b.unpack.zip vs ++ b.zeros.map (fun n => (n, 0))
    match lookups env cfg.yieldNames with
    | none => .err .nameError
    | some entry => storeEntry cfg entry

def diskFields (cfg : DiskCfg) (fields : List Bytes) : Res (Bytes × List Nat) :=
  match branchFor cfg fields.length with
  | none => .err .valueError
  | some b =>
    match fields[b.nameIdx]? with
    | none => .err .indexError
    | some name =>
      (singlesEnv fields b.singles).bind fun e1 =>
      (ints (sliceOf fields b.lo b.hi)).bind fun vs =>
      (diskValues cfg b e1 vs).bind fun t => .ok (name, t)

/-- one iteration of `read_procfs` followed by the body of the `for entry in gen` loop up to
    (not including) the partition filter: the name and the tuple that would be stored -/
def diskLine (cfg : DiskCfg) (line : Bytes) : Res (Bytes × List Nat) :=
  if hasUniSpace line then .err .unmodelled else diskFields cfg (splitP isWsT line)

/-- `is_storage_device(name)`: `os.access("/sys/block/" + name.replace('/', '!'), F_OK)`;
    `sysBlock` = the entries of `/sys/block` -/
def isStorageDevice (cfg : DiskCfg) (sysBlock : List Bytes) (name : Bytes) : Bool :=
  let m := name.map fun c => if c = cfg.slashFrom then cfg.slashTo else c
  m == [46] || m == [46, 46] || sysBlock.contains m

def diskFold (cfg : DiskCfg) (storage : Bytes → Bool) (perdisk : Bool) : Dict → List Bytes → Res Dict
  | d, [] => .ok d
  | d, l :: ls =>
    match diskLine cfg l with
    | .err e => .err e
    | .ok (name, t) =>
      if (cfg.skipPartitions && !perdisk && !storage name) then diskFold cfg storage perdisk d ls
      else diskFold cfg storage perdisk (d.set name t) ls

def diskPlatform (cfg : DiskCfg) (storage : Bytes → Bool) (perdisk : Bool) (file : Bytes) : Res Dict :=
  diskFold cfg storage perdisk [] (textLines cfg.univNl file)

/-! ### `read_sysfs`, the choice of the source, `NotImplementedError` -/

structure SysfsCfg where
  statName : Bytes          -- `'stat'` in `if 'stat' not in files` / `os.path.join(root, 'stat')`
  take : Nat                -- `fields[:10]`
  unpack : List String      -- names on the left of `= map(int, fields[:10])`
  yieldNames : List String  -- the yielded tuple after `name`
  /-- `name = os.path.basename(root)` (none) or `….replace(chr a, chr b)` (some (a, b)) -/
  nameReplace : Option (Nat × Nat)

/-- `s.replace(chr a, chr b)` for single characters, or nothing -/
def mapName (nr : Option (Nat × Nat)) (n : Bytes) : Bytes :=
  match nr with
  | none => n
  | some ab => n.map fun c => if c = ab.1 then ab.2 else c

/-- `f.read()` of a text-mode file -/
def textRead (univ : Bool) (content : Bytes) : Bytes := if univ then univNl content else content

/-- one directory with a `stat` file: `f.read().strip().split()`, `map(int, fields[:10])`, the
    unpack, the yielded tuple after `name` -/
def sysfsStat (sc : SysfsCfg) (univ : Bool) (content : Bytes) : Res (List Nat) :=
  let txt := textRead univ content
  if hasUniSpace txt then .err .unmodelled else
  let fields := splitP isWsT (stripP isWsT txt)
  (ints (fields.take sc.take)).bind fun vs =>
    if vs.length ≠ sc.unpack.length then .err .valueError
    else match lookups (sc.unpack.zip vs) sc.yieldNames with
      | none => .err .nameError
      | some e => .ok e

/-- the directories `read_sysfs` opens a `stat` file in, in walk order: (`basename(root)`, content) -/
def sysfsEntries (sc : SysfsCfg) (blocks : List SysDir) : List (Bytes × Bytes) :=
  (walkList blocks).filterMap fun e => (e.2.lookup sc.statName).map fun c => (mapName sc.nameReplace e.1, c)

def sysfsFold (cfg : DiskCfg) (sc : SysfsCfg) (storage : Bytes → Bool) (perdisk : Bool) :
    Dict → List (Bytes × Bytes) → Res Dict
  | d, [] => .ok d
  | d, e :: r =>
    match (sysfsStat sc cfg.univNl e.2).bind (storeEntry cfg) with
    | .err x => .err x
    | .ok t =>
      if (cfg.skipPartitions && !perdisk && !storage e.1) then sysfsFold cfg sc storage perdisk d r
      else sysfsFold cfg sc storage perdisk (d.set e.1 t) r

/-- what `disk_io_counters` can see of the system -/
structure DiskWorld where
  diskstats : Option Bytes          -- content of `{procfs}/diskstats`; `none` = does not exist
  sysBlock : Option (List SysDir)   -- the directories listed in `/sys/block`; `none` = does not exist

/-- `is_storage_device` in a world: `os.access` finds nothing when `/sys/block` does not exist -/
def storageW (cfg : DiskCfg) (w : DiskWorld) (name : Bytes) : Bool :=
  match w.sysBlock with
  | none => false
  | some bs => isStorageDevice cfg (bs.map (·.name)) name

/-- `if os.path.exists(<first>) … elif os.path.exists(<second>) … else raise NotImplementedError`;
    `sources` = the generators in the order the code tries them -/
def diskPlatformW (cfg : DiskCfg) (sc : SysfsCfg) (w : DiskWorld) (perdisk : Bool) : List String → Res Dict
  | [] => .err .notImplementedError
  | s :: r =>
    if s = "read_procfs" then
      match w.diskstats with
      | some f => diskPlatform cfg (storageW cfg w) perdisk f
      | none => diskPlatformW cfg sc w perdisk r
    else if s = "read_sysfs" then
      match w.sysBlock with
      | some bs => sysfsFold cfg sc (storageW cfg w) perdisk [] (sysfsEntries sc bs)
      | none => diskPlatformW cfg sc w perdisk r
    else .err .nameError

/-! ### front ends `psutil.net_io_counters(pernic, nowrap=False)` /
    `psutil.disk_io_counters(perdisk, nowrap=False)` -/

/-- a named tuple as (field name, value) pairs in field order -/
abbrev NT := List (String × Nat)

inductive Out
  | none                                  -- `None`
  | emptyDict                             -- `{}`
  | perdev (d : List (Bytes × NT))
  | total (t : NT)
  | exc (e : Exc)
  deriving Repr

/-- `zip(*rows)`: the columns, as many as the shortest row has -/
def zipStar : List (List Nat) → List (List Nat)
  | [] => []
  | [r] => r.map fun x => [x]
  | r :: rs => List.zipWith (· :: ·) r (zipStar rs)

/-- the shape of the system-wide total, `nt(*(<reducer>(x) for x in <source>))`, as extracted -/
structure AggCfg where
  reducer : String      -- `sum`
  source : String       -- `zip(*rawdict.values())`

/-- the built-in applied to one column (a non-empty tuple of ints) -/
def reduceCol (r : String) (col : List Nat) : Option Nat :=
  if r = "sum" then some col.sum
  else if r = "max" then some (col.foldl max 0)
  else if r = "min" then some (col.foldl min (col.headD 0))
  else if r = "len" then some col.length
  else none

def reduceCols (r : String) : List (List Nat) → Option (List Nat)
  | [] => some []
  | c :: cs =>
    match reduceCol r c, reduceCols r cs with
    | some v, some vs => some (v :: vs)
    | _, _ => none

/-- `(<reducer>(x) for x in zip(*rawdict.values()))` (`none` = a shape the model does not know) -/
def aggregate (agg : AggCfg) (rows : List (List Nat)) : Option (List Nat) :=
  if agg.source = "zip(*rawdict.values())" then reduceCols agg.reducer (zipStar rows) else none

/-- `nt(*vals)` -/
def mkTuple (fields : List String) (vals : List Nat) : Res NT :=
  if vals.length = fields.length then .ok (fields.zip vals) else .err .typeError

def perdevTuples (fields : List String) : Dict → Res (List (Bytes × NT))
  | [] => .ok []
  | kv :: r =>
    (mkTuple fields kv.2).bind fun t => (perdevTuples fields r).bind fun rest => .ok ((kv.1, t) :: rest)

/-- `emptyPer` / `emptyTot`: what `return {} if perdisk else None` returns in either case -/
def frontEnd (ntFields : List String) (agg : AggCfg) (emptyPer emptyTot : Out) (per : Bool) (raw : Res Dict) : Out :=
  match raw with
  | .err e => .exc e
  | .ok d =>
    if d.isEmpty then (if per then emptyPer else emptyTot)
    else if per then
      match perdevTuples ntFields d with
      | .ok r => .perdev r
      | .err e => .exc e
    else
      match aggregate agg (d.map (·.2)) with
      | none => .exc .nameError
      | some vs =>
        match mkTuple ntFields vs with
        | .ok t => .total t
        | .err e => .exc e

/-! ### `_psposix.disk_usage` -/

/-- `v = a <op> b` with operands either `st.<attr>` or an earlier variable -/
structure Assign where
  var : String
  op : String          -- "*", "-", "+"
  lhs : String
  rhs : String

structure UsageCfg where
  assigns : List Assign
  pctUsed : String            -- first argument of `usage_percent`
  pctTotal : String           -- second argument
  pctRound : Nat              -- `round_=`
  /-- `_common.usage_percent` has the body the model transcribes: `float(used) / total * 100`, `0.0` on
      ZeroDivisionError, `round(ret, round_)` (translator fact `usagePercentIsRatioTimes100`) -/
  pctShape : Bool
  outTotal : String           -- `sdiskusage(total=…, used=…, free=…)`
  outUsed : String
  outFree : String

def evalAssigns : List Assign → List (String × Int) → Option (List (String × Int))
  | [], env => some env
  | a :: r, env =>
    match env.lookup a.lhs, env.lookup a.rhs with
    | some x, some y =>
      let v : Option Int :=
        if a.op = "*" then some (x * y) else if a.op = "-" then some (x - y)
        else if a.op = "+" then some (x + y) else none
      match v with
      | some v => evalAssigns r ((a.var, v) :: env)
      | none => none
    | _, _ => none

/-- `round(x, 1)` on the exact value: nearest multiple of 1/10, ties to even -/
def round1 (q : Rat) : Rat :=
  let t := q * 10
  let f := t.floor
  let d := t - f
  let r : Int := if d < 1/2 then f else if d > 1/2 then f + 1 else (if f % 2 = 0 then f else f + 1)
  (r : Rat) / 10

/-- `round(x, k)` on the exact value: nearest multiple of 10^-k, ties to even (`roundTo 1 = round1`,
    lemma `roundTo_one`) -/
def roundTo (k : Nat) (q : Rat) : Rat :=
  let m : Rat := (10 : Rat) ^ k
  let t := q * m
  let f := t.floor
  let d := t - f
  let r : Int := if d < 1/2 then f else if d > 1/2 then f + 1 else (if f % 2 = 0 then f else f + 1)
  (r : Rat) / m

structure Usage where
  total : Int
  used : Int
  free : Int
  /-- `float(used) / total_user * 100` BEFORE `round(…, round_)`, as an exact rational (`0` on
      ZeroDivisionError); kept beside the returned value for the comparison with CPython's double -/
  percentExact : Rat
  /-- the value returned in `sdiskusage.percent`: `round(percentExact, round_)` in exact arithmetic
      (the IEEE double of CPython differs from it by the float error only: TRUSTED, compared on every run) -/
  percent : Rat
  roundDigits : Nat
  deriving Repr

/-- `st` = the statvfs result as (`"st.f_blocks"`, value) … pairs; `none` = a name is unbound, an operator
    is unknown, or `usage_percent` no longer has the transcribed body -/
def diskUsage (cfg : UsageCfg) (st : List (String × Int)) : Option Usage :=
  if cfg.pctShape = false then none else
  match evalAssigns cfg.assigns st with
  | none => none
  | some env =>
    match env.lookup cfg.outTotal, env.lookup cfg.outUsed, env.lookup cfg.outFree,
          env.lookup cfg.pctUsed, env.lookup cfg.pctTotal with
    | some t, some u, some f, some pu, some pt =>
      let exact : Rat := if pt = 0 then 0 else (pu : Rat) / (pt : Rat) * 100
      some { total := t, used := u, free := f,
             percentExact := exact,
             percent := roundTo cfg.pctRound exact,
             roundDigits := cfg.pctRound }
    | _, _, _, _, _ => none

/-! ### `disk_usage(path)` as a call -/

/-- `os.statvfs(path)` either raises `OSError(errno)` — `disk_usage` has no exception handler (the
    translator refuses a `try` statement in its body), so the error reaches the caller unchanged — or
    returns the record the assignments are evaluated on -/
inductive UsageCall
  | raised (errno : Nat)
  | value (u : Option Usage)
  deriving Repr

def diskUsageCall (cfg : UsageCfg) : Except Nat (List (String × Int)) → UsageCall
  | .error e => .raised e
  | .ok st => .value (diskUsage cfg st)

end Psutil.C09
