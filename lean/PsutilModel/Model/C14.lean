/-
  Model/C14.lean — transcription of `_pslinux.Process.open_files()`, `num_fds()` (`io_counters()` is in Model/C14Io.lean),
  `_pslinux.readlink()`, `_pslinux.file_flags_to_mode()` and of the part of
  `wrap_exceptions` these three methods can reach.  Import-free (Base only).

  The operating system is an input: what `os.listdir`, `os.readlink`, `open()`/`readline()`
  and `os.stat` answer.  Every literal the algorithm depends on is a field of `Cfg`, filled
  from `Generated/C14.lean` (see `Model/C14Gen.lean`).
-/
import PsutilModel.Base.Bytes
import PsutilModel.Base.Dec
namespace Psutil.C14

/-! ### Python primitives used by the three methods -/

/-- `bytes.replace(old, new[, count])` for a non-empty `old`: left to right, non-overlapping.
    `skip` = bytes of the current match still to be dropped, `cnt` = replacements left
    (`none` = unlimited). -/
def pyReplaceGo (old new : Bytes) : Bytes → Nat → Option Nat → Bytes
  | [], _, _ => []
  | _ :: cs, skip + 1, cnt => pyReplaceGo old new cs skip cnt
  | c :: cs, 0, cnt =>
    if cnt != some 0 && old.isPrefixOf (c :: cs) then
      new ++ pyReplaceGo old new cs (old.length - 1) (cnt.map (· - 1))
    else c :: pyReplaceGo old new cs 0 cnt

def pyReplace (old new : Bytes) (cnt : Option Nat) (s : Bytes) : Bytes :=
  pyReplaceGo old new s 0 cnt

/-- `s.split(sep)` for a non-empty multi-byte `sep` (left to right, non-overlapping, empty
    fields kept). `cur` is the current field reversed. -/
def splitSeqGo (sep : Bytes) : Bytes → Nat → Bytes → List Bytes
  | [], _, cur => [cur.reverse]
  | _ :: cs, skip + 1, cur => splitSeqGo sep cs skip cur
  | c :: cs, 0, cur =>
    if sep.isPrefixOf (c :: cs) then cur.reverse :: splitSeqGo sep cs (sep.length - 1) []
    else splitSeqGo sep cs 0 (c :: cur)

def splitSeq (sep s : Bytes) : List Bytes := splitSeqGo sep s 0 []

/-- the radix `int(x, base)` is called with; the translator only ever emits 8, 10 or 16 -/
def radixOf (base : Nat) : Radix :=
  if base = 8 then octal else if base = 16 then hexUpper else decimal

/-- `int(s, base)` on (whitespace-padded) plain digit strings; `none` = ValueError.
    Not modelled: a sign, `_` separators, the `0o`/`0x` prefixes (never printed by the kernel). -/
def pyInt (base : Nat) (s : Bytes) : Option Nat := parseRadix? (radixOf base) (stripWs s)

/-! ### configuration: every literal of the code the model depends on -/

structure Repl where
  old : Bytes
  new : Bytes
  count : Option Nat

/-- errno of a failed `os.readlink`: the five the code names, or any other one (`other`: the errno
    number and the name of the `OSError` subclass CPython raises for it — `NotADirectoryError` for
    ENOTDIR, plain `OSError` for EIO / ELOOP / EBADF …) -/
inductive LinkErr | enoent | esrch | einval | enametoolong | eacces | other (en : Nat) (cls : Bytes)
  deriving DecidableEq, Repr

/-- errno of a failed `open()` of an fdinfo / io file (the two the code handles) -/
inductive GoneErr | enoent | esrch
  deriving DecidableEq, Repr

/-- errno of a failed `os.listdir("/proc/<pid>/fd")` / `open("/proc/<pid>/io")`: the process is
    gone, or the monitor is refused (EACCES / EPERM → PermissionError) -/
inductive FileErr | gone (e : GoneErr) | denied
  deriving DecidableEq, Repr

structure Cfg where
  /-- `modes_map` of `file_flags_to_mode`, values as bytes -/
  modesMap : List (Nat × Bytes)
  /-- `os.O_RDONLY | os.O_WRONLY | os.O_RDWR` -/
  accMask : Nat
  /-- `os.O_APPEND` -/
  appendBit : Nat
  /-- `mode.replace('w', 'a', 1)` done when O_APPEND is set -/
  appendRepl : Repl
  /-- `mode.replace('w+', 'r+')` done always -/
  finalRepl : Repl
  /-- base of `int(f.readline().split()[i])` for the `pos:` line, and the index `i` -/
  posBase : Nat
  posIdx : Nat
  /-- base and index for the `flags:` line -/
  flagsBase : Nat
  flagsIdx : Nat
  /-- the `' (deleted)'` literal of `readlink()` and the `10` of `path[:-10]` -/
  delSuffix : Bytes
  delCut : Nat
  /-- the `'/'` of `path.startswith('/')` -/
  absPrefix : Bytes
  /-- the test that decides whether a descriptor is listed is exactly
      `path.startswith(absPrefix) and isfile_strict(path)` — no further clause about the path (its
      name, a directory prefix such as `/dev/`, …); `scanOne` transcribes exactly these two conjuncts -/
  filterExact : Bool
  /-- does the `except` around `readlink(file)` that sets `hit_enoent` catch ENOENT / ESRCH? -/
  linkGoneEnoent : Bool
  linkGoneEsrch : Bool
  /-- is the `open_binary(fdinfo)` call inside a `try` whose handler sets `hit_enoent` for ENOENT / ESRCH? -/
  infoGoneEnoent : Bool
  infoGoneEsrch : Bool
  /-- same question for the two `f.readline()` statements (a descriptor closed after its fdinfo
      file was opened makes the *read* fail) -/
  infoReadGoneEnoent : Bool
  infoReadGoneEsrch : Bool
  /-- `if hit_enoent: self._raise_if_not_alive()` is present after the loop -/
  finalAliveCheck : Bool
  /-- the separator of `line.split(b': ')` in `io_counters` -/
  ioSep : Bytes
  /-- keys handed positionally to `pio(...)` -/
  ioKeys : List Bytes
  /-- `pio._fields` -/
  pioFields : List Bytes
  /-- is `int(value)` inside the `try:` whose `except ValueError` skips the line? -/
  ioIntGuarded : Bool
  /-- `isfile_strict` re-raises PermissionError (`except PermissionError: raise` precedes the
      `except OSError: return False`) -/
  isfileDeniedRaises : Bool
  /-- same for `path_exists_strict` (used by `readlink()` for the `' (deleted)'` rule) -/
  existsDeniedRaises : Bool
  /-- the handler around `readlink(file)` that sets `hit_enoent` also catches PermissionError -/
  linkGoneDenied : Bool
  /-- the `except OSError` around `readlink(file)` re-raises EACCES / EPERM (it only `continue`s
      for the errnos it names, and those are not EACCES / EPERM) -/
  linkDeniedRaises : Bool
  /-- the handler around the fdinfo block that sets `hit_enoent` also catches PermissionError -/
  infoGoneDenied : Bool
  /-- `wrap_exceptions`: `except PermissionError` → `raise AccessDenied(pid, name)` -/
  wrapPermAD : Bool
  /-- `wrap_exceptions`: the ProcessLookupError and FileNotFoundError handlers call
      `self._raise_if_zombie()` before anything else -/
  wrapZombieFirst : Bool
  /-- round 3: in the listing filter the `path.startswith(absPrefix)` conjunct comes BEFORE
      `isfile_strict(path)` (so a non-absolute text is never handed to `os.stat`) -/
  absFirst : Bool
  /-- the loop iterates over `files[:N]` (`some N`) or over all of `files` (`none`) -/
  scanLimit : Option Nat
  /-- `files` is `os.listdir(f"{procfs}/{pid}/fd")`, the loop has no `break` / `return`, every tuple
      built is appended and `retlist` is what is returned -/
  loopOverListdir : Bool
  /-- the two per-descriptor paths are `…/fd/{fd}` and `…/fdinfo/{fd}` -/
  fdPathsExact : Bool
  /-- errno numbers on which the `except OSError` handler around `readlink(file)` `continue`s -/
  linkSkipErrnos : List Nat
  /-- exception classes, besides FileNotFoundError / ProcessLookupError / PermissionError, named by
      the handler around `readlink(file)` that sets `hit_enoent` -/
  linkGoneExtra : List Bytes
  /-- classes of further handlers around `readlink(file)` that swallow the exception (no `raise`) -/
  linkSkipClasses : List Bytes
  /-- like `linkGoneExtra`, for the handler around the fdinfo block -/
  infoGoneExtra : List Bytes
  /-- `num_fds` is `len(os.listdir(f"{procfs}/{pid}/fd"))`, possibly capped by `min(…, N)` -/
  numFdsLenListdir : Bool
  numFdsCap : Option Nat
  /-- `io_counters` iterates `for line in f` over the file object returned by `open_binary(fname)` -/
  ioIterFile : Bool
  /-- seeded round 5 — the `except` clauses of the `try: st = os.stat(path)` of `isfile_strict`, in source
      order: (classes named, `true` = the clause answers `False` / `false` = it re-raises) -/
  isfileHandlers : List (List Bytes × Bool)
  /-- the same for `path_exists_strict` (used by `readlink()` for the `' (deleted)'` rule) -/
  existsHandlers : List (List Bytes × Bool)

/-! ### what the methods can raise -/

inductive Exc
  | fileNotFound | processLookup | osError
  | keyError | valueError | indexError | runtimeError
  | noSuchProcess
  | permissionError | accessDenied | zombieProcess
  deriving DecidableEq, Repr

inductive Outcome (α : Type)
  | ok (v : α)
  | exc (e : Exc)
  deriving DecidableEq, Repr

/-- `wrap_exceptions`: `alive` = `/proc/<pid>/stat` exists (and can be read), `zombie` = its state
    letter is `Z` (`_is_zombie()` answers False when the file cannot be read).
    PermissionError → AccessDenied; ProcessLookupError → ZombieProcess for a zombie, else
    NoSuchProcess; FileNotFoundError → ZombieProcess for a zombie, NoSuchProcess when
    `/proc/<pid>/stat` is gone, else re-raised. -/
def wrapExc (cfg : Cfg) (alive zombie : Bool) : Exc → Exc
  | .permissionError => if cfg.wrapPermAD then .accessDenied else .permissionError
  | .fileNotFound =>
    if cfg.wrapZombieFirst && (alive && zombie) then .zombieProcess
    else if alive then .fileNotFound else .noSuchProcess
  | .processLookup =>
    if cfg.wrapZombieFirst && (alive && zombie) then .zombieProcess else .noSuchProcess
  | e => e

def wrap (cfg : Cfg) (alive zombie : Bool) : Outcome α → Outcome α
  | .ok v => .ok v
  | .exc e => .exc (wrapExc cfg alive zombie e)

/-! ### file_flags_to_mode -/

/-- everything after the dict lookup: depends on the flag word only through "is O_APPEND set" -/
def modeTail (cfg : Cfg) (append : Bool) (m : Bytes) : Bytes :=
  let m := if append then pyReplace cfg.appendRepl.old cfg.appendRepl.new cfg.appendRepl.count m else m
  pyReplace cfg.finalRepl.old cfg.finalRepl.new cfg.finalRepl.count m

/-- the function of the two things it looks at; `none` = KeyError -/
def modeCore (cfg : Cfg) (acc : Nat) (append : Bool) : Option Bytes :=
  (cfg.modesMap.lookup acc).map (modeTail cfg append)

/-- `file_flags_to_mode(flags)`; `none` = KeyError -/
def fileFlagsToMode (cfg : Cfg) (flags : Nat) : Option Bytes :=
  modeCore cfg (flags &&& cfg.accMask) (flags &&& cfg.appendBit != 0)

/-! ### the world the scan looks at -/

inductive Res (ε α : Type)
  | ok (a : α)
  | err (e : ε)
  deriving Repr

/-- what `/proc/<pid>/fdinfo/<name>` answers: the `open` fails, or it opens and every read
    succeeds, or it opens and the first / second `readline()` fails (the descriptor was closed
    after the open: the kernel fails the read with ENOENT, ESRCH when the task is gone) -/
inductive InfoRes
  | openErr (e : GoneErr)
  | ok (content : Bytes)
  | readErr (content : Bytes) (second : Bool) (e : GoneErr)
  /-- the `open` fails with EACCES / EPERM -/
  | openDenied
  /-- the `open` fails with another errno (EIO, EMFILE, …), raised as class `cls` -/
  | openOther (en : Nat) (cls : Bytes)

/-- one name returned by `os.listdir("/proc/<pid>/fd")` with what the later accesses answer -/
structure Entry where
  name : Bytes
  link : Res LinkErr Bytes      -- `os.readlink("/proc/<pid>/fd/<name>")`
  info : InfoRes

/-! ### `os.stat` failing with an errno that is neither ENOENT nor EACCES / EPERM (seeded round 5) -/

def clsPermissionError : Bytes := [80, 101, 114, 109, 105, 115, 115, 105, 111, 110, 69, 114, 114, 111, 114]
def clsFileNotFoundError : Bytes :=
  [70, 105, 108, 101, 78, 111, 116, 70, 111, 117, 110, 100, 69, 114, 114, 111, 114]
def clsProcessLookupError : Bytes :=
  [80, 114, 111, 99, 101, 115, 115, 76, 111, 111, 107, 117, 112, 69, 114, 114, 111, 114]

/-- `os.stat(p)` fails with errno `en`, raised by CPython as the `OSError` subclass `cls`
    (`NotADirectoryError` for ENOTDIR, plain `OSError` for ELOOP / ENAMETOOLONG / ESTALE / EIO /
    ENOTCONN / EOVERFLOW …). EACCES / EPERM are not in this type: that is what `FS.denied` says. -/
structure StatFail where
  en : Nat
  cls : Bytes
  notPerm : cls ≠ clsPermissionError

/-- the file system `isfile_strict` / `path_exists_strict` look at: `os.stat(p)` succeeds on a
    regular file (`isFile`), succeeds (`pathExists`), or fails with EACCES / EPERM (`denied`: a
    directory on the way that the monitor may not search, another user's FUSE mount …). A path
    that is `denied` is neither `isFile` nor `pathExists` (the same `os.stat` cannot both fail and
    succeed); the model asks `denied` first wherever the code lets PermissionError through.
    Seeded round 5: `statErr p = some f` — `os.stat(p)` fails with ANOTHER errno (ENOTDIR: a parent
    directory was replaced by a file; ELOOP; ENAMETOOLONG; ESTALE / EIO / ENOTCONN: a dead network or
    FUSE mount; …). Same convention: such a path is neither `isFile` nor `pathExists`; the model asks
    `statErr` wherever the helper's `except` clauses let that class through. A path with none of the
    four answers (`isFile`, `pathExists`, `denied`, `statErr`) is one for which `os.stat` says ENOENT. -/
structure FS where
  isFile : Bytes → Bool
  pathExists : Bytes → Bool
  denied : Bytes → Bool := fun _ => false
  statErr : Bytes → Option StatFail := fun _ => none

structure Proc where
  /-- `os.listdir("/proc/<pid>/fd")` -/
  fdDir : Res FileErr (List Entry)
  /-- `/proc/<pid>` and `/proc/<pid>/stat` still exist when looked at after the scan -/
  alive : Bool
  /-- the state letter in `/proc/<pid>/stat` is `Z` -/
  zombie : Bool := false

structure POpenFile where
  path : Bytes
  fd : Nat
  position : Nat
  mode : Bytes
  flags : Nat
  deriving DecidableEq, Repr

/-! ### `_pslinux.readlink` -/

/-- `path.split('\x00')[0]`, then the `' (deleted)'` rule -/
def pyReadlink (cfg : Cfg) (fs : FS) (raw : Bytes) : Bytes :=
  let path := raw.takeWhile (· != 0)
  if endsWith cfg.delSuffix path && !fs.pathExists path then path.take (path.length - cfg.delCut)
  else path

/-- `path_exists_strict(path)` inside `readlink()` lets a PermissionError of `os.stat` through
    (it is only called for a text ending in `' (deleted)'`) -/
def pyReadlinkDenied (cfg : Cfg) (fs : FS) (raw : Bytes) : Bool :=
  let path := raw.takeWhile (· != 0)
  cfg.existsDeniedRaises && (endsWith cfg.delSuffix path && fs.denied path)

/-! ### fdinfo -/

/-- `int(line.split()[idx], base)` -/
def intField (idx base : Nat) (line : Bytes) : Except Exc Nat :=
  match (splitWs line)[idx]? with
  | none => .error .indexError
  | some t =>
    match pyInt base t with
    | none => .error .valueError
    | some v => .ok v

/-- the two `int(f.readline().split()[i])` statements on a file whose reads all succeed;
    a missing line reads as `b''` -/
def parseFdinfo (cfg : Cfg) (content : Bytes) : Except Exc (Nat × Nat) :=
  let lines := splitOn 10 content
  match intField cfg.posIdx cfg.posBase (lines.getD 0 []) with
  | .error x => .error x
  | .ok pos =>
    match intField cfg.flagsIdx cfg.flagsBase (lines.getD 1 []) with
    | .error x => .error x
    | .ok flags => .ok (pos, flags)

/-- outcome of opening and reading one fdinfo file -/
inductive InfoOut
  | ok (pos flags : Nat)
  | goneAtOpen (e : GoneErr)
  | goneAtRead (e : GoneErr)
  | denied
  | otherAtOpen (en : Nat) (cls : Bytes)
  | raise (x : Exc)

/-- open, first readline + parse, second readline + parse, in the order the code performs them -/
def readFdinfo (cfg : Cfg) : InfoRes → InfoOut
  | .openErr e => .goneAtOpen e
  | .openDenied => .denied
  | .openOther en cls => .otherAtOpen en cls
  | .ok content =>
    match parseFdinfo cfg content with
    | .error x => .raise x
    | .ok (pos, flags) => .ok pos flags
  | .readErr _ false e => .goneAtRead e
  | .readErr content true e =>
    match intField cfg.posIdx cfg.posBase ((splitOn 10 content).getD 0 []) with
    | .error x => .raise x
    | .ok _ => .goneAtRead e

/-! ### the loop body of `open_files` -/

inductive Step
  | skip                       -- `continue` / filtered out
  | hit                        -- `hit_enoent = True`
  | item (f : POpenFile)
  | raise (e : Exc)

/-- a PermissionError raised inside `try: path = readlink(file)` (by `os.readlink` itself or by
    `path_exists_strict`): swallowed as "gone" if that handler catches it, re-raised by the
    `except OSError` handler unless it names the errno among those it skips -/
def deniedLinkStep (cfg : Cfg) : Step :=
  if cfg.linkGoneDenied then .hit
  else if cfg.linkDeniedRaises then .raise .permissionError else .skip

def clsOSError : Bytes := [79, 83, 69, 114, 114, 111, 114]                       -- "OSError"

/-- class names that catch every `OSError`: OSError, EnvironmentError, IOError, Exception, BaseException -/
def catchAll : List Bytes :=
  [clsOSError, [69, 110, 118, 105, 114, 111, 110, 109, 101, 110, 116, 69, 114, 114, 111, 114],
   [73, 79, 69, 114, 114, 111, 114], [69, 120, 99, 101, 112, 116, 105, 111, 110],
   [66, 97, 115, 101, 69, 120, 99, 101, 112, 116, 105, 111, 110]]

/-- does an `except (classes…)` clause catch an exception of class `cls` (an `OSError` subclass)? -/
def catches (classes : List Bytes) (cls : Bytes) : Bool :=
  classes.contains cls || classes.any fun c => catchAll.contains c

/-! ### the strict stat helpers on a failing `os.stat` (seeded round 5) -/

/-- what the `try: os.stat(path)` of a strict helper does with an exception of class `cls`: the first
    clause that catches it decides (`some true` = the helper answers `False`, `some false` = the clause
    re-raises); `none` = no clause catches it, it propagates -/
def statAnswer : List (List Bytes × Bool) → Bytes → Option Bool
  | [], _ => none
  | (cs, a) :: hs, cls => if catches cs cls then some a else statAnswer hs cls

/-- the helper answers `False` for a failure of class `cls` -/
def statFalse (hs : List (List Bytes × Bool)) (cls : Bytes) : Bool := statAnswer hs cls == some true

/-- `os.stat(p)` fails inside a strict helper with something other than EACCES / EPERM and the helper
    lets it out: the (errno, class) that escapes. ENOENT (no answer of the file system for `p`) goes
    through the same clauses. -/
def statEscapes (hs : List (List Bytes × Bool)) (fs : FS) (p : Bytes) : Option (Nat × Bytes) :=
  match fs.statErr p with
  | some f => if statFalse hs f.cls then none else some (f.en, f.cls)
  | none =>
    if !fs.pathExists p && !fs.isFile p && !fs.denied p && !statFalse hs clsFileNotFoundError then
      some (2, clsFileNotFoundError)
    else none

/-- the exception as `wrap_exceptions` sees it -/
def excOfCls (cls : Bytes) : Exc :=
  if cls == clsFileNotFoundError then .fileNotFound
  else if cls == clsProcessLookupError then .processLookup
  else if cls == clsPermissionError then .permissionError
  else .osError

/-- decidable criterion for "every failure other than PermissionError is answered `False`": walking the
    clauses in order, a clause that is not a catch-all either answers `False` or names nothing but
    PermissionError, and a catch-all clause answering `False` is reached -/
def allOthersFalse : List (List Bytes × Bool) → Bool
  | [] => false
  | (cs, a) :: hs =>
    if cs.any fun c => catchAll.contains c then a
    else (a || cs.all fun c => c == clsPermissionError) && allOthersFalse hs

/-- `os.readlink` failed with an errno that is not ENOENT / ESRCH / EACCES / EPERM: handled as "gone"
    if the `hit_enoent` handler names its class, swallowed if another handler names its class or the
    `except OSError` handler `continue`s on the errno, else re-raised (`raise`) and — no row of
    `wrap_exceptions` matching — leaves the call as a bare OSError -/
def otherLinkStep (cfg : Cfg) (en : Nat) (cls : Bytes) : Step :=
  if catches cfg.linkGoneExtra cls then .hit
  else if catches cfg.linkSkipClasses cls then .skip
  else if cfg.linkSkipErrnos.contains en then .skip
  else .raise .osError

def linkErrStep (cfg : Cfg) : LinkErr → Step
  | .enoent => if cfg.linkGoneEnoent then .hit else .raise .fileNotFound
  | .esrch => if cfg.linkGoneEsrch then .hit else .raise .processLookup
  | .einval => otherLinkStep cfg 22 clsOSError             -- errno.EINVAL
  | .enametoolong => otherLinkStep cfg 36 clsOSError       -- errno.ENAMETOOLONG
  | .eacces => deniedLinkStep cfg
  | .other en cls => otherLinkStep cfg en cls

def infoErrStep (cfg : Cfg) : GoneErr → Step
  | .enoent => if cfg.infoGoneEnoent then .hit else .raise .fileNotFound
  | .esrch => if cfg.infoGoneEsrch then .hit else .raise .processLookup

def infoReadErrStep (cfg : Cfg) : GoneErr → Step
  | .enoent => if cfg.infoReadGoneEnoent then .hit else .raise .fileNotFound
  | .esrch => if cfg.infoReadGoneEsrch then .hit else .raise .processLookup

/-- the block guarded by `path.startswith('/') and isfile_strict(path)`: fdinfo, mode, tuple -/
def scanFile (cfg : Cfg) (e : Entry) (path : Bytes) : Step :=
  match readFdinfo cfg e.info with
  | .denied => if cfg.infoGoneDenied then .hit else .raise .permissionError
  | .otherAtOpen _ cls => if catches cfg.infoGoneExtra cls then .hit else .raise .osError
  | .goneAtOpen ie => infoErrStep cfg ie
  | .goneAtRead ie => infoReadErrStep cfg ie
  | .raise x => .raise x
  | .ok pos flags =>
    match fileFlagsToMode cfg flags with
    | none => .raise .keyError
    | some mode =>
      match pyInt 10 e.name with
      | none => .raise .valueError
      | some fd => .item ⟨path, fd, pos, mode, flags⟩

/-- `path_exists_strict(path)` inside `readlink()` (called only for a text ending in `' (deleted)'`)
    lets another `os.stat` failure out: what escapes -/
def pyReadlinkEscapes (cfg : Cfg) (fs : FS) (raw : Bytes) : Option (Nat × Bytes) :=
  let path := raw.takeWhile (· != 0)
  if endsWith cfg.delSuffix path then statEscapes cfg.existsHandlers fs path else none

/-- an exception that left `readlink(file)` from inside `path_exists_strict` meets the handlers around
    `path = readlink(file)` like one raised by `os.readlink` itself -/
def escapedLinkStep (cfg : Cfg) (x : Nat × Bytes) : Step :=
  if x.2 == clsFileNotFoundError then linkErrStep cfg .enoent
  else if x.2 == clsProcessLookupError then linkErrStep cfg .esrch
  else otherLinkStep cfg x.1 x.2

/-- `isfile_strict(path)` lets an `os.stat` failure other than EACCES / EPERM out (the call sits
    outside every `try` of the loop); asked only for an absolute path when `startswith` comes first -/
def isfileEscapes (cfg : Cfg) (fs : FS) (path : Bytes) : Option (Nat × Bytes) :=
  if startsWith cfg.absPrefix path || !cfg.absFirst then statEscapes cfg.isfileHandlers fs path else none

def scanOne (cfg : Cfg) (fs : FS) (e : Entry) : Step :=
  match e.link with
  | .err le => linkErrStep cfg le
  | .ok raw =>
    if pyReadlinkDenied cfg fs raw then deniedLinkStep cfg
    else match pyReadlinkEscapes cfg fs raw with
    | some x => escapedLinkStep cfg x
    | none =>
      let path := pyReadlink cfg fs raw
      -- `isfile_strict(path)`: os.stat refused → PermissionError (outside every try of the loop);
      -- asked only for an absolute path when the `startswith` conjunct comes first
      if (startsWith cfg.absPrefix path || !cfg.absFirst) && (cfg.isfileDeniedRaises && fs.denied path) then
        .raise .permissionError
      else match isfileEscapes cfg fs path with
      | some x => .raise (excOfCls x.2)
      | none =>
        if startsWith cfg.absPrefix path && fs.isFile path then scanFile cfg e path
        else .skip

/-- the `for fd in files:` loop: the list built and `hit_enoent`, or the first exception -/
def scan (cfg : Cfg) (fs : FS) : List Entry → Except Exc (List POpenFile × Bool)
  | [] => .ok ([], false)
  | e :: es =>
    match scanOne cfg fs e with
    | .raise x => .error x
    | .skip => scan cfg fs es
    | .hit => (scan cfg fs es).map fun r => (r.1, true)
    | .item f => (scan cfg fs es).map fun r => (f :: r.1, r.2)

def goneExc : GoneErr → Exc
  | .enoent => .fileNotFound
  | .esrch => .processLookup

def fileExc : FileErr → Exc
  | .gone e => goneExc e
  | .denied => .permissionError

/-- body of `open_files` (before `wrap_exceptions`) -/
def openFilesBody (cfg : Cfg) (fs : FS) (p : Proc) : Outcome (List POpenFile) :=
  match p.fdDir with
  | .err e => .exc (fileExc e)
  | .ok entries =>
    match scan cfg fs (match cfg.scanLimit with | none => entries | some k => entries.take k) with
    | .error x => .exc x
    | .ok (l, hit) =>
      if hit && cfg.finalAliveCheck && !p.alive then .exc .fileNotFound   -- `os.stat` fails
      else .ok l

def openFiles (cfg : Cfg) (fs : FS) (p : Proc) : Outcome (List POpenFile) :=
  wrap cfg p.alive p.zombie (openFilesBody cfg fs p)

/-- `num_fds` -/
def numFds (cfg : Cfg) (p : Proc) : Outcome Nat :=
  wrap cfg p.alive p.zombie (match p.fdDir with
    | .err e => .exc (fileExc e)
    | .ok entries => .ok (match cfg.numFdsCap with | none => entries.length | some k => min entries.length k))

/-! ### io_counters: see Model/C14Io.lean (values are CPython `int(bytes)` results, possibly signed) -/

end Psutil.C14
