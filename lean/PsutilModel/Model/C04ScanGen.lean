/- Model/C04ScanGen.lean — the access-granularity visit instantiated with the facts the translator extracted
   (total: any value of the facts gives a model the driver can run; the obligations live in Props/C04.lean). -/
import PsutilModel.Model.C04Scan
import PsutilModel.Generated.C04
namespace Psutil.C04

def mkSrc (kind file : String) : Src :=
  if kind == "obj" then .obj
  else if kind == "memo" then .memo file
  else if kind == "read" then .read file
  else if kind == "readprobe" then .readProbe file
  else if kind == "link" then .link file
  else .other

/-- where each covered `as_dict` name gets its value, as extracted (`scanSources`) -/
def scanSrcs : List (String × Src) := Gen.C04.scanSources.map fun e => (e.1, mkSrc e.2.1 e.2.2)

/-- how `_is_zombie()` gets the state letter, as extracted (`zombieProbe`): anything that goes through a
    memoized reader is the what-if `.memo` (so is any shape the translator does not recognise as its own read of `stat`) -/
def scanProbe : Probe := if Gen.C04.zombieProbe == "read:stat" then .fresh else .memo

end Psutil.C04
