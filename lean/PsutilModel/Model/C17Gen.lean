/- Model/C17Gen.lean — the C17 models instantiated with the facts the translator extracted. -/
import PsutilModel.Model.C17
import PsutilModel.Model.C17Ext
import PsutilModel.Model.C17Py
import PsutilModel.Model.C17R3
import PsutilModel.Model.C17Thr
import PsutilModel.Generated.C17
namespace Psutil.C17

def ucfg : UCfg :=
  { userBounded := Gen.C17.userBounded
    lineBounded := Gen.C17.lineBounded
    hostBounded := Gen.C17.hostBounded
    filterUserProcess := Gen.C17.filterUserProcess
    localLits := Gen.C17.localLits
    localName := Gen.C17.localName
    tupleOrder := Gen.C17.tupleOrder
    pyPerm := Gen.C17.usersPyPerm
    pyOrNone := Gen.C17.usersPyOrNone }

def pcfg : PCfg :=
  { nodevPrefix := Gen.C17.nodevPrefix
    nodevKept := Gen.C17.nodevKept
    nodevSplitIdx := Gen.C17.nodevSplitIdx
    noneDevice := Gen.C17.noneDevice
    rootAliases := Gen.C17.rootAliases
    filterDevice := Gen.C17.filterDevice
    filterFstype := Gen.C17.filterFstype }

def scfg : SCfg :=
  { copyMinus := Gen.C17.strncpyCopyMinus
    termMinus := Gen.C17.strncpyTermMinus
    hasTerm := Gen.C17.strncpyHasTerm
    sitesSizeofDst := Gen.C17.strncpySitesSizeofDst }

def mcfg : MCfg :=
  { bufSize := Gen.C17.macBufSize
    step := Gen.C17.macStep
    masked := Gen.C17.macMasked
    lowerHex := Gen.C17.macLowerHex
    sepChar := Gen.C17.macSep }

def acfg : ACfg :=
  { initBits := Gen.C17.affInitBits
    guard := Gen.C17.affGuard
    factor := Gen.C17.affFactor }

def ccfg : CCfg :=
  { setBytes := Gen.C17.cpuSetBytes
    checkedMacro := Gen.C17.cpuSetChecked
    minusOneRejected := Gen.C17.cpuMinusOneRejected }

def rcfg : RCfg :=
  { pidBits := Gen.C17.pidBits
    negGuard := Gen.C17.pidNegGuard }

def icfg : ICfg :=
  { shift := Gen.C17.ioprioShift
    cGuard := Gen.C17.ioprioCGuard
    cDataGuard := Gen.C17.ioprioCDataGuard
    cGuardOSError := Gen.C17.ioprioCGuardOSError
    pyClassGuard := Gen.C17.ioprioPyClassGuard
    pyValueRange := Gen.C17.ioprioPyValueRange
    pyNoValueClasses := Gen.C17.ioprioPyNoValueClasses
    units := Gen.C17.ioprioSetUnits.toList }

def ecfg : ECfg := { castUnsigned := Gen.C17.ethSpeedCast }

def ncfg : NCfg :=
  { famInet := Gen.C17.nifFamInet
    famInet6 := Gen.C17.nifFamInet6
    famPacket := Gen.C17.nifFamPacket
    lenInet := Gen.C17.nifLenInet
    lenInet6 := Gen.C17.nifLenInet6
    hostlenIsBuf := Gen.C17.nifHostlenIsBuf
    halenOff := Gen.C17.nifHalenOff
    lladdrOff := Gen.C17.nifLladdrOff
    ifuChain := Gen.C17.nifIfuChain
    tupleOrder := Gen.C17.nifTupleOrder
    netmaskSrc := Gen.C17.nifNetmaskSrc
    familySrc := Gen.C17.nifFamilySrc }

def qcfg : QCfg := { ifnamsiz := Gen.C17.ifnamsiz, runningBit := Gen.C17.ifRunningBit }

def dcfg : DCfg :=
  { reentrant := Gen.C17.mntReentrant
    userBuf := Gen.C17.mntUserBuf
    libcBuf := Gen.C17.mntLibcBuf
    order := Gen.C17.mntOrder }

def ycfg : YCfg :=
  { format := Gen.C17.sysinfoFormat.toList
    fields := Gen.C17.sysinfoFields
    fieldBits := Gen.C17.sysinfoFieldBits }

def gcfg : GCfg := { resetBefore := Gen.C17.getprioResetBefore, testMinusOne := Gen.C17.getprioTestMinusOne }

/-! ### round 2 -/

def ushape : UShape :=
  { slotExprs := Gen.C17.usersSlotExprs
    fieldUses := Gen.C17.usersFieldUses
    mentions := Gen.C17.usersMentions
    charLocals := Gen.C17.usersCharLocals }

/-- the users() configuration whose decode flags are read off the source shape -/
def ucfgS : UCfg := ucfg.withShape ushape

def fcfg : FCfg :=
  { partSkip := Gen.C17.rootPartSkip
    partMinFields := Gen.C17.rootPartMinFields
    partMajorIdx := Gen.C17.rootPartMajorIdx
    partMinorIdx := Gen.C17.rootPartMinorIdx
    partNameIdx := Gen.C17.rootPartNameIdx
    devPrefixes := Gen.C17.rootDevPrefixes
    ueventKeys := Gen.C17.rootUeventKeys
    order := Gen.C17.rootFindOrder
    existsCheck := Gen.C17.rootExistsCheck
    needleOrder := Gen.C17.rootNeedleOrder }

def tcfg : TCfg :=
  { ethTolerated := Gen.C17.nisEthTolerated
    duplexUnknownC := Gen.C17.nisDuplexUnknownC
    duplexMap := Gen.C17.nisDuplexMap
    skipErrno := Gen.C17.nisSkipErrno
    callOrder := Gen.C17.nisCallOrder
    flagSep := Gen.C17.nisFlagSep
    isupFlag := Gen.C17.isupFlag }

def wcfg : WCfg :=
  { afLink := Gen.C17.nifaAfLink
    sep := Gen.C17.nifaSep
    minSeps := Gen.C17.nifaMinSeps
    padText := Gen.C17.nifaPadText
    sortKeyIdx := Gen.C17.nifaSortKeyIdx }

/-! ### round 3 -/

def nfail : NFail := { ifaddrInit := Gen.C17.nifIfaddrInit }

/-- the C table restricted to the macros the platform header defines, with their bits -/
def iffLinux : List (Nat × String) :=
  Gen.C17.iffTable.filterMap fun e =>
    match Gen.C17.iffHeader.lookup e.1 with
    | some bit => some (bit, e.2)
    | none => none

/-! ### seeded round 5 -/

/-- the GIL windows of C function `fn` around its static-result calls, as the translator read them; a function the scan
    did not list makes no such call it could see: nothing is claimed for it (both defects assumed) -/
def gilCfgOf (fn : String) : Thr.GilCfg :=
  match Gen.C17.gilStaticLoops.lookup fn with
  | some evs => Thr.cfgOfEvents evs
  | none => { relProduce := true, relBetween := true }

end Psutil.C17
