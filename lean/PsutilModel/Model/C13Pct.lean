/-
  Model/C13Pct.lean — where `memory_percent`'s total comes from, with the module-level cache:

    _pslinux.virtual_memory()   (the `/proc/meminfo` loop, `mems[b'MemTotal:']`, `mems[b'MemFree:']`)
    psutil.virtual_memory()     (`global _TOTAL_PHYMEM; … _TOTAL_PHYMEM = ret.total`)
    psutil.Process.memory_percent(memtype)
        (`total_phymem = _TOTAL_PHYMEM or virtual_memory().total`, `if not total_phymem > 0`)

  State = the module global `psutil._TOTAL_PHYMEM`. Import-free (Base + Model.C13 only).
-/
import PsutilModel.Model.C13
namespace Psutil.C13

/-- translator facts about the total (Generated/C13.lean) -/
structure PCfg where
  /-- `mems[fields[0]] = int(fields[1]) * 1024` -/
  meminfoFactor : Nat
  /-- `total = mems[b'MemTotal:']` -/
  totalKey : Bytes
  /-- `free = mems[b'MemFree:']` (KeyError when absent) -/
  freeKey : Bytes
  /-- `memory_percent` uses `_TOTAL_PHYMEM or virtual_memory().total` (false: always
      `virtual_memory().total`) -/
  pctUsesCache : Bool
  /-- `psutil.virtual_memory()` stores `ret.total` into `_TOTAL_PHYMEM` -/
  vmStoresTotal : Bool

/-- `for line in f: fields = line.split(); mems[fields[0]] = int(fields[1]) * 1024` -/
def meminfoLoop (pc : PCfg) : List Bytes → Dict → Res Dict
  | [], d => .ok d
  | l :: ls, d =>
    match splitWs l with
    | [] => .error .indexError                       -- fields[0] of a blank line
    | [_] => .error .indexError                      -- fields[1]
    | k :: v :: _ =>
      match parseDec? v with
      | some n => meminfoLoop pc ls ((k, n * pc.meminfoFactor) :: d)
      | none => .error .valueError

/-- `_pslinux.virtual_memory().total` (the other fields of `svmem` are C06's business; with
    `MemTotal:` and `MemFree:` present nothing else in the function raises) -/
def vmTotal (pc : PCfg) (meminfo : Bytes) : Res Nat :=
  match meminfoLoop pc (linesOf meminfo) [] with
  | .error e => .error e
  | .ok d =>
    match d.lookup pc.totalKey with
    | none => .error .keyError
    | some t =>
      match d.lookup pc.freeKey with
      | none => .error .keyError
      | some _ => .ok t

/-- `psutil._TOTAL_PHYMEM` (`none` = `None`) -/
structure PState where
  cache : Option Nat
  deriving DecidableEq, Repr

/-- `psutil.virtual_memory()` as far as `.total` and the cache are concerned -/
def virtualMemory (pc : PCfg) (meminfo : Bytes) (s : PState) : Res Nat × PState :=
  match vmTotal pc meminfo with
  | .error e => (.error e, s)
  | .ok t => (.ok t, if pc.vmStoresTotal then ⟨some t⟩ else s)

/-- `memory_percent` up to `value = getattr(metrics, memtype)` -/
def pctValue (c : Cfg) (memtype : String) (info full : Res (List Nat)) : Res Nat :=
  if !(c.pfullmemFields.contains memtype) then .error .valueError
  else
    let (fields, metrics) :=
      if c.pmemFields.contains memtype then (c.pmemFields, info) else (c.pfullmemFields, full)
    match metrics with
    | .error e => .error e
    | .ok vals =>
      match (fields.zip vals).lookup memtype with
      | none => .error .attributeError
      | some v => .ok v

/-- `if not total > 0: raise ValueError` / `value / float(total) * 100` -/
def pctOf (v : Nat) (total : Int) : Res Rat :=
  if total > 0 then .ok ((v : Rat) / (total : Rat) * 100) else .error .valueError

/-- `_TOTAL_PHYMEM or …`: the cached total when it is truthy -/
def truthy (o : Option Nat) : Option Nat :=
  match o with
  | some t => if t = 0 then none else some t
  | none => none

/-- `Process.memory_percent(memtype)` with the module state threaded through -/
def memoryPercentS (c : Cfg) (pc : PCfg) (memtype : String) (info full : Res (List Nat))
    (meminfo : Bytes) (s : PState) : Res Rat × PState :=
  match pctValue c memtype info full with
  | .error e => (.error e, s)
  | .ok v =>
    match truthy (if pc.pctUsesCache then s.cache else none) with
    | some t => (pctOf v (t : Int), s)
    | none =>
      match virtualMemory pc meminfo s with
      | (.error e, s') => (.error e, s')
      | (.ok t, s') => (pctOf v (t : Int), s')

/-! ### histories: the kernel's total may change between calls -/

inductive POp
  | setMeminfo (b : Bytes)        -- `/proc/meminfo` changes (hot-plug, balloon, another PROCFS_PATH)
  | vm                            -- `psutil.virtual_memory()`
  | pct (memtype : String)        -- `p.memory_percent(memtype)`
  deriving Repr

inductive POut
  | none
  | total (r : Res Nat)
  | pct (r : Res Rat)

/-- outputs of a history, one per op (the process's own files do not change) -/
def runP (c : Cfg) (pc : PCfg) (info full : Res (List Nat)) : List POp → Bytes → PState → List POut
  | [], _, _ => []
  | .setMeminfo b :: ops, _, s => .none :: runP c pc info full ops b s
  | .vm :: ops, mi, s =>
    let (r, s') := virtualMemory pc mi s
    .total r :: runP c pc info full ops mi s'
  | .pct mt :: ops, mi, s =>
    let (r, s') := memoryPercentS c pc mt info full mi s
    .pct r :: runP c pc info full ops mi s'

end Psutil.C13
