/-
  Model/C15R2.lean — second extension of the C15 model (same conventions as Model/C15.lean):

  * `wait_pid` with system calls that TAKE TIME (`waitPidC`): the k-th system call the function
    makes (`_timer()`, `os.waitpid`, `_pid_exists`, `_sleep`) takes `cost k` of virtual time on top
    of what it is supposed to take; with `cost = 0` this is `waitPid` (proved).
  * `wait_procs` over a list in which a process may be a plain `psutil.Process` or a
    `psutil.Popen` (`waitProcsM`): `check_gone` calls `proc.wait(timeout=t)`, which for a Popen
    is `Popen.wait` with its own `returncode` cache in front of `Process.wait`.
  * what `set(procs)` keeps when several EQUAL objects are handed in (`setOf`), and what
    `wait_procs` does with items that cannot be hashed (`waitProcsFrontM`).
-/
import PsutilModel.Model.C15
namespace Psutil.C15

/-! ## `wait_pid` when system calls take time -/

structure CSt where
  now : Rat
  interval : Rat
  nWait : Nat                 -- `os.waitpid` calls made on this PID so far
  nSys : Nat                  -- system calls made so far (indexes the cost oracle)
  sleeps : List Rat           -- every `_sleep(x)` REQUESTED, in order

/-- one system call returns: the clock has moved by what the call cost -/
def CSt.sys (cost : Nat → Rat) (s : CSt) : CSt :=
  { s with now := s.now + cost s.nSys, nSys := s.nSys + 1 }

/-- `os.waitpid(pid, flags)` returns (or raises) -/
def CSt.waited (cost : Nat → Rat) (s : CSt) : CSt :=
  { s.sys cost with nWait := s.nWait + 1 }

/-- `_sleep(interval)` (oversleeping by the call's cost); `return _min(interval * 2, 0.04)` -/
def CSt.advance (cfg : Cfg) (cost : Nat → Rat) (s : CSt) : CSt :=
  { s with now := s.now + cost s.nSys + s.interval
           nSys := s.nSys + 1
           interval := rmin (s.interval * (cfg.factor : Rat)) cfg.cap
           sleeps := s.sleeps ++ [s.interval] }

/-- the nested `sleep(interval)`; `_timer()` is a system call too (its value is the instant it returns) -/
def sleepStepC (cfg : Cfg) (cost : Nat → Rat) (pid : Nat) (timeout : Option Rat) (stopAt : Rat)
    (s : CSt) : Option Outcome × CSt :=
  match timeout with
  | none => (none, s.advance cfg cost)
  | some τ =>
    if cfg.checkBeforeSleep then
      let s1 := s.sys cost
      if pastDeadline cfg s1.now stopAt then (some (.timeout τ pid), s1) else (none, s1.advance cfg cost)
    else
      let s1 := (s.advance cfg cost).sys cost
      if pastDeadline cfg s1.now stopAt then (some (.timeout τ pid), s1) else (none, s1)

def pollNonChildC (cfg : Cfg) (cost : Nat → Rat) (env : Env) (pid : Nat) (timeout : Option Rat)
    (stopAt : Rat) : Nat → CSt → Outcome × CSt
  | 0, s => (.outOfFuel, s)
  | fuel + 1, s =>
    let s1 := s.sys cost                    -- `_pid_exists(pid)`
    if env.pidExists s1.now then
      match sleepStepC cfg cost pid timeout stopAt s1 with
      | (some o, s') => (o, s')
      | (none, s') => pollNonChildC cfg cost env pid timeout stopAt fuel s'
    else (.none, s1)

def waitLoopC (cfg : Cfg) (cost : Nat → Rat) (env : Env) (pid : Nat) (timeout : Option Rat)
    (stopAt : Rat) : Nat → CSt → Outcome × CSt
  | 0, s => (.outOfFuel, s)
  | fuel + 1, s =>
    let s1 := s.waited cost                                 -- `os.waitpid(pid, flags)`
    if env.eintr s.nWait then
      match sleepStepC cfg cost pid timeout stopAt s1 with
      | (some o, s') => (o, s')
      | (none, s') => waitLoopC cfg cost env pid timeout stopAt fuel s'
    else
      match env.kind with
      | .child st =>
        match timeout with
        | some _ =>
          if env.ended s1.now then (decode st, s1)
          else
            match sleepStepC cfg cost pid timeout stopAt s1 with
            | (some o, s') => (o, s')
            | (none, s') => waitLoopC cfg cost env pid timeout stopAt fuel s'
        | none =>
          match env.exitAt with
          | some e => (decode st, { s1 with now := rmax s1.now e })
          | none => (.hang, s1)
      | _ => pollNonChildC cfg cost env pid timeout stopAt (fuel + 1) s1

/-- `wait_pid(pid, timeout)` entered at instant `now`; `nSys` system calls were made before -/
def waitPidC (cfg : Cfg) (cost : Nat → Rat) (env : Env) (pid : Nat) (timeout : Option Rat) (fuel : Nat)
    (now : Rat) (nWait nSys : Nat) : Outcome × CSt :=
  let s0 : CSt := ⟨now, cfg.i0, nWait, nSys, []⟩
  if pid = 0 then (.valueError, s0)
  else
    match timeout with
    | some τ =>
      let s1 := s0.sys cost                 -- `stop_at = _timer() + timeout`
      waitLoopC cfg cost env pid timeout (s1.now + τ) fuel s1
    | none => waitLoopC cfg cost env pid timeout now fuel s0

def CSt.toSt (s : CSt) : St := ⟨s.now, s.interval, s.nWait, s.sleeps⟩

/-! ## `wait_procs` over plain `Process` objects and `Popen` objects -/

/-- `sub pid = none`: the object for `pid` is a plain `psutil.Process`;
    `sub pid = some rc`: it is a `psutil.Popen` whose `self.__subproc.returncode` is `rc` -/
structure WPM where
  w : WP
  sub : Nat → Option (Option Int)

/-- `check_gone(proc, timeout)` where `proc.wait` is dispatched on the class of the object -/
def checkGoneM (cfg : Cfg) (envOf : Nat → Env) (hasCb : Bool) (fuel : Nat) (m : WPM) (pid : Nat)
    (t : Rat) : Except Outcome WPM :=
  match m.sub pid with
  | none =>
    match checkGone cfg envOf hasCb fuel m.w pid t with
    | .error o => .error o
    | .ok w' => .ok ⟨w', m.sub⟩
  | some rc =>
    let r := popenWait cfg (envOf pid) (some t) fuel m.w.now ⟨{ m.w.objs pid with pid := pid }, rc⟩
    let w1 : WP := { m.w.setObj r.obj.proc with now := r.now, sleeps := m.w.sleeps ++ r.sleeps,
                                                 calls := m.w.calls ++ [(pid, t)] }
    let sub1 : Nat → Option (Option Int) := fun q => if q = pid then some r.obj.subRc else m.sub q
    match r.out with
    | .timeout _ _ => .ok ⟨w1, sub1⟩
    | .code c => .ok ⟨markGone hasCb w1 pid (some c), sub1⟩
    | .none => if (envOf pid).running r.now then .ok ⟨w1, sub1⟩ else .ok ⟨markGone hasCb w1 pid none, sub1⟩
    | o => .error o

def passTM (cfg : Cfg) (envOf : Nat → Env) (hasCb : Bool) (fuel : Nat) (deadline maxT : Rat) :
    List Nat → WPM → Rat → Except Outcome (WPM × Rat)
  | [], m, tmo => .ok (m, tmo)
  | pid :: rest, m, _ =>
    let t := rmin (deadline - m.w.now) maxT
    if t ≤ 0 then .ok (m, t)
    else
      match checkGoneM cfg envOf hasCb fuel m pid t with
      | .error o => .error o
      | .ok m' => passTM cfg envOf hasCb fuel deadline maxT rest m' t

def passNM (cfg : Cfg) (envOf : Nat → Env) (hasCb : Bool) (fuel : Nat) (t : Rat) :
    List Nat → WPM → Except Outcome WPM
  | [], m => .ok m
  | pid :: rest, m =>
    match checkGoneM cfg envOf hasCb fuel m pid t with
    | .error o => .error o
    | .ok m' => passNM cfg envOf hasCb fuel t rest m'

def whileTM (cfg : Cfg) (envOf : Nat → Env) (hasCb : Bool) (fuel : Nat)
    (order : Nat → List Nat → List Nat) (deadline : Rat) :
    Nat → List Nat → WPM → Rat → Except Outcome (WPM × List Nat)
  | 0, _, _, _ => .error .outOfFuel
  | k + 1, alive, m, tmo =>
    if alive.isEmpty then .ok (m, alive)
    else if tmo ≤ 0 then .ok (m, alive)
    else
      match passTM cfg envOf hasCb fuel deadline (maxTimeout cfg alive)
              (order m.w.calls.length alive) m tmo with
      | .error o => .error o
      | .ok (m', tmo') =>
        whileTM cfg envOf hasCb fuel order deadline k (stillAlive alive m'.w.gone) m' tmo'

def whileNM (cfg : Cfg) (envOf : Nat → Env) (hasCb : Bool) (fuel : Nat)
    (order : Nat → List Nat → List Nat) :
    Nat → List Nat → WPM → Except Outcome (WPM × List Nat)
  | 0, _, _ => .error .outOfFuel
  | k + 1, alive, m =>
    if alive.isEmpty then .ok (m, alive)
    else
      match passNM cfg envOf hasCb fuel (maxTimeout cfg alive) (order m.w.calls.length alive) m with
      | .error o => .error o
      | .ok m' => whileNM cfg envOf hasCb fuel order k (stillAlive alive m'.w.gone) m'

def lastAttemptM (cfg : Cfg) (envOf : Nat → Env) (hasCb : Bool) (fuel : Nat)
    (order : Nat → List Nat → List Nat) (alive : List Nat) (m : WPM) :
    Except Outcome (WPM × List Nat) :=
  if alive.isEmpty then .ok (m, alive)
  else
    match passNM cfg envOf hasCb fuel 0 (order m.w.calls.length alive) m with
    | .error o => .error o
    | .ok m' => .ok (m', stillAlive alive m'.w.gone)

def waitProcsM (cfg : Cfg) (envOf : Nat → Env) (procs : List Nat) (timeout : Option Rat)
    (hasCb : Bool) (order : Nat → List Nat → List Nat) (fuel : Nat) (m : WPM) :
    Except Outcome (WPM × List Nat) :=
  if negative timeout then .error .valueError
  else
    let alive := dedup procs
    match timeout with
    | some τ =>
      match whileTM cfg envOf hasCb fuel order (m.w.now + τ) fuel alive m τ with
      | .error o => .error o
      | .ok (m', alive') => lastAttemptM cfg envOf hasCb fuel order alive' m'
    | none =>
      match whileNM cfg envOf hasCb fuel order fuel alive m with
      | .error o => .error o
      | .ok (m', alive') => lastAttemptM cfg envOf hasCb fuel order alive' m'

/-- as far as `wait_procs` can tell, a Popen whose `returncode` is already set is a Process whose
    `_exitcode` holds that status -/
def embedObj (p : PObj) (s : Option (Option Int)) : PObj :=
  match s with
  | some (some c) => { p with exitcode := some (some c) }
  | _ => p

def WPM.embed (m : WPM) : WP :=
  { m.w with objs := fun q => embedObj (m.w.objs q) (m.sub q) }

/-! ## `set(procs)` and the argument checks, with objects instead of pids -/

/-- an element of the list handed to `wait_procs`: `oid` tells apart several Python objects for one
    process (they compare equal and hash alike: `Process.__eq__/__hash__` go by (pid, create time)) -/
structure Item where
  pid : Nat
  oid : Nat
  deriving DecidableEq, Repr

/-- `set(procs)`: of several equal objects the one inserted first stays -/
def setOf : List Item → List Item
  | [] => []
  | x :: xs => x :: (setOf xs).filter fun y => y.pid != x.pid

/-- the object that stands for `pid` inside `wait_procs` -/
def survivor (l : List Item) (pid : Nat) : Option Item := l.find? fun y => y.pid == pid

/-- `wait_procs(procs, timeout, callback)` from its first line, `hashable` = every item of `procs`
    can be hashed: timeout validation (ValueError), `set(procs)` (TypeError for an unhashable item),
    the callable test (TypeError), then the loops -/
def waitProcsFrontM (cfg : Cfg) (envOf : Nat → Env) (procs : List Nat) (hashable : Bool)
    (timeout : Option Rat) (cb : Cb) (order : Nat → List Nat → List Nat) (fuel : Nat) (m : WPM) :
    Except WPErr (WPM × List Nat) :=
  if negative timeout then .error (.out .valueError)
  else if !hashable then .error .typeError
  else if cfg.cbCheck && cb == .notCallable then .error .typeError
  else
    match waitProcsM cfg envOf procs timeout (cb != .absent) order fuel m with
    | .error o => .error (.out o)
    | .ok r => .ok r

end Psutil.C15
