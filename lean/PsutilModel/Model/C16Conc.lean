/-
  Model/C16Conc.lean — small-step model of ONE object's `_cache` attribute used by any number
  of threads: `memoize_when_activated.wrapper` (plain calls), `cache_activate`,
  `cache_deactivate` and the lock/nesting protocol of `Process.oneshot()`. Import-free.

  Granularity = the bytecodes that touch shared state (one model step each):
    w0  LOAD_ATTR  self._cache            (AttributeError → case 2)
    w1  BINARY_SUBSCR  cache[fun]         (KeyError → case 3)
    w2  CALL fun(self)                    (the read of the source; may raise a psutil error)
    w3  LOAD_ATTR  self._cache            (only when the store re-loads the attribute)
    w4  STORE_SUBSCR  cache[fun] = ret
    act STORE_ATTR  proc._cache = {}      (one per cache_activate: each rebinds to a FRESH dict)
    deact DELETE_ATTR proc._cache         (one per cache_deactivate; later ones raise AttributeError)
    acquire / test / release              (`with self._lock`, `hasattr(self, "_cache")`)
  Dicts are heap objects (ids): a thread may keep a reference to a dict that is no longer
  the attribute. Keys `f` are the decorated functions; function `f` reads source `f`.
  Ghost data (never read by the transitions): the instant `now`, the history of contents
  `hist`, dict creation instants, per entry the instant it was read, per call its start.
  The same model instantiates to the front-end object (4 activations) and to the platform
  object (3 activations).
-/
namespace Psutil.C16.Conc

structure Entry where
  val : Nat      -- content (version) of the source that was read
  tr : Nat       -- instant at which it was read
  deriving DecidableEq, Repr

structure CCfg where
  nAct : Nat             -- cache_activate calls on this object per oneshot()
  nDeact : Nat           -- cache_deactivate calls
  storeReloads : Bool    -- case 3 stores through a re-loaded `self._cache` (true) / into the dict it looked up (false)
  storeGuard : Bool      -- that store is wrapped in `except AttributeError: pass` (issue 1948)
  delGuard : Bool        -- cache_deactivate swallows AttributeError
  ownerOnly : Bool := false  -- fact `cacheOwnerOnly`: the dict is tagged with the activating thread and the wrapper
                             -- consults / fills it only when called by that thread (others: plain `fun(self)`)
  deriving DecidableEq, Repr

/-- how a returned value was obtained -/
inductive How
  | computed                    -- read during this call
  | hit (d : Nat) (t0 : Nat)    -- found in dict `d`, which was the attribute at instant `t0` of this call
  deriving DecidableEq, Repr

inductive Mode | out | inReal | inNoop
  deriving DecidableEq, Repr

inductive PC
  | idle
  | test
  | act (k : Nat)
  | deact (k : Nat)
  | release
  | w0 (f cs : Nat)
  | w1 (f cs d t0 : Nat)
  | w2 (f cs : Nat) (od : Option (Nat × Nat))
  | w3 (f cs : Nat) (e : Entry)
  | w4 (f cs d : Nat) (e : Entry)
  | ret (f cs : Nat) (e : Entry) (how : How)
  | retErr (f cs : Nat)          -- AccessDenied & co. propagate: a legitimate psutil error
  | err                          -- an AttributeError/KeyError escaped: spurious
  deriving DecidableEq, Repr

structure Thread where
  pc : PC
  mode : Mode
  deriving DecidableEq, Repr

inductive Choice
  | call (f : Nat)      -- idle: start `p.<f>()`
  | acquire             -- idle, outside: `with self._lock` (enabled only when the lock is free)
  | beginExit           -- idle, inside: leave the block (normally or by an exception: same `finally`)
  | step                -- the thread's next bytecode
  deriving DecidableEq, Repr

inductive Action
  | thr (tid : Nat) (c : Choice)
  | setVer (f v : Nat)
  | setDenied (f : Nat) (b : Bool)
  deriving DecidableEq, Repr

structure St where
  now : Nat
  ver : Nat → Nat
  denied : Nat → Bool
  hist : Nat → Nat → Nat               -- ghost: instant → source → content
  attr : Option Nat                     -- the `_cache` attribute: absent / dict id
  nextId : Nat
  created : Nat → Nat                   -- ghost: dict id → instant of its creation
  ents : Nat → Nat → Option Entry       -- heap: dict id → key → entry
  creator : Nat → Nat                   -- dict id → thread that created it (stored with the dict when `ownerOnly`)
  lock : Option Nat
  thr : Nat → Thread

def St.init : St :=
  { now := 0, ver := fun _ => 0, denied := fun _ => false, hist := fun _ _ => 0, attr := none,
    nextId := 0, created := fun _ => 0, ents := fun _ _ => none, creator := fun _ => 0, lock := none,
    thr := fun _ => ⟨.idle, .out⟩ }

def setPc (s : St) (tid : Nat) (pc : PC) : St :=
  { s with thr := fun i => if i = tid then { s.thr tid with pc := pc } else s.thr i }

def setThr (s : St) (tid : Nat) (t : Thread) : St :=
  { s with thr := fun i => if i = tid then t else s.thr i }

/-- one bytecode of thread `tid` (none = not enabled) -/
def tstep (cfg : CCfg) (s : St) (tid : Nat) (c : Choice) : Option St :=
  match (s.thr tid).pc, c with
  | .idle, .call f => some (setPc s tid (.w0 f s.now))
  | .idle, .acquire =>
    if (s.thr tid).mode = .out ∧ s.lock = none
    then some (setPc { s with lock := some tid } tid .test) else none
  | .idle, .beginExit =>
    match (s.thr tid).mode with
    | .inReal => some (setPc s tid (.deact cfg.nDeact))
    | .inNoop => some (setPc s tid .release)
    | .out => none
  | .test, .step =>
    match s.attr with
    | some _ => some (setThr s tid ⟨.idle, .inNoop⟩)        -- nested: no-op block
    | none => some (setPc s tid (.act cfg.nAct))
  | .act (k + 1), .step =>
    some (setPc { s with attr := some s.nextId, nextId := s.nextId + 1,
                         created := fun d => if d = s.nextId then s.now else s.created d,
                         ents := fun d => if d = s.nextId then (fun _ => none) else s.ents d,
                         creator := fun d => if d = s.nextId then tid else s.creator d }
            tid (.act k))
  | .act 0, .step => some (setThr s tid ⟨.idle, .inReal⟩)
  | .deact (k + 1), .step =>
    match s.attr with
    | some _ => some (setPc { s with attr := none } tid (.deact k))
    | none => some (setPc s tid (if cfg.delGuard then .deact k else .err))
  | .deact 0, .step => some (setPc s tid .release)
  | .release, .step => some (setThr { s with lock := none } tid ⟨.idle, .out⟩)
  | .w0 f cs, .step =>
    match s.attr with
    | some d =>
      if cfg.ownerOnly && s.creator d != tid then some (setPc s tid (.w2 f cs none))   -- another thread's cache: bypass
      else some (setPc s tid (.w1 f cs d s.now))
    | none => some (setPc s tid (.w2 f cs none))            -- AttributeError → case 2
  | .w1 f cs d t0, .step =>
    match s.ents d f with
    | some e => some (setPc s tid (.ret f cs e (.hit d t0)))
    | none => some (setPc s tid (.w2 f cs (some (d, t0))))  -- KeyError → case 3
  | .w2 f cs od, .step =>
    if s.denied f then some (setPc s tid (.retErr f cs))
    else
      let e : Entry := ⟨s.ver f, s.now⟩
      match od with
      | none => some (setPc s tid (.ret f cs e .computed))
      | some (d, _) => some (setPc s tid (if cfg.storeReloads then .w3 f cs e else .w4 f cs d e))
  | .w3 f cs e, .step =>
    match s.attr with
    | some d => some (setPc s tid (.w4 f cs d e))
    | none => some (setPc s tid (if cfg.storeGuard then .ret f cs e .computed else .err))
  | .w4 f cs d e, .step =>
    some (setPc { s with ents := fun d' => if d' = d then (fun k => if k = f then some e else s.ents d k)
                                           else s.ents d' }
            tid (.ret f cs e .computed))
  | .ret _ _ _ _, .step => some (setPc s tid .idle)
  | .retErr _ _, .step => some (setPc s tid .idle)
  | _, _ => none

/-- time passes with every action; the new content table is recorded -/
def tick (s : St) : St :=
  { s with now := s.now + 1, hist := fun t => if t = s.now + 1 then s.ver else s.hist t }

def step (cfg : CCfg) (s : St) : Action → Option St
  | .thr tid c => (tstep cfg s tid c).map tick
  | .setVer f v => some (tick { s with ver := fun x => if x = f then v else s.ver x })
  | .setDenied f b => some (tick { s with denied := fun x => if x = f then b else s.denied x })

/-- states reachable under ANY interleaving of any number of threads and world changes -/
inductive Reach (cfg : CCfg) : St → Prop
  | init : Reach cfg St.init
  | step {s s' : St} (a : Action) : Reach cfg s → step cfg s a = some s' → Reach cfg s'

def run (cfg : CCfg) : St → List Action → Option St
  | s, [] => some s
  | s, a :: as => match step cfg s a with
    | some s' => run cfg s' as
    | none => none

/-- executable check of the interval form for a thread standing at `ret` -/
def intervalOK (s : St) (f cs : Nat) (e : Entry) (how : How) : Bool :=
  (List.range (s.now + 1)).any fun t =>
    s.hist t f == e.val &&
      (decide (cs ≤ t) ||
        match how with
        | .hit d t0 => decide (cs ≤ t0) && decide (t0 ≤ s.now) && decide (s.created d ≤ t0) && decide (s.created d ≤ t)
        | .computed => false)

/-- executable check of the literal form (valid at some moment of the call itself) -/
def literalOK (s : St) (f cs : Nat) (e : Entry) : Bool :=
  (List.range (s.now + 1)).any fun t => decide (cs ≤ t) && s.hist t f == e.val

end Psutil.C16.Conc
