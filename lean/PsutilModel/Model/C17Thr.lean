/-
  Model/C17Thr.lean — seeded round 5: the THREAD dimension of the C extension.

    §24 libc calls that answer through ONE process-wide static object (`getmntent`: static `struct mntent` + static
        line buffer; `getutent`: static `struct utmp`) made by several Python threads at once.  The only lock the
        extension has is the interpreter's GIL: a thread owns it when it enters an extension function and keeps it
        until the function returns or the C code opens a `Py_BEGIN_ALLOW_THREADS … Py_END_ALLOW_THREADS` window
        (`PyEval_SaveThread` / `PyEval_RestoreThread`).

  A thread that is inside `disk_partitions()` / `users()` runs the loop

        head:  [window?]  r = static-result call()      -- `produce`: the static object now holds the thread's next record
               [window?]
               decode the fields behind r, append       -- `consume`: reads the static object (r is a POINTER into it)
               goto head

  Two translator facts say where the source puts GIL windows relative to that loop (`GilCfg`).  The state is small-step:
  a scheduler picks which thread makes its next atomic move; a move that needs the GIL while another thread owns it
  does not happen (the thread stays where it is).  Records are an arbitrary type `α` (whole records: a torn read is
  not modelled — the model is kinder to the code than the machine is).
-/
namespace Psutil.C17.Thr

/-- where the source opens GIL windows in a static-result loop -/
structure GilCfg where
  /-- the static-result call itself runs inside a window (GIL released while libc fills the static object) -/
  relProduce : Bool
  /-- a window is opened between the call and the (last) decode of its result -/
  relBetween : Bool
  deriving DecidableEq, Repr

def GilCfg.Good (c : GilCfg) : Prop := c.relProduce = false ∧ c.relBetween = false

instance (c : GilCfg) : Decidable c.Good := by unfold GilCfg.Good; infer_instance

inductive Pc
  /-- called from Python, waiting for the GIL -/
  | enter
  /-- owns the GIL, at the loop head -/
  | head
  /-- window open, about to make the static-result call -/
  | prodRel
  /-- the call returned inside the window; waiting for the GIL -/
  | needGil
  /-- owns the GIL, result pending, about to open the window between call and decode -/
  | mid
  /-- that window is open; waiting for the GIL -/
  | midRel
  /-- owns the GIL, about to decode the static object -/
  | use
  /-- returned to Python -/
  | done
  deriving DecidableEq, Repr

structure Thread (α : Type) where
  pc : Pc
  /-- the records of the file THIS call reads (never changes) -/
  own : List α
  /-- records of its file the call has not fetched yet -/
  todo : List α
  /-- rows appended to the result list so far -/
  out : List α

structure St (α : Type) where
  thr : Nat → Thread α
  /-- owner of the GIL -/
  gil : Option Nat
  /-- content of libc's static result object: the record parsed by the LAST static-result call of ANY thread -/
  static : Option α

def setThr {α : Type} (f : Nat → Thread α) (t : Nat) (x : Thread α) : Nat → Thread α := fun u => if u = t then x else f u

/-- the static-result call of thread `t` (`th` = its state): EOF ends the call (the GIL, if owned, is given back on
    return to Python), otherwise the static object is overwritten with the thread's next record -/
def produce {α : Type} (s : St α) (t : Nat) (th : Thread α) (owns : Bool) (next : Pc) : St α :=
  match th.todo with
  | [] => { s with thr := setThr s.thr t { th with pc := .done }, gil := if owns then none else s.gil }
  | r :: rest => { s with thr := setThr s.thr t { th with pc := next, todo := rest }, static := some r }

/-- one atomic move of thread `t` -/
def step {α : Type} (c : GilCfg) (t : Nat) (s : St α) : St α :=
  let th := s.thr t
  match th.pc with
  | .enter => if s.gil = none then { s with gil := some t, thr := setThr s.thr t { th with pc := .head } } else s
  | .head =>
    if c.relProduce then { s with gil := none, thr := setThr s.thr t { th with pc := .prodRel } }
    else produce s t th true (if c.relBetween then .mid else .use)
  | .prodRel => produce s t th false .needGil
  | .needGil =>
    if s.gil = none then { s with gil := some t, thr := setThr s.thr t { th with pc := if c.relBetween then .mid else .use } }
    else s
  | .mid => { s with gil := none, thr := setThr s.thr t { th with pc := .midRel } }
  | .midRel => if s.gil = none then { s with gil := some t, thr := setThr s.thr t { th with pc := .use } } else s
  | .use =>
    match s.static with
    | some r => { s with thr := setThr s.thr t { th with pc := .head, out := th.out ++ [r] } }
    | none => { s with thr := setThr s.thr t { th with pc := .head } }
  | .done => s

/-- a schedule: which thread moves next, for as long as the list goes -/
def run {α : Type} (c : GilCfg) : List Nat → St α → St α
  | [], s => s
  | t :: r, s => run c r (step c t s)

/-- every thread `t` is about to call the function on the file `files t`; nobody owns the GIL -/
def initSt {α : Type} (files : Nat → List α) : St α :=
  { thr := fun t => { pc := .enter, own := files t, todo := files t, out := [] }, gil := none, static := none }

/-- what call `t` has returned / built so far after the schedule -/
def result {α : Type} (c : GilCfg) (files : Nat → List α) (sched : List Nat) (t : Nat) : List α :=
  ((run c sched (initSt files)).thr t).out

def finished {α : Type} (c : GilCfg) (files : Nat → List α) (sched : List Nat) (t : Nat) : Bool :=
  ((run c sched (initSt files)).thr t).pc == .done

/-- round-robin completion over threads `0 … n-1`, `fuel` rounds (used by the driver after a scripted schedule) -/
def rounds (n : Nat) : Nat → List Nat
  | 0 => []
  | f + 1 => List.range n ++ rounds n f

/-! ### the GIL windows of a function, read off the translator's event list

`release` / `acquire` — a window opens / closes (any spelling: the macros, `PyEval_SaveThread`, …);
`produce:<callee>` — a call of a libc function that answers through a static object; `use` — an access through the
pointer it returned.  Anything else is not understood and makes the configuration bad. -/

def isProduce (e : String) : Bool := e.toList.take 8 == ['p', 'r', 'o', 'd', 'u', 'c', 'e', ':']

def knownEvent (e : String) : Bool := e == "release" || e == "acquire" || e == "use" || isProduce e

/-- a static-result call textually inside a window -/
def relProduceOf : List String → Nat → Bool
  | [], _ => false
  | e :: r, depth =>
    if e == "release" then relProduceOf r (depth + 1)
    else if e == "acquire" then relProduceOf r (depth - 1)
    else if isProduce e then decide (0 < depth) || relProduceOf r depth
    else relProduceOf r depth

/-- a window opened after a static-result call and before a later access through its result -/
def relBetweenOf : List String → Bool → Bool → Bool
  | [], _, _ => false
  | e :: r, live, opened =>
    if isProduce e then relBetweenOf r true false
    else if e == "release" then relBetweenOf r live live
    else if e == "use" then (live && opened) || relBetweenOf r live opened
    else relBetweenOf r live opened

/-- the loop shape of one function; events the translator could not classify count as both defects -/
def cfgOfEvents (evs : List String) : GilCfg :=
  if evs.all knownEvent then { relProduce := relProduceOf evs 0, relBetween := relBetweenOf evs false false }
  else { relProduce := true, relBetween := true }

/-- libc functions that return a pointer to (or keep their position in) one process-wide static object
    (attributes(7): "MT-Unsafe race:<x>buf / race:<x>ent"), as far as a process-inspection library may meet them -/
def nonReentrant : List String :=
  ["getmntent", "getutent", "getutid", "getutline", "getutxent", "getutxid", "getutxline", "setutent", "endutent", "pututline",
   "utmpname", "getpwnam", "getpwuid", "getpwent", "getgrnam", "getgrgid", "getgrent", "getspnam", "getspent",
   "gethostbyname", "gethostbyname2", "gethostbyaddr", "gethostent", "getservbyname", "getservbyport", "getservent",
   "getprotobyname", "getprotobynumber", "getprotoent", "getnetbyname", "getnetbyaddr", "getnetent", "getfsent", "getfsspec",
   "getfsfile", "getttyent", "getttynam", "localtime", "gmtime", "ctime", "asctime", "strtok", "strerror", "strsignal",
   "ttyname", "ptsname", "getlogin", "cuserid", "ctermid", "tmpnam", "inet_ntoa", "ether_ntoa", "ether_aton", "readdir",
   "basename", "dirname", "crypt", "ecvt", "fcvt", "l64a", "getdate", "hcreate", "hsearch", "hdestroy", "setlocale",
   "getenv", "setenv", "putenv", "unsetenv", "rand", "srand", "drand48", "lrand48", "mrand48", "getopt", "catgets", "nl_langinfo"]

end Psutil.C17.Thr
