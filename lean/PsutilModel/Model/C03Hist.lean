/-
  Model/C03Hist.lean — histories: several calls on ONE `psutil.Process` object.

  Model/C03.lean describes a call on a fresh object (`_gone = _pid_reused = False`, `_exe = None`). Between the
  calls of a history the object keeps three attributes (`Flags`):
    * is_running() answers False without looking once `_gone` / `_pid_reused` is set,
    * `_raise_if_pid_reused()` raises from the flags,
    * exe() answers from `_exe` once it succeeded.
  Every OTHER object a call creates (`Process(self.pid)` inside is_running(), the children) is new, so it is
  still described by the flag-free definitions. A history call is a computation that never raises at the `M`
  level: it returns the Python-level outcome together with the attributes afterwards
  (`HCall = Flags → M (Except PyExc Val × Flags)`), so the attributes survive an exception — as on the object.

  History calls run outside `oneshot()` (as_dict / oneshot are not history calls), so the front-end memo of ppid()
  is transparent here. parent() / parents() depend on the module global `_LOWEST_PID` and are not history calls.
-/
import PsutilModel.Model.C03
namespace Psutil.C03

structure Flags where
  gone : Bool := false          -- self._gone
  reused : Bool := false        -- self._pid_reused
  exe : Option Bool := none     -- self._exe (some true = a non-empty path, some false = "")
  deriving DecidableEq, Repr

/-- a call on the object under test: outcome + attributes afterwards -/
abbrev HCall := Flags → M (Except PyExc Val × Flags)

/-- run `m`, turning what it raises into a returned outcome; the attributes are `f` whatever happens -/
def reify (m : M Val) (f : Flags) : M (Except PyExc Val × Flags) := fun c s =>
  match m c s with
  | (r, s') => (.ok (r, f), s')

section
variable (cfg : Cfg)
namespace Fe

/-- is_running() on the object whose attributes are `f` -/
def isRunningH (o : Obj) (f : Flags) : M (Bool × Flags) :=
  if f.gone || f.reused then pure (false, f)
  else do
    let (r, reused) ← isRunning cfg o
    -- reused: `_pid_reused = True`, NoSuchProcess raised and caught → `_gone = True`; False without reuse: `_gone = True`
    pure (r, { f with gone := !r, reused := reused })

/-- `_raise_if_pid_reused`: the exception it raises (if any) and the attributes afterwards -/
def raiseIfPidReusedH (o : Obj) (f : Flags) : M (Option PyExc × Flags) := do
  -- `self._pid_reused or (not self.is_running() and self._pid_reused)`
  let (hit, f') ← (if f.reused then pure (true, f)
                   else do
                     let (running, f') ← isRunningH cfg o f
                     pure (!running && f'.reused, f'))
  if hit then pure (some (.nsp o.pid), f')
  else if cfg.goneGuard && f'.gone then pure (some (.nsp o.pid), f')
  else pure (none, f')

/-- `self._raise_if_pid_reused(); body` -/
def guarded (o : Obj) (body : M Val) : HCall := fun f => do
  let (e, f') ← raiseIfPidReusedH cfg o f
  match e with
  | some e => pure (.error e, f')
  | none => reify body f'

/-- exe(): `if self._exe is None: …; self._exe = exe` (the AccessDenied → guess_it branch returns without caching) -/
def exeH (o : Obj) : HCall := fun f =>
  match f.exe with
  | some b => pure (.ok (if b then .str else .estr), f)
  | none => fun c s =>
    -- `Fe.exe` with the assignment to `_exe` made visible: (value, cached?)
    match (tryCatch
            (do let nonempty ← Plat.exe cfg o.pid
                let v ← (if nonempty then pure Val.str
                         else
                           tryCatch (guessIt cfg o (some .estr))
                             (fun e => if catches cfg.exeGuessCatch e then some (pure .estr) else none))
                pure (v, true))
            (fun e => if catches cfg.exeCatch e then some (do let v ← guessIt cfg o none; pure (v, false)) else none)) c s with
    | (.ok (v, true), s') => (.ok (.ok v, { f with exe := some (v == .str) }), s')
    | (.ok (v, false), s') => (.ok (.ok v, f), s')
    | (.error e, s') => (.ok (.error e, f), s')

/-- the calls of a history, by name: the queries that depend on the object's attributes; every other one is the
    call of `method` (it cannot touch the attributes) -/
def methodH (o : Obj) (nm : String) : Option HCall :=
  match nm with
  | "is_running" => some (fun f => do let (r, f') ← isRunningH cfg o f; pure (.ok (.bool r), f'))
  | "ppid" => some (guarded cfg o (do let _ ← Plat.ppid cfg o.pid; pure .int))
  | "children" => some (guarded cfg o (do
      let pm ← Plat.ppidMap cfg
      let pm := if cfg.childrenPopSelf then pm.filter (fun x => x.1 != o.pid) else pm
      let l ← childrenLoop cfg o pm
      pure (.procs l)))
  | "children_recursive" => some (guarded cfg o (do
      let pm ← Plat.ppidMap cfg
      let pm := if cfg.childrenPopSelf then pm.filter (fun x => x.1 != o.pid) else pm
      let l ← childrenRecWalk cfg o (pm.length + 1) pm [o.pid] [] []
      pure (.procs l)))
  | "exe" => some (exeH cfg o)
  | "parent" => none
  | "parents" => none
  | _ => (method cfg o nm).map reify

end Fe
end

/-- run a history: the outcomes in order, with the access counter at which each call started -/
def runHist : List HCall → Flags → Ctx → St → List (Nat × Except PyExc Val)
  | [], _, _, _ => []
  | h :: rest, f, c, s =>
    match h f c s with
    | (.ok (out, f'), s') => (s.k, out) :: runHist rest f' c s'
    | (.error e, s') => (s.k, .error e) :: runHist rest f c s'     -- unreachable: a history call returns its outcome

end Psutil.C03
