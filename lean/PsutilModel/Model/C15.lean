/-
  Model/C15.lean — transcription, in virtual time over exact rationals, of
    * `psutil/_psposix.py: wait_pid`           (`waitLoop` / `pollNonChild` / `sleepStep`)
    * `psutil/__init__.py: Process.wait`       (`procWait`: validation + `_exitcode` cache)
    * `psutil/__init__.py: wait_procs`         (`waitProcs`: deadline slicing, gone/alive, callback)
  System calls cost zero virtual time; only `_sleep(interval)` and a blocking `waitpid`
  advance the clock. Same branch order and names as the Python. Import-free.
-/
import PsutilModel.Base.Bytes
namespace Psutil.C15

/-- facts re-derived from the source by the translator (Generated/C15.lean) -/
structure Cfg where
  i0n : Nat                 -- `interval = 0.0001`  as i0n / i0d
  i0d : Nat
  factor : Nat              -- `interval * 2`
  capn : Nat                -- `_min(interval * 2, 0.04)` as capn / capd
  capd : Nat
  checkBeforeSleep : Bool   -- in `sleep()`: the deadline check comes before `_sleep(interval)`
  deadlineGe : Bool         -- the check is `_timer() >= stop_at` (true) / `>` (false)
  validateNonNeg : Bool     -- `Process.wait`: `timeout is not None and not timeout >= 0` raises ValueError
  sliceN : Nat              -- `wait_procs`: `max_timeout = 1.0 / len(alive)`
  -- (extension) front ends around the loops; the defaults are the shape of the source the proofs were made on
  pidCheck : Bool := true           -- `wait_pid` starts with `if pid <= 0: raise ValueError`
  cbCheck : Bool := true            -- `wait_procs`: `callback is not None and not callable(callback)` raises TypeError before any wait
  popenRcFirst : Bool := true       -- `Popen.wait` starts with `if self.__subproc.returncode is not None: return …`
  popenStoresRc : Bool := true      -- `Popen.wait`: `self.__subproc.returncode = ret` after `super().wait(timeout)`
  popenValidateFirst : Bool := false -- `Popen.wait` rejects a negative timeout BEFORE looking at the stored returncode
  -- (second extension) shape of `wait_procs`' bookkeeping; obligations `cfg_wait_procs_shape`
  loopsOverAlive : Bool := true     -- every `for proc in …` iterates `alive`, the name `while` tests and `alive = alive - gone` refreshes
  aliveIsSet : Bool := true         -- `alive = set(procs)` (between the timeout validation and the callable test), `gone = set()`
  -- (third round) obligations `cfg_pid_test`, `cfg_waitpid_flags`, `cfg_check_gone_order`
  pidRejectsZero : Bool := true     -- the first test of `wait_pid` raises ValueError for pid = 0 …
  pidRejectsNeg : Bool := true      -- … and for every negative pid (`os.waitpid(-1, …)` would wait for ANY child)
  pidRejectsPos : Bool := false     -- … and for some positive pid (never, in the code the proofs were made on)
  flagsTimeout : Nat := 1           -- second argument of `os.waitpid` when a timeout is given (`os.WNOHANG` = 1)
  flagsBlocking : Nat := 0          -- … and without a timeout (WUNTRACED = 2 / WCONTINUED = 8 would report stops)
  rcBeforeCb : Bool := true         -- `check_gone`: `proc.returncode = returncode` precedes `callback(proc)`
  goneBeforeCb : Bool := true       -- `check_gone`: `gone.add(proc)` precedes `callback(proc)`
  -- (seeded round 5) WHICH liveness probe the non-child poll asks; obligation `cfg_nonchild_probe` (Model/C15Probe.lean)
  pollAsksHook : Bool := true       -- `wait_pid`: the ECHILD branch is `while _pid_exists(pid): …sleep…` then `return None`
  hookDefaultIsKill : Bool := true  -- the default of `_pid_exists` is `_psposix.pid_exists`, which asks `os.kill(pid, 0)` and nothing else
  linuxWaitPassesNoHook : Bool := true -- `_pslinux.Process.wait` hands `wait_pid` the pid, the timeout and the name only
  -- (seeded round 5, C15-8) WHICH clock each deadline computation reads; obligation `cfg_steady_clock` (Model/C15Clock.lean)
  stopReadsSteady : Bool := true    -- `wait_pid`: the clock read in `stop_at = <clock>() + timeout` is the steady (monotonic) one
  checkReadsSteady : Bool := true   -- `wait_pid`: the clock read in the deadline check of `sleep()` is the steady one
  procsDeadlineSteady : Bool := true -- `wait_procs`: the clock read in `deadline = <clock>() + timeout` is the steady one
  procsSliceSteady : Bool := true   -- `wait_procs`: the clock read in `timeout = min(deadline - <clock>(), max_timeout)` is the steady one

def Cfg.i0 (c : Cfg) : Rat := (c.i0n : Rat) / (c.i0d : Rat)
def Cfg.cap (c : Cfg) : Rat := (c.capn : Rat) / (c.capd : Rat)

/-- `min` written out (so that proofs do not depend on which `Min Rat` instance is found) -/
def rmin (a b : Rat) : Rat := if a ≤ b then a else b
def rmax (a b : Rat) : Rat := if a ≤ b then b else a

/-! ## environment -/

inductive Kind
  | child (status : Nat)      -- a child of the caller; `status` = the word waitpid will report
  | nonChild                  -- some other process: waitpid says ECHILD, `pid_exists` is polled
  | neverExisted              -- no such PID at all
  deriving DecidableEq, Repr

structure Env where
  kind : Kind
  exitAt : Option Rat         -- the instant the process ends (none = never)
  eintr : Nat → Bool          -- is the n-th `os.waitpid` call on this PID interrupted (EINTR)?

/-- has the process ended by `now`? -/
def Env.ended (env : Env) (now : Rat) : Bool :=
  match env.exitAt with
  | some e => decide (e ≤ now)
  | none => false

/-- `pid_exists(pid)` at `now` -/
def Env.pidExists (env : Env) (now : Rat) : Bool :=
  match env.kind with
  | .neverExisted => false
  | _ => !env.ended now

/-- `Process.is_running()` at `now` -/
def Env.running (env : Env) (now : Rat) : Bool := env.pidExists now

/-! ## wait status words (glibc `bits/waitstatus.h`, as used by `os.WIF*`) -/

def wtermsig (st : Nat) : Nat := st % 128                    -- `status & 0x7f`
def wifexited (st : Nat) : Bool := wtermsig st == 0
def wexitstatus (st : Nat) : Nat := (st / 256) % 256         -- `(status & 0xff00) >> 8`
/-- C conversion to `signed char` -/
def toSignedChar (x : Nat) : Int :=
  if x % 256 < 128 then ((x % 256 : Nat) : Int) else ((x % 256 : Nat) : Int) - 256
/-- `((signed char) ((status & 0x7f) + 1) >> 1) > 0` -/
def wifsignaled (st : Nat) : Bool := decide (0 < toSignedChar (wtermsig st + 1) / 2)

inductive Outcome
  | code (c : Int)                        -- exit code, or minus the signal number
  | none                                  -- `None`
  | timeout (seconds : Rat) (pid : Nat)   -- `TimeoutExpired(seconds, pid=pid)`
  | valueError                            -- `ValueError` (pid 0, unknown status word, negative timeout)
  | hang                                  -- blocked for ever in `waitpid(pid, 0)`
  | outOfFuel                             -- the model's loop bound was reached
  deriving DecidableEq, Repr

/-- the `if os.WIFEXITED … elif os.WIFSIGNALED … else raise ValueError` chain -/
def decode (st : Nat) : Outcome :=
  if wifexited st then .code (wexitstatus st)
  else if wifsignaled st then .code (-(wtermsig st : Int))
  else .valueError

/-! ## `wait_pid` -/

structure St where
  now : Rat
  interval : Rat
  nWait : Nat                 -- `os.waitpid` calls made on this PID so far (indexes `env.eintr`)
  sleeps : List Rat           -- every `_sleep(x)` made, in order

/-- `_sleep(interval); return _min(interval * 2, 0.04)` -/
def St.advance (cfg : Cfg) (s : St) : St :=
  { s with now := s.now + s.interval
           interval := rmin (s.interval * (cfg.factor : Rat)) cfg.cap
           sleeps := s.sleeps ++ [s.interval] }

def pastDeadline (cfg : Cfg) (now stopAt : Rat) : Bool :=
  if cfg.deadlineGe then decide (stopAt ≤ now) else decide (stopAt < now)

/-- the nested `sleep(interval)`: `some o` = it raised -/
def sleepStep (cfg : Cfg) (pid : Nat) (timeout : Option Rat) (stopAt : Rat) (s : St) :
    Option Outcome × St :=
  match timeout with
  | none => (none, s.advance cfg)
  | some τ =>
    if cfg.checkBeforeSleep then
      if pastDeadline cfg s.now stopAt then (some (.timeout τ pid), s) else (none, s.advance cfg)
    else
      let s' := s.advance cfg
      if pastDeadline cfg s'.now stopAt then (some (.timeout τ pid), s') else (none, s')

/-- `while _pid_exists(pid): interval = sleep(interval)` then `return None` -/
def pollNonChild (cfg : Cfg) (env : Env) (pid : Nat) (timeout : Option Rat) (stopAt : Rat) :
    Nat → St → Outcome × St
  | 0, s => (.outOfFuel, s)
  | fuel + 1, s =>
    if env.pidExists s.now then
      match sleepStep cfg pid timeout stopAt s with
      | (some o, s') => (o, s')
      | (none, s') => pollNonChild cfg env pid timeout stopAt fuel s'
    else (.none, s)

/-- the `while True:` loop around `os.waitpid(pid, flags)` -/
def waitLoop (cfg : Cfg) (env : Env) (pid : Nat) (timeout : Option Rat) (stopAt : Rat) :
    Nat → St → Outcome × St
  | 0, s => (.outOfFuel, s)
  | fuel + 1, s =>
    let s1 := { s with nWait := s.nWait + 1 }
    if env.eintr s.nWait then
      -- except InterruptedError: interval = sleep(interval)
      match sleepStep cfg pid timeout stopAt s1 with
      | (some o, s') => (o, s')
      | (none, s') => waitLoop cfg env pid timeout stopAt fuel s'
    else
      match env.kind with
      | .child st =>
        match timeout with
        | some _ =>
          -- WNOHANG
          if env.ended s1.now then (decode st, s1)
          else
            -- retpid == 0
            match sleepStep cfg pid timeout stopAt s1 with
            | (some o, s') => (o, s')
            | (none, s') => waitLoop cfg env pid timeout stopAt fuel s'
        | none =>
          -- blocking call: returns when the child ends
          match env.exitAt with
          | some e => (decode st, { s1 with now := rmax s1.now e })
          | none => (.hang, s1)
      | _ =>
        -- except ChildProcessError
        pollNonChild cfg env pid timeout stopAt (fuel + 1) s1

/-- `wait_pid(pid, timeout)` called at instant `now`, `nWait` earlier waitpid calls on this PID -/
def waitPid (cfg : Cfg) (env : Env) (pid : Nat) (timeout : Option Rat) (fuel : Nat)
    (now : Rat) (nWait : Nat) : Outcome × St :=
  let s0 : St := ⟨now, cfg.i0, nWait, []⟩
  if pid = 0 then (.valueError, s0)
  else waitLoop cfg env pid timeout (now + timeout.getD 0) fuel s0

/-! ## `Process.wait` -/

structure PObj where
  pid : Nat
  exitcode : Option (Option Int)      -- `_exitcode`; `none` = `_SENTINEL`
  nWait : Nat
  returncode : Option (Option Int)    -- the attribute `wait_procs` sets; `none` = absent
  deriving DecidableEq, Repr

def Outcome.value? : Outcome → Option (Option Int)
  | .code c => some (some c)
  | .none => some Option.none
  | _ => Option.none

def Outcome.ofValue : Option Int → Outcome
  | some c => .code c
  | Option.none => .none

structure WaitRes where
  out : Outcome
  now : Rat
  sleeps : List Rat
  obj : PObj

def negative (timeout : Option Rat) : Bool :=
  match timeout with
  | some τ => decide (τ < 0)
  | none => false

/-- `Process.wait(timeout)` at instant `now` -/
def procWait (cfg : Cfg) (env : Env) (timeout : Option Rat) (fuel : Nat) (now : Rat) (p : PObj) :
    WaitRes :=
  if cfg.validateNonNeg && negative timeout then ⟨.valueError, now, [], p⟩
  else
    match p.exitcode with
    | some v => ⟨Outcome.ofValue v, now, [], p⟩
    | none =>
      let r := waitPid cfg env p.pid timeout fuel now p.nWait
      ⟨r.1, r.2.now, r.2.sleeps, { p with exitcode := r.1.value?, nWait := r.2.nWait }⟩

/-! ## `wait_procs` -/

/-- what the callback can see of its argument at the moment it is called -/
structure CbView where
  pid : Nat
  rc : Option (Option Int)            -- `proc.returncode` at that moment (`none` = no such attribute yet)
  inGone : Bool                       -- is `proc` already in the `gone` set at that moment?
  deriving DecidableEq, Repr

structure WP where
  now : Rat
  objs : Nat → PObj                   -- pid ↦ the Process object
  gone : List Nat                     -- the `gone` set, in insertion order
  cbLog : List Nat                    -- pids the callback was called with, in order
  sleeps : List Rat
  calls : List (Nat × Rat)            -- every `proc.wait(timeout=t)` made: (pid, t)
  cbSeen : List CbView := []          -- what each callback invocation saw, in order

def WP.setObj (w : WP) (p : PObj) : WP :=
  { w with objs := fun q => if q = p.pid then p else w.objs q }

/-- `proc.returncode = returncode` -/
def stepSetRc (w : WP) (pid : Nat) (v : Option Int) : WP :=
  { w with objs := fun q => if q = pid then { w.objs pid with returncode := some v } else w.objs q }

/-- `gone.add(proc)` -/
def stepAddGone (w : WP) (pid : Nat) : WP :=
  { w with gone := if pid ∈ w.gone then w.gone else w.gone ++ [pid] }

/-- `if callback is not None: callback(proc)` — the callback sees the object as it is NOW -/
def stepCallback (hasCb : Bool) (w : WP) (pid : Nat) : WP :=
  if hasCb then
    { w with cbLog := w.cbLog ++ [pid]
             cbSeen := w.cbSeen ++ [⟨pid, (w.objs pid).returncode, decide (pid ∈ w.gone)⟩] }
  else w

/-- body of `check_gone` after a wait that did not raise, in the order of the source:
    `proc.returncode = returncode; gone.add(proc); if callback is not None: callback(proc)` -/
def markGone (hasCb : Bool) (w : WP) (pid : Nat) (v : Option Int) : WP :=
  stepCallback hasCb (stepAddGone (stepSetRc w pid v) pid) pid

/-- the same three steps with the callback moved in front of one or both of the others
    (`rcFirst` / `goneFirst` = facts `rcBeforeCb` / `goneBeforeCb`): the FINAL state differs from
    `markGone` only in what the callback saw -/
def markGoneO (rcFirst goneFirst hasCb : Bool) (w : WP) (pid : Nat) (v : Option Int) : WP :=
  match rcFirst, goneFirst with
  | true, true => stepCallback hasCb (stepAddGone (stepSetRc w pid v) pid) pid
  | true, false => stepAddGone (stepCallback hasCb (stepSetRc w pid v) pid) pid
  | false, true => stepSetRc (stepCallback hasCb (stepAddGone w pid) pid) pid v
  | false, false => stepAddGone (stepSetRc (stepCallback hasCb w pid) pid v) pid

/-- `check_gone(proc, timeout)`; `.error o` = exception `o` propagates out of `wait_procs` -/
def checkGone (cfg : Cfg) (envOf : Nat → Env) (hasCb : Bool) (fuel : Nat) (w : WP) (pid : Nat)
    (t : Rat) : Except Outcome WP :=
  let r := procWait cfg (envOf pid) (some t) fuel w.now { w.objs pid with pid := pid }
  let w1 : WP := { w.setObj r.obj with now := r.now, sleeps := w.sleeps ++ r.sleeps,
                                        calls := w.calls ++ [(pid, t)] }
  match r.out with
  | .timeout _ _ => .ok w1
  | .code c => .ok (markGone hasCb w1 pid (some c))
  | .none => if (envOf pid).running r.now then .ok w1 else .ok (markGone hasCb w1 pid none)
  | o => .error o

/-- one `for proc in alive:` pass when a timeout was given; threads the re-assigned `timeout` -/
def passT (cfg : Cfg) (envOf : Nat → Env) (hasCb : Bool) (fuel : Nat) (deadline maxT : Rat) :
    List Nat → WP → Rat → Except Outcome (WP × Rat)
  | [], w, tmo => .ok (w, tmo)
  | pid :: rest, w, _ =>
    let t := rmin (deadline - w.now) maxT
    if t ≤ 0 then .ok (w, t)          -- break
    else
      match checkGone cfg envOf hasCb fuel w pid t with
      | .error o => .error o
      | .ok w' => passT cfg envOf hasCb fuel deadline maxT rest w' t

/-- one pass with a fixed timeout per process (`timeout=None` passes, and the last attempt) -/
def passN (cfg : Cfg) (envOf : Nat → Env) (hasCb : Bool) (fuel : Nat) (t : Rat) :
    List Nat → WP → Except Outcome WP
  | [], w => .ok w
  | pid :: rest, w =>
    match checkGone cfg envOf hasCb fuel w pid t with
    | .error o => .error o
    | .ok w' => passN cfg envOf hasCb fuel t rest w'

def maxTimeout (cfg : Cfg) (alive : List Nat) : Rat := (cfg.sliceN : Rat) / (alive.length : Rat)

/-- `set(procs)`: one entry per distinct process (which order Python iterates it in is `order`'s business) -/
def dedup : List Nat → List Nat
  | [] => []
  | x :: xs => if x ∈ dedup xs then dedup xs else x :: dedup xs

def stillAlive (alive gone : List Nat) : List Nat := alive.filter fun p => !(gone.contains p)

/-- `while alive:` with a timeout. `order k l` = the order in which Python iterates the set `l`
    in a pass that starts after `k` calls of `proc.wait` (any permutation: set order is not
    specified). Returns the state and the surviving `alive`. -/
def whileT (cfg : Cfg) (envOf : Nat → Env) (hasCb : Bool) (fuel : Nat)
    (order : Nat → List Nat → List Nat) (deadline : Rat) :
    Nat → List Nat → WP → Rat → Except Outcome (WP × List Nat)
  | 0, _, _, _ => .error .outOfFuel
  | k + 1, alive, w, tmo =>
    if alive.isEmpty then .ok (w, alive)
    else if tmo ≤ 0 then .ok (w, alive)
    else
      match passT cfg envOf hasCb fuel deadline (maxTimeout cfg alive)
              (order w.calls.length alive) w tmo with
      | .error o => .error o
      | .ok (w', tmo') =>
        whileT cfg envOf hasCb fuel order deadline k (stillAlive alive w'.gone) w' tmo'

/-- `while alive:` without a timeout -/
def whileN (cfg : Cfg) (envOf : Nat → Env) (hasCb : Bool) (fuel : Nat)
    (order : Nat → List Nat → List Nat) :
    Nat → List Nat → WP → Except Outcome (WP × List Nat)
  | 0, _, _ => .error .outOfFuel
  | k + 1, alive, w =>
    if alive.isEmpty then .ok (w, alive)
    else
      match passN cfg envOf hasCb fuel (maxTimeout cfg alive) (order w.calls.length alive) w with
      | .error o => .error o
      | .ok w' => whileN cfg envOf hasCb fuel order k (stillAlive alive w'.gone) w'

/-- the tail of `wait_procs`: `if alive: for proc in alive: check_gone(proc, 0)` -/
def lastAttempt (cfg : Cfg) (envOf : Nat → Env) (hasCb : Bool) (fuel : Nat)
    (order : Nat → List Nat → List Nat) (alive : List Nat) (w : WP) :
    Except Outcome (WP × List Nat) :=
  if alive.isEmpty then .ok (w, alive)
  else
    match passN cfg envOf hasCb fuel 0 (order w.calls.length alive) w with
    | .error o => .error o
    | .ok w' => .ok (w', stillAlive alive w'.gone)

/-- `wait_procs(procs, timeout, callback)`; `procs` are pids (objects are `w.objs pid`);
    returns the final state (its `gone` = first list returned) and the `alive` list -/
def waitProcs (cfg : Cfg) (envOf : Nat → Env) (procs : List Nat) (timeout : Option Rat)
    (hasCb : Bool) (order : Nat → List Nat → List Nat) (fuel : Nat) (w : WP) :
    Except Outcome (WP × List Nat) :=
  if negative timeout then .error .valueError
  else
    let alive := dedup procs
    match timeout with
    | some τ =>
      match whileT cfg envOf hasCb fuel order (w.now + τ) fuel alive w τ with
      | .error o => .error o
      | .ok (w', alive') => lastAttempt cfg envOf hasCb fuel order alive' w'
    | none =>
      match whileN cfg envOf hasCb fuel order fuel alive w with
      | .error o => .error o
      | .ok (w', alive') => lastAttempt cfg envOf hasCb fuel order alive' w'

/-! ## `wait_procs`: the argument checks in front of the loops -/

/-- the `callback` argument -/
inductive Cb
  | absent          -- `None`
  | callable
  | notCallable     -- anything else
  deriving DecidableEq, Repr

/-- what can come out of `wait_procs` instead of the two lists -/
inductive WPErr
  | typeError                 -- `TypeError` (callback is not a callable)
  | out (o : Outcome)         -- an exception escaping from a `proc.wait()` / the timeout validation
  deriving DecidableEq, Repr

/-- `wait_procs(procs, timeout, callback)` from its first line: the timeout validation comes first,
    then `set(procs)`, then the callable test — all before `_timer()` is read or any process is
    waited for -/
def waitProcsFront (cfg : Cfg) (envOf : Nat → Env) (procs : List Nat) (timeout : Option Rat)
    (cb : Cb) (order : Nat → List Nat → List Nat) (fuel : Nat) (w : WP) :
    Except WPErr (WP × List Nat) :=
  if negative timeout then .error (.out .valueError)
  else if cfg.cbCheck && cb == .notCallable then .error .typeError
  else
    match waitProcs cfg envOf procs timeout (cb != .absent) order fuel w with
    | .error o => .error (.out o)
    | .ok r => .ok r

/-! ## `psutil.Popen.wait` (psutil's wrapper only; `subprocess.Popen` is CPython's) -/

structure PopenObj where
  proc : PObj                 -- the `psutil.Process` part (`_exitcode` cache …)
  subRc : Option Int          -- `self.__subproc.returncode` (`none` = `None`)
  deriving DecidableEq, Repr

structure PopenRes where
  out : Outcome
  now : Rat
  sleeps : List Rat
  obj : PopenObj

/-- `subprocess`'s own `poll()`/`wait()`/`communicate()` reaped the child and stored `c` -/
def PopenObj.extSet (q : PopenObj) (c : Int) : PopenObj := { q with subRc := some c }

/-- `Popen.wait(timeout)` at instant `now`:
      if self.__subproc.returncode is not None: return self.__subproc.returncode
      ret = super().wait(timeout); self.__subproc.returncode = ret; return ret -/
def popenWait (cfg : Cfg) (env : Env) (timeout : Option Rat) (fuel : Nat) (now : Rat) (q : PopenObj) :
    PopenRes :=
  if cfg.popenValidateFirst && negative timeout then ⟨.valueError, now, [], q⟩
  else
    match (if cfg.popenRcFirst then q.subRc else none) with
    | some c => ⟨.code c, now, [], q⟩
    | none =>
      let r := procWait cfg env timeout fuel now q.proc
      let rc := if cfg.popenStoresRc then
                  (match r.out.value? with
                   | some v => v            -- returned: `returncode = ret` (None stays None)
                   | none => q.subRc)       -- raised: the assignment is not reached
                else q.subRc
      ⟨r.out, r.now, r.sleeps, ⟨r.obj, rc⟩⟩

end Psutil.C15
