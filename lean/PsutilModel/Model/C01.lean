/-
  Model/C01.lean — process identity machine shared by C01 (signals/setters never reach a
  recycled PID) and C02 (==, hash, is_running follow the process).  Import-free.

  Transcribes, from psutil/__init__.py: `Process._init`, `_get_ident`, `create_time` (memoised),
  `__eq__`, `__hash__`, `is_running`, `_raise_if_pid_reused`, `_send_signal`, `suspend/resume/
  terminate/kill/send_signal`, the setting forms of `nice/ionice/rlimit/cpu_affinity`, `ppid`;
  from psutil/_pslinux.py: `boot_time` (rewrites the module-level `BOOT_TIME`), `Process.create_time`
  (`BOOT_TIME or boot_time()`), and the ESRCH/ENOENT → NoSuchProcess translation of the platform
  setters.  The kernel is simulated: a process table of incarnations, a strictly increasing tick
  clock that stamps every new process, and a published boot time that clock adjustments move.
-/
namespace Psutil.C01

/-- one incarnation of a PID; `start` (clock ticks since boot) is unique per incarnation because
    the kernel clock advances at every spawn — psutil's documented assumption that a PID is not
    recycled within one clock tick -/
structure Inst where
  pid : Nat
  start : Nat
  zombie : Bool
  deriving DecidableEq, Repr

structure Kernel where
  procs : List Inst
  clock : Nat          -- ticks since boot; stamps the next spawned process
  btime : Nat          -- published boot time (`btime` line of /proc/stat); moves with the wall clock
  deriving Repr

/-- kernel-side events -/
inductive KEv
  | spawn (pid : Nat)        -- fork/exec: a new incarnation takes a free PID
  | exit (pid : Nat)         -- the process ends and stays in the table as a zombie
  | reap (pid : Nat)         -- the entry leaves the table (zombie reaped, or exit of an auto-reaped process)
  | tick (n : Nat)           -- time passes
  | setBtime (b : Nat)       -- system clock step: the published boot time changes
  deriving DecidableEq, Repr

def Kernel.find (k : Kernel) (pid : Nat) : Option Inst := k.procs.find? (·.pid == pid)

def Kernel.apply (k : Kernel) : KEv → Kernel
  | .spawn pid =>
    match k.find pid with
    | some _ => k                                              -- PID busy: nothing happens
    | none => { k with procs := ⟨pid, k.clock, false⟩ :: k.procs, clock := k.clock + 1 }
  | .exit pid => { k with procs := k.procs.map fun x => if x.pid == pid then { x with zombie := true } else x }
  | .reap pid => { k with procs := k.procs.filter fun x => !(x.pid == pid) }
  | .tick n => { k with clock := k.clock + n }
  | .setBtime b => { k with btime := b }

/-- facts re-derived from the source by the translator -/
structure Cfg where
  clk : Nat                    -- CLOCK_TICKS
  goneRaises : Bool            -- `_raise_if_pid_reused` raises NoSuchProcess when `_gone` is already set
  bootWriteOnce : Bool         -- `boot_time()` assigns BOOT_TIME only while it is unset
  guardSignal : Bool           -- `_send_signal` calls `_raise_if_pid_reused()` before `os.kill`
  guardNice : Bool
  guardIonice : Bool
  guardRlimit : Bool
  guardAffinity : Bool
  guardPpid : Bool
  pid0Refused : Bool           -- `_send_signal` raises ValueError for pid 0 before `os.kill`
  negRejected : Bool           -- `_init` raises ValueError for pid < 0
  sigStop : Nat                -- suspend() → this signal number
  sigCont : Nat
  sigTerm : Nat
  sigKill : Nat
  deriving Repr

/-- a `psutil.Process` object -/
structure PObj where
  pid : Nat
  ident : Option Nat      -- 2nd component of `_ident`, as `start + clk·boot` (exact; `none` = `(pid, None)`)
  gone : Bool
  reused : Bool
  ghost : Option Nat      -- SPEC ONLY: `start` of the incarnation that owned the PID when the object was built
  deriving DecidableEq, Repr

structure Ps where
  bootTime : Option Nat   -- module-level `_pslinux.BOOT_TIME`
  objs : List PObj
  pidsReused : List Nat   -- `_pids_reused` (consumed by process_iter; C04)
  deriving Repr

inductive SetKind | nice | ionice | rlimit | affinity
  deriving DecidableEq, Repr

inductive EffKind | kill | set (k : SetKind)
  deriving DecidableEq, Repr

/-- something psutil made the OS do -/
structure Eff where
  kind : EffKind
  obj : Nat               -- index of the Process object that asked
  pid : Int               -- PID handed to the OS
  arg : Int               -- signal number / encoded setter value handed to the OS
  owner : Option Nat      -- SPEC ONLY: `start` of the incarnation owning that PID at that instant
  deriving DecidableEq, Repr

inductive SigMethod | send (sig : Nat) | suspend | resume | terminate | kill
  deriving DecidableEq, Repr

inductive Call
  | newObj (pid : Int)
  | isRunning (i : Nat)
  | signal (i : Nat) (m : SigMethod)
  | setter (i : Nat) (k : SetKind) (arg : Int)
  | ppid (i : Nat)
  | bootTime
  | createTime (i : Nat)
  | eq (i j : Nat)
  | hash (i : Nat)
  deriving DecidableEq, Repr

inductive Exc | noSuchProcess (pid : Nat) | valueError | badIndex
  deriving DecidableEq, Repr

inductive Out
  | unit
  | bool (b : Bool)
  | nat (n : Nat)
  | obj (i : Nat)
  | exc (e : Exc)
  deriving DecidableEq, Repr

inductive Ev | k (e : KEv) | c (call : Call)
  deriving DecidableEq, Repr

structure St where
  kern : Kernel
  ps : Ps
  log : List Eff          -- newest first
  deriving Repr

def St.init (btime : Nat) : St := ⟨⟨[], 0, btime⟩, ⟨none, [], []⟩, []⟩

/-- `_pslinux.boot_time()`: read `btime`, (re)write `BOOT_TIME`, return it -/
def bootTimeCall (cfg : Cfg) (k : Kernel) (ps : Ps) : Ps × Nat :=
  let ps' := if cfg.bootWriteOnce && ps.bootTime.isSome then ps else { ps with bootTime := some k.btime }
  (ps', k.btime)

/-- `bt = BOOT_TIME or boot_time()` -/
def bootForCreate (cfg : Cfg) (k : Kernel) (ps : Ps) : Ps × Nat :=
  match ps.bootTime with
  | some b => if b ≠ 0 then (ps, b) else bootTimeCall cfg k ps
  | none => bootTimeCall cfg k ps

/-- `_pslinux.Process.create_time()` for whoever owns `pid` now (scaled by CLOCK_TICKS):
    `none` = NoSuchProcess (no `/proc/pid/stat`) -/
def platCreateTime (cfg : Cfg) (k : Kernel) (ps : Ps) (pid : Nat) : Ps × Option Nat :=
  match k.find pid with
  | none => (ps, none)
  | some x =>
    let (ps', b) := bootForCreate cfg k ps
    (ps', some (x.start + cfg.clk * b))

/-- `Process(pid)`: returns the new object (not yet stored) or the exception -/
def mkObj (cfg : Cfg) (k : Kernel) (ps : Ps) (pid : Nat) : Ps × Except Exc PObj :=
  match platCreateTime cfg k ps pid with
  | (ps', none) => (ps', .error (.noSuchProcess pid))
  | (ps', some ct) => (ps', .ok ⟨pid, some ct, false, false, (k.find pid).map (·.start)⟩)

def setObj (ps : Ps) (i : Nat) (o : PObj) : Ps := { ps with objs := ps.objs.set i o }

/-- `Process.is_running()` on object `i` (already looked up as `o`) -/
def isRunning (cfg : Cfg) (k : Kernel) (ps : Ps) (i : Nat) (o : PObj) : Ps × Bool :=
  if o.gone || o.reused then (ps, false)
  else
    match mkObj cfg k ps o.pid with
    | (ps', .error _) => (setObj ps' i { o with gone := true }, false)
    | (ps', .ok fresh) =>
      if o.ident ≠ fresh.ident then
        (setObj { ps' with pidsReused := o.pid :: ps'.pidsReused } i { o with reused := true, gone := true }, false)
      else (ps', true)

/-- `Process._raise_if_pid_reused()`: `true` = raises NoSuchProcess -/
def raiseIfPidReused (cfg : Cfg) (k : Kernel) (ps : Ps) (i : Nat) (o : PObj) : Ps × Bool :=
  if o.reused then (ps, true)
  else
    let (ps', running) := isRunning cfg k ps i o
    let o' := (ps'.objs[i]?).getD o
    if !running && o'.reused then (ps', true)
    else if cfg.goneRaises && o'.gone then (ps', true)
    else (ps', false)

def sigOf (cfg : Cfg) : SigMethod → Nat
  | .send s => s
  | .suspend => cfg.sigStop
  | .resume => cfg.sigCont
  | .terminate => cfg.sigTerm
  | .kill => cfg.sigKill

def guardOf (cfg : Cfg) : SetKind → Bool
  | .nice => cfg.guardNice
  | .ionice => cfg.guardIonice
  | .rlimit => cfg.guardRlimit
  | .affinity => cfg.guardAffinity

/-- run the guard if the method has one -/
def guarded (cfg : Cfg) (has : Bool) (k : Kernel) (ps : Ps) (i : Nat) (o : PObj) : Ps × Bool :=
  if has then raiseIfPidReused cfg k ps i o else (ps, false)

def step (cfg : Cfg) (s : St) : Ev → St × Out
  | .k e => ({ s with kern := s.kern.apply e }, .unit)
  | .c call =>
    let k := s.kern
    match call with
    | .newObj pid =>
      if pid < 0 then
        if cfg.negRejected then (s, .exc .valueError)
        else (s, .exc (.noSuchProcess 0))     -- never modelled further: see Props (negRejected is an obligation)
      else
        match mkObj cfg k s.ps pid.toNat with
        | (ps', .error e) => ({ s with ps := ps' }, .exc e)
        | (ps', .ok o) => ({ s with ps := { ps' with objs := ps'.objs ++ [o] } }, .obj ps'.objs.length)
    | .isRunning i =>
      match s.ps.objs[i]? with
      | none => (s, .exc .badIndex)
      | some o => let (ps', b) := isRunning cfg k s.ps i o; ({ s with ps := ps' }, .bool b)
    | .signal i m =>
      match s.ps.objs[i]? with
      | none => (s, .exc .badIndex)
      | some o =>
        let (ps', raised) := guarded cfg cfg.guardSignal k s.ps i o
        let o' := (ps'.objs[i]?).getD o
        if raised then ({ s with ps := ps' }, .exc (.noSuchProcess o.pid))
        else if o.pid = 0 && cfg.pid0Refused then ({ s with ps := ps' }, .exc .valueError)
        else
          match k.find o.pid with
          | none =>    -- os.kill → ESRCH: `_gone = True`, NoSuchProcess
            ({ s with ps := setObj ps' i { o' with gone := true } }, .exc (.noSuchProcess o.pid))
          | some x =>
            ({ s with ps := ps', log := ⟨.kill, i, o.pid, sigOf cfg m, some x.start⟩ :: s.log }, .unit)
    | .setter i kind arg =>
      match s.ps.objs[i]? with
      | none => (s, .exc .badIndex)
      | some o =>
        let (ps', raised) := guarded cfg (guardOf cfg kind) k s.ps i o
        if raised then ({ s with ps := ps' }, .exc (.noSuchProcess o.pid))
        else
          match k.find o.pid with
          | none => ({ s with ps := ps' }, .exc (.noSuchProcess o.pid))   -- ESRCH → wrap_exceptions
          | some x =>
            ({ s with ps := ps', log := ⟨.set kind, i, o.pid, arg, some x.start⟩ :: s.log }, .unit)
    | .ppid i =>
      match s.ps.objs[i]? with
      | none => (s, .exc .badIndex)
      | some o =>
        let (ps', raised) := guarded cfg cfg.guardPpid k s.ps i o
        if raised then ({ s with ps := ps' }, .exc (.noSuchProcess o.pid))
        else
          match k.find o.pid with
          | none => ({ s with ps := ps' }, .exc (.noSuchProcess o.pid))
          | some _ => ({ s with ps := ps' }, .unit)
    | .bootTime => let (ps', b) := bootTimeCall cfg k s.ps; ({ s with ps := ps' }, .nat b)
    | .createTime i =>
      match s.ps.objs[i]? with
      | none => (s, .exc .badIndex)
      | some o => (s, match o.ident with | some c => .nat c | none => .exc (.noSuchProcess o.pid))
    | .eq i j =>
      match s.ps.objs[i]?, s.ps.objs[j]? with
      | some a, some b => (s, .bool (a.pid == b.pid && a.ident == b.ident))
      | _, _ => (s, .exc .badIndex)
    | .hash i =>
      match s.ps.objs[i]? with
      | none => (s, .exc .badIndex)
      | some o => (s, .nat (o.pid + 1000003 * (o.ident.getD 0)))   -- any function of `_ident`

def run (cfg : Cfg) (s : St) : List Ev → St
  | [] => s
  | e :: es => run cfg (step cfg s e).1 es

end Psutil.C01
